import Ccp.Model.IPText
/-! Helper lemmas for C11 (core Lean only). -/
namespace Ccp.IPText
open Ccp.Py

/-! ### decimal digits -/
theorem toDecRev_lt (n : Nat) (h : n < 10) : toDecRev n = [Nat.digitChar n] := by
  rw [toDecRev]; simp [h]
theorem toDecRev_ge (n : Nat) (h : ¬ n < 10) :
    toDecRev n = Nat.digitChar (n % 10) :: toDecRev (n / 10) := by
  rw [toDecRev]; simp [h]

theorem digit_fin : ∀ d : Fin 10, isDigit (Nat.digitChar d.val) = true ∧ digitVal (Nat.digitChar d.val) = d.val := by
  decide
theorem isDigit_digitChar (d : Nat) (h : d < 10) : isDigit (Nat.digitChar d) = true := (digit_fin ⟨d, h⟩).1
theorem digitVal_digitChar (d : Nat) (h : d < 10) : digitVal (Nat.digitChar d) = d := (digit_fin ⟨d, h⟩).2

theorem ofDigitsAux_append (xs ys : Str) (acc : Nat) :
    ofDigitsAux (xs ++ ys) acc = (ofDigitsAux xs acc).bind (fun a => ofDigitsAux ys a) := by
  induction xs generalizing acc with
  | nil => simp [ofDigitsAux]
  | cons c cs ih =>
    simp only [List.cons_append, ofDigitsAux]
    split
    · exact ih _
    · simp

theorem ofDigitsAux_toDec (n : Nat) : ofDigitsAux (toDec n) 0 = some n := by
  induction n using Nat.strongRecOn with
  | _ n ih =>
    unfold toDec
    by_cases h : n < 10
    · simp [toDecRev_lt n h, ofDigitsAux, isDigit_digitChar n h, digitVal_digitChar n h]
    · have := ih (n / 10) (by omega)
      unfold toDec at this
      rw [toDecRev_ge n h]
      simp only [List.reverse_cons, ofDigitsAux_append, this, Option.bind_some]
      simp [ofDigitsAux, isDigit_digitChar (n % 10) (by omega), digitVal_digitChar (n % 10) (by omega)]
      omega

theorem toDec_ne_nil (n : Nat) : toDec n ≠ [] := by
  unfold toDec
  by_cases h : n < 10
  · simp [toDecRev_lt n h]
  · simp [toDecRev_ge n h]

theorem ofDigits_toDec (n : Nat) : ofDigits (toDec n) = some n := by
  unfold ofDigits; simp [toDec_ne_nil, ofDigitsAux_toDec]

theorem toDecRev_all (n : Nat) : ∀ c ∈ toDecRev n, isDigit c = true := by
  induction n using Nat.strongRecOn with
  | _ n ih =>
    by_cases h : n < 10
    · rw [toDecRev_lt n h]; simp [isDigit_digitChar n h]
    · rw [toDecRev_ge n h]
      intro c hc
      rcases List.mem_cons.mp hc with hc | hc
      · subst hc; exact isDigit_digitChar _ (by omega)
      · exact ih (n / 10) (by omega) c hc

theorem toDec_all (n : Nat) : ∀ c ∈ toDec n, isDigit c = true := by
  intro c hc; unfold toDec at hc; exact toDecRev_all n c (List.mem_reverse.mp hc)
theorem splitOn_ne_nil (sep : Char) (s : Str) : splitOn sep s ≠ [] := by
  induction s with
  | nil => simp [splitOn]
  | cons c cs ih =>
    unfold splitOn
    split
    · simp
    · split <;> simp

theorem splitOn_noSep (sep : Char) (w : Str) (h : ∀ c ∈ w, c ≠ sep) : splitOn sep w = [w] := by
  induction w with
  | nil => simp [splitOn]
  | cons c cs ih =>
    have hc : c ≠ sep := h c (by simp)
    have := ih (fun x hx => h x (by simp [hx]))
    simp [splitOn, this, hc]

theorem splitOn_append_sep (sep : Char) (w r : Str) (h : ∀ c ∈ w, c ≠ sep) :
    splitOn sep (w ++ sep :: r) = w :: splitOn sep r := by
  induction w with
  | nil =>
    simp only [List.nil_append, splitOn]
    split
    · rename_i h0; exact absurd h0 (splitOn_ne_nil sep r)
    · rename_i x xs h0; simp [h0]
  | cons c cs ih =>
    have hc : c ≠ sep := h c (by simp)
    have := ih (fun x hx => h x (by simp [hx]))
    simp [splitOn, this, hc]

theorem splitOn_join (sep : Char) (ws : List Str) (hne : ws ≠ [])
    (h : ∀ w ∈ ws, ∀ c ∈ w, c ≠ sep) : splitOn sep (join [sep] ws) = ws := by
  induction ws with
  | nil => exact absurd rfl hne
  | cons w ws ih =>
    cases ws with
    | nil => simp [join]; exact splitOn_noSep sep w (h w (by simp))
    | cons w2 ws2 =>
      have := ih (by simp) (fun x hx => h x (by simp [hx]))
      simp only [join, List.append_assoc, List.singleton_append]
      rw [splitOn_append_sep sep w _ (h w (by simp)), this]

/-! strip -/
theorem dropWhile_head_false {p : Char → Bool} (c : Char) (cs : Str) (h : p c = false) :
    (c :: cs).dropWhile p = c :: cs := by simp [List.dropWhile, h]

theorem strip_noSpace (s : Str) (h : ∀ c ∈ s, isSpace c = false) : strip s = s := by
  unfold strip lstrip rstrip
  have h1 : s.dropWhile isSpace = s := by
    cases s with
    | nil => rfl
    | cons c cs => exact dropWhile_head_false c cs (h c (by simp))
  rw [h1]
  have h2 : s.reverse.dropWhile isSpace = s.reverse := by
    cases hr : s.reverse with
    | nil => rfl
    | cons c cs =>
      have : c ∈ s := by rw [← List.mem_reverse, hr]; simp
      exact dropWhile_head_false c cs (h c this)
  rw [h2, List.reverse_reverse]


theorem isSpace_of_isDigit (c : Char) (h : isDigit c = true) : isSpace c = false := by
  unfold isDigit at h
  unfold isSpace Gen.whitespace
  simp only [Bool.and_eq_true, decide_eq_true_eq] at h
  simp only [List.contains_eq_mem, List.mem_cons, List.not_mem_nil, or_false, decide_eq_false_iff_not]
  omega

theorem pyInt_digits (s : Str) (hne : s ≠ []) (h : ∀ c ∈ s, isDigit c = true) :
    pyInt s = (ofDigits s).map Int.ofNat := by
  unfold pyInt
  rw [strip_noSpace s (fun c hc => isSpace_of_isDigit c (h c hc))]
  cases s with
  | nil => exact absurd rfl hne
  | cons c cs =>
    have hc := h c (by simp)
    have h1 : c ≠ '-' := by rintro rfl; revert hc; decide
    have h2 : c ≠ '+' := by rintro rfl; revert hc; decide
    split
    · rename_i ds heq; exact absurd (List.cons.inj heq).1 h1
    · rename_i ds heq; exact absurd (List.cons.inj heq).1 h2
    · rfl

theorem pyNat_toDec (n : Nat) : pyNat (toDec n) = some n := by
  unfold pyNat
  rw [pyInt_digits _ (toDec_ne_nil n) (toDec_all n), ofDigits_toDec]
  rfl


/-! ### octets -/
theorem digitChar_eq_zero : ∀ d : Fin 10, Nat.digitChar d.val = '0' → d.val = 0 := by decide

theorem toDec_cases (a : Nat) (h : a < 1000) :
    (a < 10 ∧ toDec a = [Nat.digitChar a]) ∨
    (10 ≤ a ∧ a < 100 ∧ toDec a = [Nat.digitChar (a / 10), Nat.digitChar (a % 10)]) ∨
    (100 ≤ a ∧ toDec a = [Nat.digitChar (a / 100), Nat.digitChar (a / 10 % 10), Nat.digitChar (a % 10)]) := by
  unfold toDec
  by_cases h1 : a < 10
  · left; exact ⟨h1, by rw [toDecRev_lt a h1]; rfl⟩
  · by_cases h2 : a < 100
    · right; left
      refine ⟨by omega, h2, ?_⟩
      rw [toDecRev_ge a h1, toDecRev_lt (a / 10) (by omega)]; rfl
    · right; right
      refine ⟨by omega, ?_⟩
      rw [toDecRev_ge a h1, toDecRev_ge (a / 10) (by omega), toDecRev_lt (a / 10 / 10) (by omega)]
      have : a / 10 / 10 = a / 100 := by omega
      simp [this]

theorem all_isDigit_toDec (n : Nat) : (toDec n).all isDigit = true := by
  rw [List.all_eq_true]; exact toDec_all n

theorem parseOctet_toDec (a : Nat) (h : a ≤ 255) : parseOctet (toDec a) = some a := by
  unfold parseOctet
  have hz : ¬ (toDec a ≠ ['0'] ∧ (toDec a).head? = some '0') := by
    rintro ⟨h1, h2⟩
    rcases toDec_cases a (by omega) with ⟨ha, e⟩ | ⟨ha, _, e⟩ | ⟨ha, e⟩
    · rw [e] at h1 h2
      simp at h2
      subst h2; exact h1 rfl
    · rw [e] at h2; simp at h2; omega
    · rw [e] at h2; simp at h2; omega
  have hl : ¬ (toDec a).length > 3 := by
    rcases toDec_cases a (by omega) with ⟨_, e⟩ | ⟨_, _, e⟩ | ⟨_, e⟩ <;> simp [e]
  simp only [toDec_ne_nil, all_isDigit_toDec, hl, hz, ofDigits_toDec, if_false, Bool.not_true, Bool.false_eq_true]
  simp; omega


/-! ### dotted quad -/
theorem ne_of_isDigit (c x : Char) (hx : isDigit x = false) (h : isDigit c = true) : c ≠ x := by
  rintro rfl; rw [h] at hx; cases hx

theorem toDec_ne (n : Nat) (x : Char) (hx : isDigit x = false) : ∀ c ∈ toDec n, c ≠ x :=
  fun c hc => ne_of_isDigit c x hx (toDec_all n c hc)

theorem toBytes4_lt (n : Nat) : ∀ b ∈ toBytes4 n, b ≤ 255 := by
  intro b hb; simp [toBytes4] at hb; omega

theorem strV4_eq (n : Nat) : strV4 n =
    toDec (n / 16777216 % 256) ++ '.' :: (toDec (n / 65536 % 256) ++ '.' :: (toDec (n / 256 % 256) ++ '.' :: toDec (n % 256))) := by
  simp [strV4, toBytes4, join]

theorem strV4_chars (n : Nat) : ∀ c ∈ strV4 n, isDigit c = true ∨ c = '.' := by
  intro c hc
  rw [strV4_eq] at hc
  simp only [List.mem_append, List.mem_cons] at hc
  rcases hc with h | h | h | h | h | h | h
  all_goals first | (right; exact h) | (left; exact toDec_all _ c h)

theorem strV4_ne_nil (n : Nat) : strV4 n ≠ [] := by
  rw [strV4_eq]; intro h
  have := toDec_ne_nil (n / 16777216 % 256)
  cases hh : toDec (n / 16777216 % 256) with
  | nil => exact this hh
  | cons a as => rw [hh] at h; cases h

theorem splitOn_strV4 (n : Nat) : splitOn '.' (strV4 n) = (toBytes4 n).map toDec := by
  unfold strV4
  apply splitOn_join
  · simp [toBytes4]
  · intro w hw
    rw [List.mem_map] at hw
    obtain ⟨b, _, rfl⟩ := hw
    exact toDec_ne b '.' (by decide)

theorem fromBytes_toBytes4 (n : Nat) (h : n < 4294967296) : fromBytes (toBytes4 n) = n := by
  simp [fromBytes, toBytes4]; omega

theorem stdV4Int_strV4 (n : Nat) (h : n < 4294967296) : stdV4Int (strV4 n) = some n := by
  unfold stdV4Int
  rw [if_neg (strV4_ne_nil n), splitOn_strV4]
  have hb := fromBytes_toBytes4 n h
  simp only [toBytes4, List.map] at hb ⊢
  rw [parseOctet_toDec _ (by omega), parseOctet_toDec _ (by omega), parseOctet_toDec _ (by omega),
    parseOctet_toDec _ (by omega)]
  simp [hb]

theorem contains_false (s : Str) (x : Char) (h : ∀ c ∈ s, c ≠ x) : s.contains x = false := by
  rw [Bool.eq_false_iff]; intro hc
  rw [List.contains_iff_mem] at hc
  exact h x hc rfl

theorem strV4_ne (n : Nat) (x : Char) (hx : isDigit x = false) (hd : x ≠ '.') : ∀ c ∈ strV4 n, c ≠ x := by
  intro c hc
  rcases strV4_chars n c hc with h | h
  · exact ne_of_isDigit c x hx h
  · rw [h]; exact fun e => hd e.symm

theorem stdV4Addr_strV4 (n : Nat) (h : n < 4294967296) : stdV4Addr (strV4 n) = .ok n := by
  unfold stdV4Addr
  rw [contains_false _ '/' (strV4_ne n '/' (by decide) (by decide))]
  simp [stdV4Int_strV4 n h]

/-- `as_decimal`-style evaluation of the reversed octet texts -/
theorem sumPow_strV4 (n : Nat) (h : n < 4294967296) :
    sumPow 256 pyNat 0 (splitOn '.' (strV4 n)).reverse = some n := by
  rw [splitOn_strV4]
  simp only [toBytes4, List.map, List.reverse_cons, List.reverse_nil, List.nil_append, List.cons_append,
    sumPow, pyNat_toDec]
  simp; omega


/-! ### masks -/
theorem mask32 : ∀ len, len ≤ 32 → ipIntFromPrefix 32 len = 2 ^ 32 - 2 ^ (32 - len) ∧
    hostmaskInt 32 len = 2 ^ (32 - len) - 1 := by decide
theorem mask128 : ∀ len, len ≤ 128 → ipIntFromPrefix 128 len = 2 ^ 128 - 2 ^ (128 - len) ∧
    hostmaskInt 128 len = 2 ^ (128 - len) - 1 := by decide

theorem finishNet_false (w packed len : Nat) :
    finishNet w false packed len = .ok (packed &&& ipIntFromPrefix w len, len) := by
  unfold finishNet
  by_cases h : packed &&& ipIntFromPrefix w len ≠ packed
  · simp [h]
  · have : packed &&& ipIntFromPrefix w len = packed := by simpa using h
    simp [this]

theorem prefixString_toDec (w len : Nat) (h : len ≤ w) : prefixFromPrefixString w (toDec len) = some len := by
  unfold prefixFromPrefixString
  simp [toDec_ne_nil, all_isDigit_toDec, ofDigits_toDec, h]

theorem splitOn_slash (a m : Str) (ha : ∀ c ∈ a, c ≠ '/') (hm : ∀ c ∈ m, c ≠ '/') :
    splitOn '/' (a ++ '/' :: m) = [a, m] := by
  rw [splitOn_append_sep '/' a m ha, splitOn_noSep '/' m hm]

theorem stdV4Net_cidr (ip len : Nat) (h : ip < 4294967296) (hl : len ≤ 32) :
    stdV4Net false (strV4 ip ++ '/' :: toDec len) = .ok (ip &&& ipIntFromPrefix 32 len, len) := by
  unfold stdV4Net splitOptionalNetmask
  rw [splitOn_slash _ _ (strV4_ne ip '/' (by decide) (by decide)) (toDec_ne len '/' (by decide))]
  simp only [bind, Except.bind, stdV4Addr_strV4 ip h, makeNetmask4, prefixString_toDec 32 len hl]
  exact finishNet_false 32 ip len

theorem and_mask_idem (ip m : Nat) : (ip &&& m) &&& m = ip &&& m := by
  rw [Nat.and_assoc, Nat.and_self]

theorem and_lt (ip m w : Nat) (h : ip < 2 ^ w) : ip &&& m < 2 ^ w :=
  Nat.lt_of_le_of_lt Nat.and_le_left h


/-! ### `&&&` with a netmask, arithmetically -/
theorem and_mask_eq (w k ip : Nat) (hk : k ≤ w) (h : ip < 2 ^ w) :
    ip &&& (2 ^ w - 2 ^ k) = 2 ^ k * (ip / 2 ^ k) := by
  have e : 2 ^ w - 2 ^ k = 2 ^ k * (2 ^ (w - k) - 1) := by
    rw [Nat.mul_sub, ← Nat.pow_add, Nat.mul_one]; congr 2; omega
  apply Nat.eq_of_testBit_eq
  intro i
  rw [Nat.testBit_and, e, Nat.testBit_two_pow_mul, Nat.testBit_two_pow_mul, Nat.testBit_two_pow_sub_one,
    Nat.testBit_div_two_pow]
  by_cases hi : i ≥ k
  · have : i - k + k = i := by omega
    simp only [hi, decide_true, Bool.true_and, this]
    by_cases hw : i < w
    · have : i - k < w - k := by omega
      simp [this]
    · have : ip < 2 ^ i := Nat.lt_of_lt_of_le h (Nat.pow_le_pow_right (by omega) (by omega))
      simp [Nat.testBit_lt_two_pow this]
  · simp [hi]

theorem net_add_host (w k ip : Nat) (hk : k ≤ w) (h : ip < 2 ^ w) :
    (ip &&& (2 ^ w - 2 ^ k)) + (2 ^ k - 1) = (ip &&& (2 ^ w - 2 ^ k)) ||| (2 ^ k - 1) := by
  rw [and_mask_eq w k ip hk h]
  exact Nat.two_pow_add_eq_or_of_lt (by have := Nat.two_pow_pos k; omega) _

theorem net_eq_sub_mod (w k ip : Nat) (hk : k ≤ w) (h : ip < 2 ^ w) :
    ip &&& (2 ^ w - 2 ^ k) = ip - ip % 2 ^ k := by
  rw [and_mask_eq w k ip hk h]
  have := Nat.div_add_mod ip (2 ^ k)
  omega

/-! ### IPv4Obj: the object of `(ip, len)` and its derived values -/

/-- what every constructor stores for the interface `(ip, len)` -/
def mk4 (ip len : Nat) : Obj := ⟨ip, ip &&& ipIntFromPrefix 32 len, len⟩

theorem mk4_net_lt (ip len : Nat) (hip : ip < 4294967296) : (mk4 ip len).net < 4294967296 :=
  and_lt ip _ 32 hip

section V4
variable (ip len : Nat) (hip : ip < 4294967296) (hlen : len ≤ 32)
include hip hlen

theorem V4.network_mk4 : V4.network (mk4 ip len) = .ok ((mk4 ip len).net, len) := by
  unfold V4.network V4.netObjStr mk4
  simp only
  rw [stdV4Net_cidr _ len (and_lt ip _ 32 hip) hlen, and_mask_idem]

theorem V4.asCidrNet_mk4 :
    V4.asCidrNet (mk4 ip len) = .ok (strV4 (mk4 ip len).net ++ '/' :: toDec len) := by
  unfold V4.asCidrNet
  rw [V4.network_mk4 ip len hip hlen]; rfl

omit hlen in
theorem V4.asDecimal_mk4 : V4.asDecimal (mk4 ip len) = .ok ip := by
  unfold V4.asDecimal V4.ipStr mk4
  simp only [sumPow_strV4 ip hip]; rfl

theorem V4.asDecimalNetwork_mk4 : V4.asDecimalNetwork (mk4 ip len) = .ok (mk4 ip len).net := by
  unfold V4.asDecimalNetwork
  rw [V4.asCidrNet_mk4 ip len hip hlen]
  simp only [bind, Except.bind]
  rw [splitOn_slash _ _ (strV4_ne _ '/' (by decide) (by decide)) (toDec_ne len '/' (by decide))]
  simp only [List.headD]
  rw [sumPow_strV4 (mk4 ip len).net (mk4_net_lt ip len hip)]; rfl

theorem V4.copy_mk4 : V4.copy (mk4 ip len) = .ok (mk4 ip len) := by
  unfold V4.copy
  rw [V4.asCidrNet_mk4 ip len hip hlen]
  simp only [bind, Except.bind, V4.ipStr]
  have : (mk4 ip len).ip = ip := rfl
  rw [this, stdV4Addr_strV4 ip hip]
  simp only
  rw [stdV4Net_cidr (mk4 ip len).net len (mk4_net_lt ip len hip) hlen]
  simp only [pure, Except.pure, mk4, and_mask_idem]

end V4

theorem V4.fromInt_ok (n : Nat) (h : n < 4294967296) : V4.fromInt (Int.ofNat n) = .ok (mk4 n 32) := by
  unfold V4.fromInt
  have : n ≤ Gen.ipv4MaxInt := by unfold Gen.ipv4MaxInt; omega
  simp only [this, if_true, finishNet_false]
  rfl

/-! ### the IPv4 regex on canonical texts -/
theorem isReDigit_of_isDigit (c : Char) (h : isDigit c = true) : isReDigit c = true := by
  unfold isDigit at h
  simp only [Bool.and_eq_true, decide_eq_true_eq] at h
  unfold isReDigit Gen.reDigitRanges
  rw [List.any_cons]
  simp [h.1, h.2]

theorem reDigit_ws : ∀ n ∈ Gen.whitespace, Gen.reDigitRanges.any (fun r => r.1 ≤ n && n ≤ r.2) = false := by
  decide

theorem isReDigit_of_isSpace (c : Char) (h : isSpace c = true) : isReDigit c = false := by
  unfold isSpace at h
  rw [List.contains_iff_mem] at h
  exact reDigit_ws c.toNat h

theorem takeWhile_append {p : Char → Bool} (l r : Str) (hl : ∀ c ∈ l, p c = true)
    (hr : ∀ c, r.head? = some c → p c = false) : (l ++ r).takeWhile p = l ∧ (l ++ r).dropWhile p = r := by
  induction l with
  | nil =>
    cases r with
    | nil => simp
    | cons c cs => simp [hr c rfl]
  | cons a as ih =>
    have := ih (fun c hc => hl c (by simp [hc]))
    simp [hl a (by simp), this]

theorem digitsDot_toDec (a : Nat) (r : Str) : digitsDot (toDec a ++ '.' :: r) = some (toDec a, r) := by
  unfold digitsDot
  have := takeWhile_append (p := isReDigit) (toDec a) ('.' :: r)
    (fun c hc => isReDigit_of_isDigit c (toDec_all a c hc))
    (fun c hc => by simp at hc; subst hc; decide)
  simp only [this.1, this.2, toDec_ne_nil, if_false]

/-- `rest` does not continue the last run of digits -/
def NoDigitHead (rest : Str) : Prop := ∀ c, rest.head? = some c → isReDigit c = false

theorem quad_strV4 (n : Nat) (rest : Str) (hr : NoDigitHead rest) :
    quad (strV4 n ++ rest) = some (strV4 n, rest) := by
  rw [strV4_eq]
  unfold quad
  simp only [List.append_assoc, List.cons_append, digitsDot_toDec]
  have := takeWhile_append (p := isReDigit) (toDec (n % 256)) rest
    (fun c hc => isReDigit_of_isDigit c (toDec_all _ c hc)) hr
  simp only [this.1, this.2, toDec_ne_nil, if_false]

theorem quad_strV4_nil (n : Nat) : quad (strV4 n) = some (strV4 n, []) := by
  have := quad_strV4 n [] (fun c hc => by simp at hc)
  simpa using this

theorem fullQuad_strV4 (n : Nat) : fullQuad (strV4 n) = true := by
  unfold fullQuad; rw [quad_strV4_nil]

theorem searchQuad_strV4 (n : Nat) : searchQuad (strV4 n) = true := by
  cases h : strV4 n with
  | nil => exact absurd h (strV4_ne_nil n)
  | cons c cs => unfold searchQuad; rw [← h, quad_strV4_nil]; rfl

/-- a run of ASCII digits is not a dotted quad -/
theorem quad_digits (p : Str) (hp : ∀ c ∈ p, isDigit c = true) : quad p = none := by
  have hd : digitsDot p = none := by
    unfold digitsDot
    have := takeWhile_append (p := isReDigit) p [] (fun c hc => isReDigit_of_isDigit c (hp c hc))
      (fun c hc => by simp at hc)
    simp only [List.append_nil] at this
    simp only [this.1, this.2]
    split <;> rfl
  unfold quad; rw [hd]

theorem fullDigits_digits (p : Str) (hne : p ≠ []) (hp : ∀ c ∈ p, isDigit c = true) : fullDigits p = true := by
  unfold fullDigits
  simp only [Bool.and_eq_true, ne_eq, hne, not_false_eq_true, List.all_eq_true, true_and, decide_eq_true_eq]
  exact fun c hc => isReDigit_of_isDigit c (hp c hc)


theorem isSpace_dot : isSpace '.' = false := by decide

theorem strV4_noSpace (n : Nat) : ∀ c ∈ strV4 n, isSpace c = false := by
  intro c hc
  rcases strV4_chars n c hc with h | h
  · exact isSpace_of_isDigit c h
  · rw [h]; exact isSpace_dot

theorem dot_mem_strV4 (n : Nat) : '.' ∈ strV4 n := by
  rw [strV4_eq]; simp

theorem prefixString_strV4 (w n : Nat) : prefixFromPrefixString w (strV4 n) = none := by
  unfold prefixFromPrefixString
  have : (strV4 n).all isDigit = false := by
    rw [Bool.eq_false_iff]; intro h
    rw [List.all_eq_true] at h
    have := h '.' (dot_mem_strV4 n)
    revert this; decide
  simp [this]

/-- the standard library reads the mask value `m` as `/len` (netmask first, else hostmask) -/
def ReadsAs (m len : Nat) : Prop :=
  prefixFromIpInt 32 m = some len ∨
  (prefixFromIpInt 32 m = none ∧ prefixFromIpInt 32 (m ^^^ allOnes 32) = some len)

theorem makeNetmask4_strV4 (m len : Nat) (hm : m < 4294967296) (h : ReadsAs m len) :
    makeNetmask4 (strV4 m) = .ok len := by
  unfold makeNetmask4 prefixFromIpString
  rw [prefixString_strV4, stdV4Int_strV4 m hm]
  rcases h with h | ⟨h1, h2⟩
  · simp only [h]
  · simp only [h1, h2]

theorem makeNetmask4_digits (p : Str) (len : Nat) (hne : p ≠ []) (hp : ∀ c ∈ p, isDigit c = true)
    (hv : ofDigits p = some len) (hl : len ≤ 32) : makeNetmask4 p = .ok len := by
  unfold makeNetmask4 prefixFromPrefixString
  have : p.all isDigit = true := List.all_eq_true.mpr hp
  simp [hne, this, hv, hl]

/-- `IPv4Network("a/m", strict=False)` for a canonical `a` and any mask text that has no slash -/
theorem stdV4Net_of (ip len : Nat) (m : Str) (h : ip < 4294967296) (hm : ∀ c ∈ m, c ≠ '/')
    (hmk : makeNetmask4 m = .ok len) :
    stdV4Net false (strV4 ip ++ '/' :: m) = .ok (ip &&& ipIntFromPrefix 32 len, len) := by
  unfold stdV4Net splitOptionalNetmask
  rw [splitOn_slash _ _ (strV4_ne ip '/' (by decide) (by decide)) hm]
  simp only [bind, Except.bind, stdV4Addr_strV4 ip h, hmk]
  exact finishNet_false 32 ip len

/-- the tail of `IPv4Obj.__init__` once the address and mask texts are known -/
theorem V4.fromStr_tail (ip len : Nat) (m : Str) (h : ip < 4294967296) (hl : len ≤ 32)
    (hm : ∀ c ∈ m, c ≠ '/') (hmk : makeNetmask4 m = .ok len) :
    (do
      let ip' ← stdV4Addr (strV4 ip)
      let n0 ← stdV4Net false (strV4 ip ++ '/' :: m)
      let n ← stdV4Net false (strV4 ip' ++ '/' :: toDec n0.2)
      (pure ⟨ip', n.1, n.2⟩ : Except Err Obj)) = .ok (mk4 ip len) := by
  simp only [bind, Except.bind, stdV4Addr_strV4 ip h, stdV4Net_of ip len m h hm hmk, stdV4Net_cidr ip len h hl]
  rfl

theorem V4.fromStr_plain (input : Str) (ip : Nat) (h : ip < 4294967296) (hs : strip input = strV4 ip) :
    V4.fromStr input = .ok (mk4 ip 32) := by
  unfold V4.fromStr
  have hm : matchV4 (strip input) = some { nomask := strV4 ip } := by
    rw [hs]; unfold matchV4; rw [quad_strV4_nil]
  rw [hm]
  simp only [Option.getD_some, and_self, if_true, List.append_nil]
  have h32 : strip "32".toList = "32".toList := by decide
  have hf : fullDigits "32".toList = true := by decide
  have hq : fullQuad (strip []) = false := by decide
  simp only [h32, hf, hq, Bool.not_true, Bool.false_eq_true, if_false, Bool.not_false, if_true, ne_eq,
    not_true_eq_false, false_and, List.nil_append, searchQuad_strV4]
  have hd : toDec 32 = "32".toList := by
    have := toDec_cases 32 (by omega)
    simp only [show ¬ (32 < 10) by omega, false_and, false_or, Nat.reduceDiv, Nat.reduceMod] at this
    rcases this with ⟨_, _, e⟩ | ⟨h100, _⟩
    · rw [e]; rfl
    · omega
  rw [← hd]
  exact V4.fromStr_tail ip 32 (toDec 32) h (by omega) (toDec_ne 32 '/' (by decide))
    (makeNetmask4_digits _ 32 (toDec_ne_nil 32) (toDec_all 32) (ofDigits_toDec 32) (by omega))


theorem noDigitHead_slash (r : Str) : NoDigitHead ('/' :: r) := by
  intro c hc; simp at hc; subst hc; decide

theorem V4.fromStr_prefix (input : Str) (ip len : Nat) (p : Str) (h : ip < 4294967296) (hl : len ≤ 32)
    (hne : p ≠ []) (hp : ∀ c ∈ p, isDigit c = true) (hv : ofDigits p = some len)
    (hs : strip input = strV4 ip ++ '/' :: p) :
    V4.fromStr input = .ok (mk4 ip len) := by
  unfold V4.fromStr
  have hm : matchV4 (strip input) = some { addrPrefixlen := strV4 ip, masklen := p } := by
    rw [hs]; unfold matchV4; rw [quad_strV4 _ _ (noDigitHead_slash p)]
    simp only [if_true, quad_digits p hp, fullDigits_digits p hne hp]
  rw [hm]
  have hsp : strip p = p := strip_noSpace p (fun c hc => isSpace_of_isDigit c (hp c hc))
  have hq : fullQuad (strip []) = false := by decide
  simp only [Option.getD_some, hne, and_false, if_false, hsp, fullDigits_digits p hne hp, hq, Bool.not_true,
    Bool.false_eq_true, Bool.not_false, if_true, ne_eq, not_true_eq_false, false_and, List.nil_append,
    searchQuad_strV4]
  exact V4.fromStr_tail ip len p h hl (fun c hc => ne_of_isDigit c '/' (by decide) (hp c hc))
    (makeNetmask4_digits p len hne hp hv hl)

theorem V4.fromStr_masktail (ip len m : Nat) (h : ip < 4294967296) (hl : len ≤ 32) (hm : m < 4294967296)
    (hr : ReadsAs m len) :
    (let g : V4Groups := { addrNetmask := strV4 ip, netmask := strV4 m }
     let netmask := g.netmask
     let prefixlen := g.masklen
     let prefixlen := if netmask = [] ∧ prefixlen = [] then "32".toList else prefixlen
     let prefixlen := if !fullDigits (strip prefixlen) then [] else prefixlen
     let netmask := if !fullQuad (strip netmask) then [] else netmask
     let prefixlen := if netmask ≠ [] ∧ prefixlen ≠ [] then [] else prefixlen
     let v4addr := g.nomask ++ g.addrNetmask ++ g.addrPrefixlen
     let maskPrefixlen := netmask ++ prefixlen
     if searchQuad v4addr then do
       let ip ← stdV4Addr v4addr
       let n0 ← stdV4Net false (v4addr ++ '/' :: maskPrefixlen)
       let n ← stdV4Net false (strV4 ip ++ '/' :: toDec n0.2)
       (pure ⟨ip, n.1, n.2⟩ : Except Err Obj)
     else .error .addressValueError) = .ok (mk4 ip len) := by
  have hsp : strip (strV4 m) = strV4 m := strip_noSpace _ (strV4_noSpace m)
  have hd : fullDigits (strip []) = false := by decide
  simp only [strV4_ne_nil, false_and, if_false, hd, Bool.not_false, if_true, hsp, fullQuad_strV4, Bool.not_true,
    Bool.false_eq_true, ne_eq, not_true_eq_false, and_false, List.nil_append, List.append_nil, searchQuad_strV4]
  exact V4.fromStr_tail ip len (strV4 m) h hl (strV4_ne m '/' (by decide) (by decide))
    (makeNetmask4_strV4 m len hm hr)

theorem V4.fromStr_slashMask (input : Str) (ip len m : Nat) (h : ip < 4294967296) (hl : len ≤ 32)
    (hm : m < 4294967296) (hr : ReadsAs m len) (hs : strip input = strV4 ip ++ '/' :: strV4 m) :
    V4.fromStr input = .ok (mk4 ip len) := by
  unfold V4.fromStr
  have hmt : matchV4 (strip input) = some { addrNetmask := strV4 ip, netmask := strV4 m } := by
    rw [hs]; unfold matchV4; rw [quad_strV4 _ _ (noDigitHead_slash _)]
    simp only [if_true, quad_strV4_nil]
  rw [hmt]
  exact V4.fromStr_masktail ip len m h hl hm hr

theorem V4.fromStr_spaceMask (input : Str) (ip len m : Nat) (ws : Str) (h : ip < 4294967296) (hl : len ≤ 32)
    (hm : m < 4294967296) (hr : ReadsAs m len) (hws : ws ≠ []) (hsp : ∀ c ∈ ws, isSpace c = true)
    (hs : strip input = strV4 ip ++ ws ++ strV4 m) :
    V4.fromStr input = .ok (mk4 ip len) := by
  unfold V4.fromStr
  have hmt : matchV4 (strip input) = some { addrNetmask := strV4 ip, netmask := strV4 m } := by
    rw [hs]
    cases ws with
    | nil => exact absurd rfl hws
    | cons w ws' =>
      have hw : isSpace w = true := hsp w (by simp)
      have hne : w ≠ '/' := by rintro rfl; revert hw; decide
      unfold matchV4
      rw [List.append_assoc, quad_strV4 _ _ (fun c hc => by
        simp at hc; rw [← hc]; exact isReDigit_of_isSpace w hw)]
      have hdw : (ws' ++ strV4 m).dropWhile isSpace = strV4 m :=
        (takeWhile_append (p := isSpace) ws' (strV4 m) (fun c hc => hsp c (by simp [hc]))
          (fun c hc => strV4_noSpace m c (List.mem_of_mem_head? hc))).2
      simp only [List.cons_append, hne, if_false, hw, if_true, hdw, quad_strV4_nil]
  rw [hmt]
  exact V4.fromStr_masktail ip len m h hl hm hr

/-- the masks the property talks about are read as intended -/
theorem readsAs_netmask : ∀ len, len ≤ 32 → ReadsAs (2 ^ 32 - 2 ^ (32 - len)) len := by
  unfold ReadsAs; decide
theorem readsAs_hostmask : ∀ len, len ≤ 32 → 0 < len → len < 32 → ReadsAs (2 ^ (32 - len) - 1) len := by
  unfold ReadsAs; decide

end Ccp.IPText
