import Ccp.Model.IPText
/-! Helper lemmas for C11 (core Lean only). -/
namespace Ccp.IPText
open Ccp.Py

/-! ### decimal digits -/
theorem toDecRev_lt (n : Nat) (h : n < 10) : toDecRev n = [Nat.digitChar n] := by
  rw [toDecRev]; simp [h]
theorem toDecRev_ge (n : Nat) (h : ¬ n < 10) :
    toDecRev n = Nat.digitChar (n % 10) :: toDecRev (n / 10) := by
  rw [toDecRev]; simp [h]

theorem digit_fin : ∀ d : Fin 10, isDigit (Nat.digitChar d.val) = true ∧ digitVal (Nat.digitChar d.val) = d.val := by
  decide
theorem isDigit_digitChar (d : Nat) (h : d < 10) : isDigit (Nat.digitChar d) = true := (digit_fin ⟨d, h⟩).1
theorem digitVal_digitChar (d : Nat) (h : d < 10) : digitVal (Nat.digitChar d) = d := (digit_fin ⟨d, h⟩).2

theorem ofDigitsAux_append (xs ys : Str) (acc : Nat) :
    ofDigitsAux (xs ++ ys) acc = (ofDigitsAux xs acc).bind (fun a => ofDigitsAux ys a) := by
  induction xs generalizing acc with
  | nil => simp [ofDigitsAux]
  | cons c cs ih =>
    simp only [List.cons_append, ofDigitsAux]
    split
    · exact ih _
    · simp

theorem ofDigitsAux_toDec (n : Nat) : ofDigitsAux (toDec n) 0 = some n := by
  induction n using Nat.strongRecOn with
  | _ n ih =>
    unfold toDec
    by_cases h : n < 10
    · simp [toDecRev_lt n h, ofDigitsAux, isDigit_digitChar n h, digitVal_digitChar n h]
    · have := ih (n / 10) (by omega)
      unfold toDec at this
      rw [toDecRev_ge n h]
      simp only [List.reverse_cons, ofDigitsAux_append, this, Option.bind_some]
      simp [ofDigitsAux, isDigit_digitChar (n % 10) (by omega), digitVal_digitChar (n % 10) (by omega)]
      omega

theorem toDec_ne_nil (n : Nat) : toDec n ≠ [] := by
  unfold toDec
  by_cases h : n < 10
  · simp [toDecRev_lt n h]
  · simp [toDecRev_ge n h]

theorem ofDigits_toDec (n : Nat) : ofDigits (toDec n) = some n := by
  unfold ofDigits; simp [toDec_ne_nil, ofDigitsAux_toDec]

theorem toDecRev_all (n : Nat) : ∀ c ∈ toDecRev n, isDigit c = true := by
  induction n using Nat.strongRecOn with
  | _ n ih =>
    by_cases h : n < 10
    · rw [toDecRev_lt n h]; simp [isDigit_digitChar n h]
    · rw [toDecRev_ge n h]
      intro c hc
      rcases List.mem_cons.mp hc with hc | hc
      · subst hc; exact isDigit_digitChar _ (by omega)
      · exact ih (n / 10) (by omega) c hc

theorem toDec_all (n : Nat) : ∀ c ∈ toDec n, isDigit c = true := by
  intro c hc; unfold toDec at hc; exact toDecRev_all n c (List.mem_reverse.mp hc)
theorem splitOn_ne_nil (sep : Char) (s : Str) : splitOn sep s ≠ [] := by
  induction s with
  | nil => simp [splitOn]
  | cons c cs ih =>
    unfold splitOn
    split
    · simp
    · split <;> simp

theorem splitOn_noSep (sep : Char) (w : Str) (h : ∀ c ∈ w, c ≠ sep) : splitOn sep w = [w] := by
  induction w with
  | nil => simp [splitOn]
  | cons c cs ih =>
    have hc : c ≠ sep := h c (by simp)
    have := ih (fun x hx => h x (by simp [hx]))
    simp [splitOn, this, hc]

theorem splitOn_append_sep (sep : Char) (w r : Str) (h : ∀ c ∈ w, c ≠ sep) :
    splitOn sep (w ++ sep :: r) = w :: splitOn sep r := by
  induction w with
  | nil =>
    simp only [List.nil_append, splitOn]
    split
    · rename_i h0; exact absurd h0 (splitOn_ne_nil sep r)
    · rename_i x xs h0; simp [h0]
  | cons c cs ih =>
    have hc : c ≠ sep := h c (by simp)
    have := ih (fun x hx => h x (by simp [hx]))
    simp [splitOn, this, hc]

theorem splitOn_join (sep : Char) (ws : List Str) (hne : ws ≠ [])
    (h : ∀ w ∈ ws, ∀ c ∈ w, c ≠ sep) : splitOn sep (join [sep] ws) = ws := by
  induction ws with
  | nil => exact absurd rfl hne
  | cons w ws ih =>
    cases ws with
    | nil => simp [join]; exact splitOn_noSep sep w (h w (by simp))
    | cons w2 ws2 =>
      have := ih (by simp) (fun x hx => h x (by simp [hx]))
      simp only [join, List.append_assoc, List.singleton_append]
      rw [splitOn_append_sep sep w _ (h w (by simp)), this]

/-! strip -/
theorem dropWhile_head_false {p : Char → Bool} (c : Char) (cs : Str) (h : p c = false) :
    (c :: cs).dropWhile p = c :: cs := by simp [List.dropWhile, h]

theorem strip_noSpace (s : Str) (h : ∀ c ∈ s, isSpace c = false) : strip s = s := by
  unfold strip lstrip rstrip
  have h1 : s.dropWhile isSpace = s := by
    cases s with
    | nil => rfl
    | cons c cs => exact dropWhile_head_false c cs (h c (by simp))
  rw [h1]
  have h2 : s.reverse.dropWhile isSpace = s.reverse := by
    cases hr : s.reverse with
    | nil => rfl
    | cons c cs =>
      have : c ∈ s := by rw [← List.mem_reverse, hr]; simp
      exact dropWhile_head_false c cs (h c this)
  rw [h2, List.reverse_reverse]


theorem isSpace_of_isDigit (c : Char) (h : isDigit c = true) : isSpace c = false := by
  unfold isDigit at h
  unfold isSpace Gen.whitespace
  simp only [Bool.and_eq_true, decide_eq_true_eq] at h
  simp only [List.contains_eq_mem, List.mem_cons, List.not_mem_nil, or_false, decide_eq_false_iff_not]
  omega

theorem pyInt_digits (s : Str) (hne : s ≠ []) (h : ∀ c ∈ s, isDigit c = true) :
    pyInt s = (ofDigits s).map Int.ofNat := by
  unfold pyInt
  rw [strip_noSpace s (fun c hc => isSpace_of_isDigit c (h c hc))]
  cases s with
  | nil => exact absurd rfl hne
  | cons c cs =>
    have hc := h c (by simp)
    have h1 : c ≠ '-' := by rintro rfl; revert hc; decide
    have h2 : c ≠ '+' := by rintro rfl; revert hc; decide
    split
    · rename_i ds heq; exact absurd (List.cons.inj heq).1 h1
    · rename_i ds heq; exact absurd (List.cons.inj heq).1 h2
    · rfl

theorem pyNat_toDec (n : Nat) : pyNat (toDec n) = some n := by
  unfold pyNat
  rw [pyInt_digits _ (toDec_ne_nil n) (toDec_all n), ofDigits_toDec]
  rfl


/-! ### octets -/
theorem digitChar_eq_zero : ∀ d : Fin 10, Nat.digitChar d.val = '0' → d.val = 0 := by decide

theorem toDec_cases (a : Nat) (h : a < 1000) :
    (a < 10 ∧ toDec a = [Nat.digitChar a]) ∨
    (10 ≤ a ∧ a < 100 ∧ toDec a = [Nat.digitChar (a / 10), Nat.digitChar (a % 10)]) ∨
    (100 ≤ a ∧ toDec a = [Nat.digitChar (a / 100), Nat.digitChar (a / 10 % 10), Nat.digitChar (a % 10)]) := by
  unfold toDec
  by_cases h1 : a < 10
  · left; exact ⟨h1, by rw [toDecRev_lt a h1]; rfl⟩
  · by_cases h2 : a < 100
    · right; left
      refine ⟨by omega, h2, ?_⟩
      rw [toDecRev_ge a h1, toDecRev_lt (a / 10) (by omega)]; rfl
    · right; right
      refine ⟨by omega, ?_⟩
      rw [toDecRev_ge a h1, toDecRev_ge (a / 10) (by omega), toDecRev_lt (a / 10 / 10) (by omega)]
      have : a / 10 / 10 = a / 100 := by omega
      simp [this]

theorem all_isDigit_toDec (n : Nat) : (toDec n).all isDigit = true := by
  rw [List.all_eq_true]; exact toDec_all n

theorem parseOctet_toDec (a : Nat) (h : a ≤ 255) : parseOctet (toDec a) = some a := by
  unfold parseOctet
  have hz : ¬ (toDec a ≠ ['0'] ∧ (toDec a).head? = some '0') := by
    rintro ⟨h1, h2⟩
    rcases toDec_cases a (by omega) with ⟨ha, e⟩ | ⟨ha, _, e⟩ | ⟨ha, e⟩
    · rw [e] at h1 h2
      simp at h2
      subst h2; exact h1 rfl
    · rw [e] at h2; simp at h2; omega
    · rw [e] at h2; simp at h2; omega
  have hl : ¬ (toDec a).length > 3 := by
    rcases toDec_cases a (by omega) with ⟨_, e⟩ | ⟨_, _, e⟩ | ⟨_, e⟩ <;> simp [e]
  simp only [toDec_ne_nil, all_isDigit_toDec, hl, hz, ofDigits_toDec, if_false, Bool.not_true, Bool.false_eq_true]
  simp; omega


/-! ### dotted quad -/
theorem ne_of_isDigit (c x : Char) (hx : isDigit x = false) (h : isDigit c = true) : c ≠ x := by
  rintro rfl; rw [h] at hx; cases hx

theorem toDec_ne (n : Nat) (x : Char) (hx : isDigit x = false) : ∀ c ∈ toDec n, c ≠ x :=
  fun c hc => ne_of_isDigit c x hx (toDec_all n c hc)

theorem toBytes4_lt (n : Nat) : ∀ b ∈ toBytes4 n, b ≤ 255 := by
  intro b hb; simp [toBytes4] at hb; omega

theorem strV4_eq (n : Nat) : strV4 n =
    toDec (n / 16777216 % 256) ++ '.' :: (toDec (n / 65536 % 256) ++ '.' :: (toDec (n / 256 % 256) ++ '.' :: toDec (n % 256))) := by
  simp [strV4, toBytes4, join]

theorem strV4_chars (n : Nat) : ∀ c ∈ strV4 n, isDigit c = true ∨ c = '.' := by
  intro c hc
  rw [strV4_eq] at hc
  simp only [List.mem_append, List.mem_cons] at hc
  rcases hc with h | h | h | h | h | h | h
  all_goals first | (right; exact h) | (left; exact toDec_all _ c h)

theorem strV4_ne_nil (n : Nat) : strV4 n ≠ [] := by
  rw [strV4_eq]; intro h
  have := toDec_ne_nil (n / 16777216 % 256)
  cases hh : toDec (n / 16777216 % 256) with
  | nil => exact this hh
  | cons a as => rw [hh] at h; cases h

theorem splitOn_strV4 (n : Nat) : splitOn '.' (strV4 n) = (toBytes4 n).map toDec := by
  unfold strV4
  apply splitOn_join
  · simp [toBytes4]
  · intro w hw
    rw [List.mem_map] at hw
    obtain ⟨b, _, rfl⟩ := hw
    exact toDec_ne b '.' (by decide)

theorem fromBytes_toBytes4 (n : Nat) (h : n < 4294967296) : fromBytes (toBytes4 n) = n := by
  simp [fromBytes, toBytes4]; omega

theorem stdV4Int_strV4 (n : Nat) (h : n < 4294967296) : stdV4Int (strV4 n) = some n := by
  unfold stdV4Int
  rw [if_neg (strV4_ne_nil n), splitOn_strV4]
  have hb := fromBytes_toBytes4 n h
  simp only [toBytes4, List.map] at hb ⊢
  rw [parseOctet_toDec _ (by omega), parseOctet_toDec _ (by omega), parseOctet_toDec _ (by omega),
    parseOctet_toDec _ (by omega)]
  simp [hb]

theorem contains_false (s : Str) (x : Char) (h : ∀ c ∈ s, c ≠ x) : s.contains x = false := by
  rw [Bool.eq_false_iff]; intro hc
  rw [List.contains_iff_mem] at hc
  exact h x hc rfl

theorem strV4_ne (n : Nat) (x : Char) (hx : isDigit x = false) (hd : x ≠ '.') : ∀ c ∈ strV4 n, c ≠ x := by
  intro c hc
  rcases strV4_chars n c hc with h | h
  · exact ne_of_isDigit c x hx h
  · rw [h]; exact fun e => hd e.symm

theorem stdV4Addr_strV4 (n : Nat) (h : n < 4294967296) : stdV4Addr (strV4 n) = .ok n := by
  unfold stdV4Addr
  rw [contains_false _ '/' (strV4_ne n '/' (by decide) (by decide))]
  simp [stdV4Int_strV4 n h]

/-- `as_decimal`-style evaluation of the reversed octet texts -/
theorem sumPow_strV4 (n : Nat) (h : n < 4294967296) :
    sumPow 256 pyNat 0 (splitOn '.' (strV4 n)).reverse = some n := by
  rw [splitOn_strV4]
  simp only [toBytes4, List.map, List.reverse_cons, List.reverse_nil, List.nil_append, List.cons_append,
    sumPow, pyNat_toDec]
  simp; omega


/-! ### masks -/
theorem mask32 : ∀ len, len ≤ 32 → ipIntFromPrefix 32 len = 2 ^ 32 - 2 ^ (32 - len) ∧
    hostmaskInt 32 len = 2 ^ (32 - len) - 1 := by decide
theorem mask128 : ∀ len, len ≤ 128 → ipIntFromPrefix 128 len = 2 ^ 128 - 2 ^ (128 - len) ∧
    hostmaskInt 128 len = 2 ^ (128 - len) - 1 := by decide

theorem finishNet_false (w packed len : Nat) :
    finishNet w false packed len = .ok (packed &&& ipIntFromPrefix w len, len) := by
  unfold finishNet
  by_cases h : packed &&& ipIntFromPrefix w len ≠ packed
  · simp [h]
  · have : packed &&& ipIntFromPrefix w len = packed := by simpa using h
    simp [this]

theorem prefixString_toDec (w len : Nat) (h : len ≤ w) : prefixFromPrefixString w (toDec len) = some len := by
  unfold prefixFromPrefixString
  simp [toDec_ne_nil, all_isDigit_toDec, ofDigits_toDec, h]

theorem splitOn_slash (a m : Str) (ha : ∀ c ∈ a, c ≠ '/') (hm : ∀ c ∈ m, c ≠ '/') :
    splitOn '/' (a ++ '/' :: m) = [a, m] := by
  rw [splitOn_append_sep '/' a m ha, splitOn_noSep '/' m hm]

theorem stdV4Net_cidr (ip len : Nat) (h : ip < 4294967296) (hl : len ≤ 32) :
    stdV4Net false (strV4 ip ++ '/' :: toDec len) = .ok (ip &&& ipIntFromPrefix 32 len, len) := by
  unfold stdV4Net splitOptionalNetmask
  rw [splitOn_slash _ _ (strV4_ne ip '/' (by decide) (by decide)) (toDec_ne len '/' (by decide))]
  simp only [bind, Except.bind, stdV4Addr_strV4 ip h, makeNetmask4, prefixString_toDec 32 len hl]
  exact finishNet_false 32 ip len

theorem and_mask_idem (ip m : Nat) : (ip &&& m) &&& m = ip &&& m := by
  rw [Nat.and_assoc, Nat.and_self]

theorem and_lt (ip m w : Nat) (h : ip < 2 ^ w) : ip &&& m < 2 ^ w :=
  Nat.lt_of_le_of_lt Nat.and_le_left h


/-! ### `&&&` with a netmask, arithmetically -/
theorem and_mask_eq (w k ip : Nat) (hk : k ≤ w) (h : ip < 2 ^ w) :
    ip &&& (2 ^ w - 2 ^ k) = 2 ^ k * (ip / 2 ^ k) := by
  have e : 2 ^ w - 2 ^ k = 2 ^ k * (2 ^ (w - k) - 1) := by
    rw [Nat.mul_sub, ← Nat.pow_add, Nat.mul_one]; congr 2; omega
  apply Nat.eq_of_testBit_eq
  intro i
  rw [Nat.testBit_and, e, Nat.testBit_two_pow_mul, Nat.testBit_two_pow_mul, Nat.testBit_two_pow_sub_one,
    Nat.testBit_div_two_pow]
  by_cases hi : i ≥ k
  · have : i - k + k = i := by omega
    simp only [hi, decide_true, Bool.true_and, this]
    by_cases hw : i < w
    · have : i - k < w - k := by omega
      simp [this]
    · have : ip < 2 ^ i := Nat.lt_of_lt_of_le h (Nat.pow_le_pow_right (by omega) (by omega))
      simp [Nat.testBit_lt_two_pow this]
  · simp [hi]

theorem net_add_host (w k ip : Nat) (hk : k ≤ w) (h : ip < 2 ^ w) :
    (ip &&& (2 ^ w - 2 ^ k)) + (2 ^ k - 1) = (ip &&& (2 ^ w - 2 ^ k)) ||| (2 ^ k - 1) := by
  rw [and_mask_eq w k ip hk h]
  exact Nat.two_pow_add_eq_or_of_lt (by have := Nat.two_pow_pos k; omega) _

theorem net_eq_sub_mod (w k ip : Nat) (hk : k ≤ w) (h : ip < 2 ^ w) :
    ip &&& (2 ^ w - 2 ^ k) = ip - ip % 2 ^ k := by
  rw [and_mask_eq w k ip hk h]
  have := Nat.div_add_mod ip (2 ^ k)
  omega

/-! ### IPv4Obj: the object of `(ip, len)` and its derived values -/

/-- what every constructor stores for the interface `(ip, len)` -/
def mk4 (ip len : Nat) : Obj := ⟨ip, ip &&& ipIntFromPrefix 32 len, len⟩

theorem mk4_net_lt (ip len : Nat) (hip : ip < 4294967296) : (mk4 ip len).net < 4294967296 :=
  and_lt ip _ 32 hip

section V4
variable (ip len : Nat) (hip : ip < 4294967296) (hlen : len ≤ 32)
include hip hlen

theorem V4.network_mk4 : V4.network (mk4 ip len) = .ok ((mk4 ip len).net, len) := by
  unfold V4.network V4.netObjStr mk4
  simp only
  rw [stdV4Net_cidr _ len (and_lt ip _ 32 hip) hlen, and_mask_idem]

theorem V4.asCidrNet_mk4 :
    V4.asCidrNet (mk4 ip len) = .ok (strV4 (mk4 ip len).net ++ '/' :: toDec len) := by
  unfold V4.asCidrNet
  rw [V4.network_mk4 ip len hip hlen]; rfl

omit hlen in
theorem V4.asDecimal_mk4 : V4.asDecimal (mk4 ip len) = .ok ip := by
  unfold V4.asDecimal V4.ipStr mk4
  simp only [sumPow_strV4 ip hip]; rfl

theorem V4.asDecimalNetwork_mk4 : V4.asDecimalNetwork (mk4 ip len) = .ok (mk4 ip len).net := by
  unfold V4.asDecimalNetwork
  rw [V4.asCidrNet_mk4 ip len hip hlen]
  simp only [bind, Except.bind]
  rw [splitOn_slash _ _ (strV4_ne _ '/' (by decide) (by decide)) (toDec_ne len '/' (by decide))]
  simp only [List.headD]
  rw [sumPow_strV4 (mk4 ip len).net (mk4_net_lt ip len hip)]; rfl

theorem V4.copy_mk4 : V4.copy (mk4 ip len) = .ok (mk4 ip len) := by
  unfold V4.copy
  rw [V4.asCidrNet_mk4 ip len hip hlen]
  simp only [bind, Except.bind, V4.ipStr]
  have : (mk4 ip len).ip = ip := rfl
  rw [this, stdV4Addr_strV4 ip hip]
  simp only
  rw [stdV4Net_cidr (mk4 ip len).net len (mk4_net_lt ip len hip) hlen]
  simp only [pure, Except.pure, mk4, and_mask_idem]

end V4

theorem V4.fromInt_ok (n : Nat) (h : n < 4294967296) : V4.fromInt (Int.ofNat n) = .ok (mk4 n 32) := by
  unfold V4.fromInt
  have : n ≤ Gen.ipv4MaxInt := by unfold Gen.ipv4MaxInt; omega
  simp only [this, if_true, finishNet_false]
  rfl

/-! ### the IPv4 regex on canonical texts -/
theorem isReDigit_of_isDigit (c : Char) (h : isDigit c = true) : isReDigit c = true := by
  unfold isDigit at h
  simp only [Bool.and_eq_true, decide_eq_true_eq] at h
  unfold isReDigit Gen.reDigitRanges
  rw [List.any_cons]
  simp [h.1, h.2]

theorem reDigit_ws : ∀ n ∈ Gen.whitespace, Gen.reDigitRanges.any (fun r => r.1 ≤ n && n ≤ r.2) = false := by
  decide

theorem isReDigit_of_isSpace (c : Char) (h : isSpace c = true) : isReDigit c = false := by
  unfold isSpace at h
  rw [List.contains_iff_mem] at h
  exact reDigit_ws c.toNat h

theorem takeWhile_append {p : Char → Bool} (l r : Str) (hl : ∀ c ∈ l, p c = true)
    (hr : ∀ c, r.head? = some c → p c = false) : (l ++ r).takeWhile p = l ∧ (l ++ r).dropWhile p = r := by
  induction l with
  | nil =>
    cases r with
    | nil => simp
    | cons c cs => simp [hr c rfl]
  | cons a as ih =>
    have := ih (fun c hc => hl c (by simp [hc]))
    simp [hl a (by simp), this]

theorem digitsDot_toDec (a : Nat) (r : Str) : digitsDot (toDec a ++ '.' :: r) = some (toDec a, r) := by
  unfold digitsDot
  have := takeWhile_append (p := isReDigit) (toDec a) ('.' :: r)
    (fun c hc => isReDigit_of_isDigit c (toDec_all a c hc))
    (fun c hc => by simp at hc; subst hc; decide)
  simp only [this.1, this.2, toDec_ne_nil, if_false]

/-- `rest` does not continue the last run of digits -/
def NoDigitHead (rest : Str) : Prop := ∀ c, rest.head? = some c → isReDigit c = false

theorem quad_strV4 (n : Nat) (rest : Str) (hr : NoDigitHead rest) :
    quad (strV4 n ++ rest) = some (strV4 n, rest) := by
  rw [strV4_eq]
  unfold quad
  simp only [List.append_assoc, List.cons_append, digitsDot_toDec]
  have := takeWhile_append (p := isReDigit) (toDec (n % 256)) rest
    (fun c hc => isReDigit_of_isDigit c (toDec_all _ c hc)) hr
  simp only [this.1, this.2, toDec_ne_nil, if_false]

theorem quad_strV4_nil (n : Nat) : quad (strV4 n) = some (strV4 n, []) := by
  have := quad_strV4 n [] (fun c hc => by simp at hc)
  simpa using this

theorem fullQuad_strV4 (n : Nat) : fullQuad (strV4 n) = true := by
  unfold fullQuad; rw [quad_strV4_nil]

theorem searchQuad_strV4 (n : Nat) : searchQuad (strV4 n) = true := by
  cases h : strV4 n with
  | nil => exact absurd h (strV4_ne_nil n)
  | cons c cs => unfold searchQuad; rw [← h, quad_strV4_nil]; rfl

/-- a run of ASCII digits is not a dotted quad -/
theorem quad_digits (p : Str) (hp : ∀ c ∈ p, isDigit c = true) : quad p = none := by
  have hd : digitsDot p = none := by
    unfold digitsDot
    have := takeWhile_append (p := isReDigit) p [] (fun c hc => isReDigit_of_isDigit c (hp c hc))
      (fun c hc => by simp at hc)
    simp only [List.append_nil] at this
    simp only [this.1, this.2]
    split <;> rfl
  unfold quad; rw [hd]

theorem fullDigits_digits (p : Str) (hne : p ≠ []) (hp : ∀ c ∈ p, isDigit c = true) : fullDigits p = true := by
  unfold fullDigits
  simp only [Bool.and_eq_true, ne_eq, hne, not_false_eq_true, List.all_eq_true, true_and, decide_eq_true_eq]
  exact fun c hc => isReDigit_of_isDigit c (hp c hc)


theorem isSpace_dot : isSpace '.' = false := by decide

theorem strV4_noSpace (n : Nat) : ∀ c ∈ strV4 n, isSpace c = false := by
  intro c hc
  rcases strV4_chars n c hc with h | h
  · exact isSpace_of_isDigit c h
  · rw [h]; exact isSpace_dot

theorem dot_mem_strV4 (n : Nat) : '.' ∈ strV4 n := by
  rw [strV4_eq]; simp

theorem prefixString_strV4 (w n : Nat) : prefixFromPrefixString w (strV4 n) = none := by
  unfold prefixFromPrefixString
  have : (strV4 n).all isDigit = false := by
    rw [Bool.eq_false_iff]; intro h
    rw [List.all_eq_true] at h
    have := h '.' (dot_mem_strV4 n)
    revert this; decide
  simp [this]

/-- the standard library reads the mask value `m` as `/len` (netmask first, else hostmask) -/
def ReadsAs (m len : Nat) : Prop :=
  prefixFromIpInt 32 m = some len ∨
  (prefixFromIpInt 32 m = none ∧ prefixFromIpInt 32 (m ^^^ allOnes 32) = some len)

theorem makeNetmask4_strV4 (m len : Nat) (hm : m < 4294967296) (h : ReadsAs m len) :
    makeNetmask4 (strV4 m) = .ok len := by
  unfold makeNetmask4 prefixFromIpString
  rw [prefixString_strV4, stdV4Int_strV4 m hm]
  rcases h with h | ⟨h1, h2⟩
  · simp only [h]
  · simp only [h1, h2]

theorem makeNetmask4_digits (p : Str) (len : Nat) (hne : p ≠ []) (hp : ∀ c ∈ p, isDigit c = true)
    (hv : ofDigits p = some len) (hl : len ≤ 32) : makeNetmask4 p = .ok len := by
  unfold makeNetmask4 prefixFromPrefixString
  have : p.all isDigit = true := List.all_eq_true.mpr hp
  simp [hne, this, hv, hl]

/-- `IPv4Network("a/m", strict=False)` for a canonical `a` and any mask text that has no slash -/
theorem stdV4Net_of (ip len : Nat) (m : Str) (h : ip < 4294967296) (hm : ∀ c ∈ m, c ≠ '/')
    (hmk : makeNetmask4 m = .ok len) :
    stdV4Net false (strV4 ip ++ '/' :: m) = .ok (ip &&& ipIntFromPrefix 32 len, len) := by
  unfold stdV4Net splitOptionalNetmask
  rw [splitOn_slash _ _ (strV4_ne ip '/' (by decide) (by decide)) hm]
  simp only [bind, Except.bind, stdV4Addr_strV4 ip h, hmk]
  exact finishNet_false 32 ip len

/-- the tail of `IPv4Obj.__init__` once the address and mask texts are known -/
theorem V4.fromStr_tail (ip len : Nat) (m : Str) (h : ip < 4294967296) (hl : len ≤ 32)
    (hm : ∀ c ∈ m, c ≠ '/') (hmk : makeNetmask4 m = .ok len) :
    (do
      let ip' ← stdV4Addr (strV4 ip)
      let n0 ← stdV4Net false (strV4 ip ++ '/' :: m)
      let n ← stdV4Net false (strV4 ip' ++ '/' :: toDec n0.2)
      (pure ⟨ip', n.1, n.2⟩ : Except Err Obj)) = .ok (mk4 ip len) := by
  simp only [bind, Except.bind, stdV4Addr_strV4 ip h, stdV4Net_of ip len m h hm hmk, stdV4Net_cidr ip len h hl]
  rfl

theorem V4.fromStr_plain (input : Str) (ip : Nat) (h : ip < 4294967296) (hs : strip input = strV4 ip) :
    V4.fromStr input = .ok (mk4 ip 32) := by
  unfold V4.fromStr
  have hm : matchV4 (strip input) = some { nomask := strV4 ip } := by
    rw [hs]; unfold matchV4; rw [quad_strV4_nil]
  rw [hm]
  simp only [Option.getD_some, and_self, if_true, List.append_nil]
  have h32 : strip "32".toList = "32".toList := by decide
  have hf : fullDigits "32".toList = true := by decide
  have hq : fullQuad (strip []) = false := by decide
  simp only [h32, hf, hq, Bool.not_true, Bool.false_eq_true, if_false, Bool.not_false, if_true, ne_eq,
    not_true_eq_false, false_and, List.nil_append, searchQuad_strV4]
  have hd : toDec 32 = "32".toList := by
    have := toDec_cases 32 (by omega)
    simp only [show ¬ (32 < 10) by omega, false_and, false_or, Nat.reduceDiv, Nat.reduceMod] at this
    rcases this with ⟨_, _, e⟩ | ⟨h100, _⟩
    · rw [e]; rfl
    · omega
  rw [← hd]
  exact V4.fromStr_tail ip 32 (toDec 32) h (by omega) (toDec_ne 32 '/' (by decide))
    (makeNetmask4_digits _ 32 (toDec_ne_nil 32) (toDec_all 32) (ofDigits_toDec 32) (by omega))


theorem noDigitHead_slash (r : Str) : NoDigitHead ('/' :: r) := by
  intro c hc; simp at hc; subst hc; decide

theorem V4.fromStr_prefix (input : Str) (ip len : Nat) (p : Str) (h : ip < 4294967296) (hl : len ≤ 32)
    (hne : p ≠ []) (hp : ∀ c ∈ p, isDigit c = true) (hv : ofDigits p = some len)
    (hs : strip input = strV4 ip ++ '/' :: p) :
    V4.fromStr input = .ok (mk4 ip len) := by
  unfold V4.fromStr
  have hm : matchV4 (strip input) = some { addrPrefixlen := strV4 ip, masklen := p } := by
    rw [hs]; unfold matchV4; rw [quad_strV4 _ _ (noDigitHead_slash p)]
    simp only [if_true, quad_digits p hp, fullDigits_digits p hne hp]
  rw [hm]
  have hsp : strip p = p := strip_noSpace p (fun c hc => isSpace_of_isDigit c (hp c hc))
  have hq : fullQuad (strip []) = false := by decide
  simp only [Option.getD_some, hne, and_false, if_false, hsp, fullDigits_digits p hne hp, hq, Bool.not_true,
    Bool.false_eq_true, Bool.not_false, if_true, ne_eq, not_true_eq_false, false_and, List.nil_append,
    searchQuad_strV4]
  exact V4.fromStr_tail ip len p h hl (fun c hc => ne_of_isDigit c '/' (by decide) (hp c hc))
    (makeNetmask4_digits p len hne hp hv hl)

theorem V4.fromStr_masktail (ip len m : Nat) (h : ip < 4294967296) (hl : len ≤ 32) (hm : m < 4294967296)
    (hr : ReadsAs m len) :
    (let g : V4Groups := { addrNetmask := strV4 ip, netmask := strV4 m }
     let netmask := g.netmask
     let prefixlen := g.masklen
     let prefixlen := if netmask = [] ∧ prefixlen = [] then "32".toList else prefixlen
     let prefixlen := if !fullDigits (strip prefixlen) then [] else prefixlen
     let netmask := if !fullQuad (strip netmask) then [] else netmask
     let prefixlen := if netmask ≠ [] ∧ prefixlen ≠ [] then [] else prefixlen
     let v4addr := g.nomask ++ g.addrNetmask ++ g.addrPrefixlen
     let maskPrefixlen := netmask ++ prefixlen
     if searchQuad v4addr then do
       let ip ← stdV4Addr v4addr
       let n0 ← stdV4Net false (v4addr ++ '/' :: maskPrefixlen)
       let n ← stdV4Net false (strV4 ip ++ '/' :: toDec n0.2)
       (pure ⟨ip, n.1, n.2⟩ : Except Err Obj)
     else .error .addressValueError) = .ok (mk4 ip len) := by
  have hsp : strip (strV4 m) = strV4 m := strip_noSpace _ (strV4_noSpace m)
  have hd : fullDigits (strip []) = false := by decide
  simp only [strV4_ne_nil, false_and, if_false, hd, Bool.not_false, if_true, hsp, fullQuad_strV4, Bool.not_true,
    Bool.false_eq_true, ne_eq, not_true_eq_false, and_false, List.nil_append, List.append_nil, searchQuad_strV4]
  exact V4.fromStr_tail ip len (strV4 m) h hl (strV4_ne m '/' (by decide) (by decide))
    (makeNetmask4_strV4 m len hm hr)

theorem V4.fromStr_slashMask (input : Str) (ip len m : Nat) (h : ip < 4294967296) (hl : len ≤ 32)
    (hm : m < 4294967296) (hr : ReadsAs m len) (hs : strip input = strV4 ip ++ '/' :: strV4 m) :
    V4.fromStr input = .ok (mk4 ip len) := by
  unfold V4.fromStr
  have hmt : matchV4 (strip input) = some { addrNetmask := strV4 ip, netmask := strV4 m } := by
    rw [hs]; unfold matchV4; rw [quad_strV4 _ _ (noDigitHead_slash _)]
    simp only [if_true, quad_strV4_nil]
  rw [hmt]
  exact V4.fromStr_masktail ip len m h hl hm hr

theorem V4.fromStr_spaceMask (input : Str) (ip len m : Nat) (ws : Str) (h : ip < 4294967296) (hl : len ≤ 32)
    (hm : m < 4294967296) (hr : ReadsAs m len) (hws : ws ≠ []) (hsp : ∀ c ∈ ws, isSpace c = true)
    (hs : strip input = strV4 ip ++ ws ++ strV4 m) :
    V4.fromStr input = .ok (mk4 ip len) := by
  unfold V4.fromStr
  have hmt : matchV4 (strip input) = some { addrNetmask := strV4 ip, netmask := strV4 m } := by
    rw [hs]
    cases ws with
    | nil => exact absurd rfl hws
    | cons w ws' =>
      have hw : isSpace w = true := hsp w (by simp)
      have hne : w ≠ '/' := by rintro rfl; revert hw; decide
      unfold matchV4
      rw [List.append_assoc, quad_strV4 _ _ (fun c hc => by
        simp at hc; rw [← hc]; exact isReDigit_of_isSpace w hw)]
      have hdw : (ws' ++ strV4 m).dropWhile isSpace = strV4 m :=
        (takeWhile_append (p := isSpace) ws' (strV4 m) (fun c hc => hsp c (by simp [hc]))
          (fun c hc => strV4_noSpace m c (List.mem_of_mem_head? hc))).2
      simp only [List.cons_append, hne, if_false, hw, if_true, hdw, quad_strV4_nil]
  rw [hmt]
  exact V4.fromStr_masktail ip len m h hl hm hr

/-- the masks the property talks about are read as intended -/
theorem readsAs_netmask : ∀ len, len ≤ 32 → ReadsAs (2 ^ 32 - 2 ^ (32 - len)) len := by
  unfold ReadsAs; decide
theorem readsAs_hostmask : ∀ len, len ≤ 32 → 0 < len → len < 32 → ReadsAs (2 ^ (32 - len) - 1) len := by
  unfold ReadsAs; decide

/-! ### hex digits -/
theorem hexd_fin : ∀ d : Fin 16, isHexDigit (Nat.digitChar d.val) = true ∧ hexVal (Nat.digitChar d.val) = d.val ∧
    Nat.digitChar d.val ≠ ':' ∧ Nat.digitChar d.val ≠ '.' ∧ Nat.digitChar d.val ≠ '/' := by decide
theorem isHex_digitChar (d : Nat) (h : d < 16) : isHexDigit (Nat.digitChar d) = true := (hexd_fin ⟨d, h⟩).1
theorem hexVal_digitChar (d : Nat) (h : d < 16) : hexVal (Nat.digitChar d) = d := (hexd_fin ⟨d, h⟩).2.1

theorem toHexRev_lt (n : Nat) (h : n < 16) : toHexRev n = [Nat.digitChar n] := by
  rw [toHexRev]; simp [h]
theorem toHexRev_ge (n : Nat) (h : ¬ n < 16) :
    toHexRev n = Nat.digitChar (n % 16) :: toHexRev (n / 16) := by
  rw [toHexRev]; simp [h]

theorem toHex_cases (a : Nat) (h : a < 65536) :
    (a < 16 ∧ toHex a = [Nat.digitChar a]) ∨
    (16 ≤ a ∧ a < 256 ∧ toHex a = [Nat.digitChar (a / 16), Nat.digitChar (a % 16)]) ∨
    (256 ≤ a ∧ a < 4096 ∧ toHex a = [Nat.digitChar (a / 256), Nat.digitChar (a / 16 % 16), Nat.digitChar (a % 16)]) ∨
    (4096 ≤ a ∧ toHex a = [Nat.digitChar (a / 4096), Nat.digitChar (a / 256 % 16), Nat.digitChar (a / 16 % 16),
      Nat.digitChar (a % 16)]) := by
  unfold toHex
  by_cases h1 : a < 16
  · left; exact ⟨h1, by rw [toHexRev_lt a h1]; rfl⟩
  · by_cases h2 : a < 256
    · right; left
      refine ⟨by omega, h2, ?_⟩
      rw [toHexRev_ge a h1, toHexRev_lt (a / 16) (by omega)]; rfl
    · by_cases h3 : a < 4096
      · right; right; left
        refine ⟨by omega, h3, ?_⟩
        rw [toHexRev_ge a h1, toHexRev_ge (a / 16) (by omega), toHexRev_lt (a / 16 / 16) (by omega)]
        have : a / 16 / 16 = a / 256 := by omega
        simp [this]
      · right; right; right
        refine ⟨by omega, ?_⟩
        rw [toHexRev_ge a h1, toHexRev_ge (a / 16) (by omega), toHexRev_ge (a / 16 / 16) (by omega),
          toHexRev_lt (a / 16 / 16 / 16) (by omega)]
        have e1 : a / 16 / 16 = a / 256 := by omega
        have e2 : a / 16 / 16 / 16 = a / 4096 := by omega
        rw [e2, e1]; rfl

theorem ofHex4 (d3 d2 d1 d0 : Nat) (h3 : d3 < 16) (h2 : d2 < 16) (h1 : d1 < 16) (h0 : d0 < 16) :
    ofHex [Nat.digitChar d3, Nat.digitChar d2, Nat.digitChar d1, Nat.digitChar d0] =
      some (((d3 * 16 + d2) * 16 + d1) * 16 + d0) := by
  simp [ofHex, ofHexAux, isHex_digitChar, hexVal_digitChar, h3, h2, h1, h0]
theorem ofHex3 (d2 d1 d0 : Nat) (h2 : d2 < 16) (h1 : d1 < 16) (h0 : d0 < 16) :
    ofHex [Nat.digitChar d2, Nat.digitChar d1, Nat.digitChar d0] = some ((d2 * 16 + d1) * 16 + d0) := by
  simp [ofHex, ofHexAux, isHex_digitChar, hexVal_digitChar, h2, h1, h0]
theorem ofHex2 (d1 d0 : Nat) (h1 : d1 < 16) (h0 : d0 < 16) :
    ofHex [Nat.digitChar d1, Nat.digitChar d0] = some (d1 * 16 + d0) := by
  simp [ofHex, ofHexAux, isHex_digitChar, hexVal_digitChar, h1, h0]
theorem ofHex1 (d0 : Nat) (h0 : d0 < 16) : ofHex [Nat.digitChar d0] = some d0 := by
  simp [ofHex, ofHexAux, isHex_digitChar, hexVal_digitChar, h0]

theorem ofHex_hex4 (h : Nat) (hh : h < 65536) : ofHex (hex4 h) = some h := by
  unfold hex4
  rw [ofHex4 _ _ _ _ (by omega) (by omega) (by omega) (by omega)]
  congr 1; omega

theorem ofHex_toHex (a : Nat) (h : a < 65536) : ofHex (toHex a) = some a := by
  rcases toHex_cases a h with ⟨h1, e⟩ | ⟨_, h2, e⟩ | ⟨_, h3, e⟩ | ⟨_, e⟩ <;> rw [e]
  · exact ofHex1 a h1
  · rw [ofHex2 _ _ (by omega) (by omega)]; congr 1; omega
  · rw [ofHex3 _ _ _ (by omega) (by omega) (by omega)]; congr 1; omega
  · rw [ofHex4 _ _ _ _ (by omega) (by omega) (by omega) (by omega)]; congr 1; omega

theorem toHex_props (a : Nat) (h : a < 65536) :
    toHex a ≠ [] ∧ (toHex a).length ≤ 4 ∧ (∀ c ∈ toHex a, isHexDigit c = true ∧ c ≠ ':' ∧ c ≠ '.' ∧ c ≠ '/') := by
  have hd : ∀ d, d < 16 → isHexDigit (Nat.digitChar d) = true ∧ Nat.digitChar d ≠ ':' ∧ Nat.digitChar d ≠ '.' ∧
      Nat.digitChar d ≠ '/' :=
    fun d hd => ⟨(hexd_fin ⟨d, hd⟩).1, (hexd_fin ⟨d, hd⟩).2.2⟩
  rcases toHex_cases a h with ⟨h1, e⟩ | ⟨_, h2, e⟩ | ⟨_, h3, e⟩ | ⟨_, e⟩ <;> rw [e] <;>
    refine ⟨by simp, by simp, ?_⟩ <;> intro c hc <;> simp only [List.mem_cons, List.not_mem_nil, or_false] at hc
  · rw [hc]; exact hd _ h1
  · rcases hc with hc | hc <;> rw [hc] <;> exact hd _ (by omega)
  · rcases hc with hc | hc | hc <;> rw [hc] <;> exact hd _ (by omega)
  · rcases hc with hc | hc | hc | hc <;> rw [hc] <;> exact hd _ (by omega)

theorem hex4_chars (h : Nat) : ∀ c ∈ hex4 h, isHexDigit c = true ∧ c ≠ ':' ∧ c ≠ '.' ∧ c ≠ '/' := by
  have hd : ∀ d, d < 16 → isHexDigit (Nat.digitChar d) = true ∧ Nat.digitChar d ≠ ':' ∧ Nat.digitChar d ≠ '.' ∧
      Nat.digitChar d ≠ '/' :=
    fun d hd => ⟨(hexd_fin ⟨d, hd⟩).1, (hexd_fin ⟨d, hd⟩).2.2⟩
  intro c hc
  simp only [hex4, List.mem_cons, List.not_mem_nil, or_false] at hc
  rcases hc with hc | hc | hc | hc <;> rw [hc] <;> exact hd _ (by omega)

theorem parseHextet_toHex (a : Nat) (h : a < 65536) : parseHextet (toHex a) = some a := by
  unfold parseHextet
  have hp := toHex_props a h
  have : (toHex a).all isHexDigit = true := List.all_eq_true.mpr (fun c hc => (hp.2.2 c hc).1)
  have hl : ¬ (toHex a).length > 4 := by omega
  simp only [this, Bool.not_true, Bool.false_eq_true, if_false, hl, ofHex_toHex a h]

theorem toHex_eq_zero (a : Nat) (h : a < 65536) : (toHex a == ['0']) = true → a = 0 := by
  intro he
  have he : toHex a = ['0'] := by simpa using he
  have := ofHex_toHex a h
  rw [he] at this
  have h0 : ofHex ['0'] = some 0 := by decide
  rw [h0] at this
  exact (Option.some.inj this).symm


/-! ### exploded text -/
theorem hextets_lt (n : Nat) : ∀ h ∈ hextets n, h < 65536 := by
  intro h hh; simp [hextets] at hh; omega

theorem splitOn_exploded (n : Nat) : splitOn ':' (explodedV6 n) = (hextets n).map hex4 := by
  unfold explodedV6
  apply splitOn_join
  · simp [hextets]
  · intro w hw
    rw [List.mem_map] at hw
    obtain ⟨b, _, rfl⟩ := hw
    exact fun c hc => (hex4_chars b c hc).2.1

theorem hextets_sum (n : Nat) (h : n < 2 ^ 128) :
    n % 65536 + (n / 2 ^ 16 % 65536 * 65536 + (n / 2 ^ 32 % 65536 * 65536 ^ 2 + (n / 2 ^ 48 % 65536 * 65536 ^ 3 +
      (n / 2 ^ 64 % 65536 * 65536 ^ 4 + (n / 2 ^ 80 % 65536 * 65536 ^ 5 + (n / 2 ^ 96 % 65536 * 65536 ^ 6 +
      n / 2 ^ 112 % 65536 * 65536 ^ 7)))))) = n := by
  omega

theorem sumPow_exploded (n : Nat) (h : n < 2 ^ 128) :
    sumPow 65536 ofHex 0 (splitOn ':' (explodedV6 n)).reverse = some n := by
  rw [splitOn_exploded]
  have hl := hextets_lt n
  simp only [hextets, List.mem_cons, List.not_mem_nil, or_false, forall_eq_or_imp, forall_eq] at hl
  simp only [hextets, List.map, List.reverse_cons, List.reverse_nil, List.nil_append, List.cons_append, sumPow]
  rw [ofHex_hex4 _ hl.1, ofHex_hex4 _ hl.2.1, ofHex_hex4 _ hl.2.2.1, ofHex_hex4 _ hl.2.2.2.1,
    ofHex_hex4 _ hl.2.2.2.2.1, ofHex_hex4 _ hl.2.2.2.2.2.1, ofHex_hex4 _ hl.2.2.2.2.2.2.1, ofHex_hex4 _ hl.2.2.2.2.2.2.2]
  simp only [Nat.zero_add, Nat.pow_zero, Nat.mul_one, Nat.pow_one, Nat.add_zero]
  congr 1
  exact hextets_sum n h


/-! ### compressed text -/

/-- outcome of the `_compress_hextets` loop on eight groups: either nothing to shorten, or a run of
zero groups of length ≥ 2 inside the address -/
def runOk (zs : List Bool) (st : Run) : Bool :=
  if st.bestLen ≤ 1 then true else
  match st.bestStart with
  | none => false
  | some s => decide (s + st.bestLen ≤ 8) && (List.range 8).all (fun i => !(decide (s ≤ i) && decide (i < s + st.bestLen)) || zs.getD i false)

theorem runLoop_ok : ∀ b0 b1 b2 b3 b4 b5 b6 b7 : Bool,
    runOk [b0, b1, b2, b3, b4, b5, b6, b7] (runLoop {} 0 [b0, b1, b2, b3, b4, b5, b6, b7]) = true := by
  decide


theorem shl_or (a h : Nat) (hh : h < 65536) : (a <<< 16) ||| h = a * 65536 + h := by
  have := Nat.shiftLeft_add_eq_or_of_lt (i := 16) (b := h) (by simpa using hh) a
  rw [← this, Nat.shiftLeft_eq]

theorem mul_or (a h : Nat) (hh : h < 65536) : a * 65536 ||| h = a * 65536 + h := by
  rw [← shl_or a h hh, Nat.shiftLeft_eq]

/-- the value of eight groups, most significant first -/
def val8 (h0 h1 h2 h3 h4 h5 h6 h7 : Nat) : Nat :=
  ((((((h0 * 65536 + h1) * 65536 + h2) * 65536 + h3) * 65536 + h4) * 65536 + h5) * 65536 + h6) * 65536 + h7

theorem accHextets_cons (acc : Nat) (x : Str) (xs : List Str) (h : Nat) (hp : parseHextet x = some h) (hl : h < 65536) :
    accHextets acc (x :: xs) = accHextets (acc * 65536 + h) xs := by
  simp only [accHextets, hp, shl_or acc h hl]

theorem accHextets_nil (acc : Nat) : accHextets acc [] = some acc := rfl
theorem shl16 (a k : Nat) : a <<< (16 * k) = a * 65536 ^ k := by
  rw [Nat.shiftLeft_eq, Nat.pow_mul]

theorem compress_parse_aux (x0 x1 x2 x3 x4 x5 x6 x7 : Str) (h0 h1 h2 h3 h4 h5 h6 h7 : Nat)
    (n0 : x0 ≠ []) (n1 : x1 ≠ []) (n2 : x2 ≠ []) (n3 : x3 ≠ []) (n4 : x4 ≠ []) (n5 : x5 ≠ []) (n6 : x6 ≠ []) (n7 : x7 ≠ [])
    (p0 : parseHextet x0 = some h0) (p1 : parseHextet x1 = some h1) (p2 : parseHextet x2 = some h2)
    (p3 : parseHextet x3 = some h3) (p4 : parseHextet x4 = some h4) (p5 : parseHextet x5 = some h5)
    (p6 : parseHextet x6 = some h6) (p7 : parseHextet x7 = some h7)
    (z0 : (x0 == ['0']) = true → h0 = 0) (z1 : (x1 == ['0']) = true → h1 = 0) (z2 : (x2 == ['0']) = true → h2 = 0)
    (z3 : (x3 == ['0']) = true → h3 = 0) (z4 : (x4 == ['0']) = true → h4 = 0) (z5 : (x5 == ['0']) = true → h5 = 0)
    (z6 : (x6 == ['0']) = true → h6 = 0) (z7 : (x7 == ['0']) = true → h7 = 0)
    (l0 : h0 < 65536) (l1 : h1 < 65536) (l2 : h2 < 65536) (l3 : h3 < 65536) (l4 : h4 < 65536) (l5 : h5 < 65536)
    (l6 : h6 < 65536) (l7 : h7 < 65536) :
    3 ≤ (compressHextets [x0, x1, x2, x3, x4, x5, x6, x7]).length ∧
    v6FromParts (compressHextets [x0, x1, x2, x3, x4, x5, x6, x7]) = some (val8 h0 h1 h2 h3 h4 h5 h6 h7) := by
  have ok := runLoop_ok (x0 == ['0']) (x1 == ['0']) (x2 == ['0']) (x3 == ['0']) (x4 == ['0']) (x5 == ['0'])
    (x6 == ['0']) (x7 == ['0'])
  unfold compressHextets
  simp only [List.map]
  generalize runLoop {} 0 [x0 == ['0'], x1 == ['0'], x2 == ['0'], x3 == ['0'], x4 == ['0'], x5 == ['0'],
    x6 == ['0'], x7 == ['0']] = st at ok ⊢
  unfold runOk at ok
  unfold compressWith
  by_cases hb : st.bestLen ≤ 1
  · have : ¬ st.bestLen > 1 := by omega
    simp only [this, if_false]
    refine ⟨by simp, ?_⟩
    simp only [v6FromParts, List.length_cons, List.length_nil, List.drop, List.dropLast, emptyIdx, n1, n2, n3, n4, n5, n6,
      if_false]
    simp [n0, n7, accHextets_nil, accHextets_cons _ _ _ _ p0 l0, accHextets_cons _ _ _ _ p1 l1, accHextets_cons _ _ _ _ p2 l2,
      accHextets_cons _ _ _ _ p3 l3, accHextets_cons _ _ _ _ p4 l4, accHextets_cons _ _ _ _ p5 l5,
      accHextets_cons _ _ _ _ p6 l6, accHextets_cons _ _ _ _ p7 l7, val8]
  · simp only [hb, if_false] at ok
    have hgt : st.bestLen > 1 := by omega
    cases hs : st.bestStart with
    | none => rw [hs] at ok; cases ok
    | some s =>
      rw [hs] at ok
      simp only [Bool.and_eq_true, decide_eq_true_eq, List.all_eq_true, List.mem_range, Bool.or_eq_true,
        Bool.not_eq_true', Bool.and_eq_false_iff, decide_eq_false_iff_not] at ok
      obtain ⟨hle, hall⟩ := ok
      simp only [hgt, if_true, Option.getD_some]
      generalize st.bestLen = l at *
      have hz : ∀ i, i < 8 → s ≤ i → i < s + l →
          [x0 == ['0'], x1 == ['0'], x2 == ['0'], x3 == ['0'], x4 == ['0'], x5 == ['0'], x6 == ['0'],
            x7 == ['0']].getD i false = true := by
        intro i hi h1 h2
        rcases hall i hi with (h | h) | h
        · omega
        · omega
        · exact h
      have g0 : (if s ≤ 0 ∧ 0 < s + l then 0 else h0) = h0 := by
        split
        · rename_i h; exact (z0 (by simpa using hz 0 (by omega) h.1 h.2)).symm
        · rfl
      have g1 : (if s ≤ 1 ∧ 1 < s + l then 0 else h1) = h1 := by
        split
        · rename_i h; exact (z1 (by simpa using hz 1 (by omega) h.1 h.2)).symm
        · rfl
      have g2 : (if s ≤ 2 ∧ 2 < s + l then 0 else h2) = h2 := by
        split
        · rename_i h; exact (z2 (by simpa using hz 2 (by omega) h.1 h.2)).symm
        · rfl
      have g3 : (if s ≤ 3 ∧ 3 < s + l then 0 else h3) = h3 := by
        split
        · rename_i h; exact (z3 (by simpa using hz 3 (by omega) h.1 h.2)).symm
        · rfl
      have g4 : (if s ≤ 4 ∧ 4 < s + l then 0 else h4) = h4 := by
        split
        · rename_i h; exact (z4 (by simpa using hz 4 (by omega) h.1 h.2)).symm
        · rfl
      have g5 : (if s ≤ 5 ∧ 5 < s + l then 0 else h5) = h5 := by
        split
        · rename_i h; exact (z5 (by simpa using hz 5 (by omega) h.1 h.2)).symm
        · rfl
      have g6 : (if s ≤ 6 ∧ 6 < s + l then 0 else h6) = h6 := by
        split
        · rename_i h; exact (z6 (by simpa using hz 6 (by omega) h.1 h.2)).symm
        · rfl
      have g7 : (if s ≤ 7 ∧ 7 < s + l then 0 else h7) = h7 := by
        split
        · rename_i h; exact (z7 (by simpa using hz 7 (by omega) h.1 h.2)).symm
        · rfl
      rw [← g0, ← g1, ← g2, ← g3, ← g4, ← g5, ← g6, ← g7]
      clear g0 g1 g2 g3 g4 g5 g6 g7 hz hall z0 z1 z2 z3 z4 z5 z6 z7
      have hsv : s = 0 ∨ s = 1 ∨ s = 2 ∨ s = 3 ∨ s = 4 ∨ s = 5 ∨ s = 6 := by omega
      have hlv : l = 2 ∨ l = 3 ∨ l = 4 ∨ l = 5 ∨ l = 6 ∨ l = 7 ∨ l = 8 := by omega
      rcases hsv with rfl | rfl | rfl | rfl | rfl | rfl | rfl <;>
        rcases hlv with rfl | rfl | rfl | rfl | rfl | rfl | rfl <;>
        first
        | (exfalso; revert hle; decide)
        | (simp only [Nat.succ_ne_self, ↓reduceIte, Nat.reduceAdd, List.length_cons, List.length_nil, Nat.zero_add,
            Nat.reduceEqDiff, List.take_succ_cons, List.take_zero, List.cons_append, List.nil_append, List.drop_succ_cons,
            List.drop_zero, List.drop_nil, List.take_nil, Nat.reduceLeDiff, List.append_nil]
           refine ⟨trivial, ?_⟩
           simp only [v6FromParts, gt_iff_lt, Nat.reduceLT, List.dropLast_cons_cons, List.length_cons, List.length_nil,
             Nat.zero_add, Nat.reduceAdd, List.dropLast_singleton, List.dropLast_nil, emptyIdx, n0, n1, n2, n3, n4, n5, n6, n7,
             List.head?_cons, Option.getD_some, Nat.sub_self, ne_eq, List.drop_succ_cons, List.drop_zero, List.drop_nil,
             ↓reduceIte, not_true_eq_false, and_self, List.getLast?_cons_cons, List.getLast?_singleton, Nat.add_one_sub_one,
             reduceCtorEq, not_false_eq_true, and_true, and_false, false_and, true_and, Nat.reduceSub, Nat.lt_one_iff,
             Nat.reduceEqDiff, Nat.reduceLeDiff, List.take_succ_cons, List.take_zero, List.take_nil]
           simp only [accHextets_nil, accHextets_cons _ _ _ _ p0 l0, accHextets_cons _ _ _ _ p1 l1,
             accHextets_cons _ _ _ _ p2 l2, accHextets_cons _ _ _ _ p3 l3, accHextets_cons _ _ _ _ p4 l4,
             accHextets_cons _ _ _ _ p5 l5, accHextets_cons _ _ _ _ p6 l6, accHextets_cons _ _ _ _ p7 l7]
           simp only [val8, and_false, false_and, and_true, true_and, and_self, ↓reduceIte, Option.some.injEq, Nat.reduceMul,
             Nat.reduceLeDiff, Nat.reduceLT, Nat.lt_irrefl, Nat.le_refl, Nat.not_succ_le_zero, Nat.reduceAdd]
           omega)


theorem compressWith_mem (st : Run) (hs : List Str) : ∀ p ∈ compressWith st hs, p = [] ∨ p ∈ hs := by
  intro p hp
  unfold compressWith at hp
  split at hp
  · simp only at hp
    have key : ∀ (l : List Str), (∀ q ∈ l, q = [] ∨ q ∈ hs) → ∀ a b, ∀ q ∈ l.take a ++ [[]] ++ l.drop b, q = [] ∨ q ∈ hs := by
      intro l hl a b q hq
      simp only [List.mem_append, List.mem_cons, List.not_mem_nil, or_false] at hq
      rcases hq with (hq | hq) | hq
      · exact hl q (List.mem_of_mem_take hq)
      · exact Or.inl hq
      · exact hl q (List.mem_of_mem_drop hq)
    have hl : ∀ q ∈ (if st.bestStart.getD 0 + st.bestLen = hs.length then hs ++ [[]] else hs), q = [] ∨ q ∈ hs := by
      intro q hq
      split at hq
      · simp only [List.mem_append, List.mem_cons, List.not_mem_nil, or_false] at hq
        rcases hq with hq | hq
        · exact Or.inr hq
        · exact Or.inl hq
      · exact Or.inr hq
    split at hp
    · rcases List.mem_cons.mp hp with hp | hp
      · exact Or.inl hp
      · exact key _ hl _ _ p hp
    · exact key _ hl _ _ p hp
  · exact Or.inr hp

theorem join_ne_nil (a b : Str) (rest : List Str) : join [':'] (a :: b :: rest) ≠ [] := by
  simp [join]

theorem val8_hextets (n : Nat) (h : n < 2 ^ 128) :
    val8 (n / 2 ^ 112 % 65536) (n / 2 ^ 96 % 65536) (n / 2 ^ 80 % 65536) (n / 2 ^ 64 % 65536)
      (n / 2 ^ 48 % 65536) (n / 2 ^ 32 % 65536) (n / 2 ^ 16 % 65536) (n % 65536) = n := by
  unfold val8; omega

theorem stdV6Int_of_parts (parts : List Str) (n : Nat) (hlen : 3 ≤ parts.length) (hv : v6FromParts parts = some n)
    (hmem : ∀ p ∈ parts, (∀ c ∈ p, c ≠ ':') ∧ (∀ c ∈ p, c ≠ '.')) : stdV6Int (join [':'] parts) = some n := by
  unfold stdV6Int
  have hne : parts ≠ [] := by intro e; rw [e] at hlen; simp at hlen
  have hj : join [':'] parts ≠ [] := by
    match parts, hlen with
    | a :: b :: rest, _ => exact join_ne_nil a b rest
  rw [if_neg hj, splitOn_join ':' parts hne (fun w hw => (hmem w hw).1)]
  have hl3 : ¬ parts.length < 3 := by omega
  have hlast : (parts.getLast?.getD []).contains '.' = false := by
    apply contains_false
    cases hgl : parts.getLast? with
    | none => intro c hc; simp at hc
    | some w =>
      have : w ∈ parts := List.mem_of_getLast? hgl
      simpa using (hmem w this).2
  simp only [hl3, if_false, hlast, Bool.false_eq_true, hv]

theorem stdV6Int_strV6 (n : Nat) (h : n < 2 ^ 128) : stdV6Int (strV6 n) = some n := by
  have hl := hextets_lt n
  simp only [hextets, List.mem_cons, List.not_mem_nil, or_false, forall_eq_or_imp, forall_eq] at hl
  obtain ⟨l0, l1, l2, l3, l4, l5, l6, l7⟩ := hl
  have key := compress_parse_aux _ _ _ _ _ _ _ _ _ _ _ _ _ _ _ _
    (toHex_props _ l0).1 (toHex_props _ l1).1 (toHex_props _ l2).1 (toHex_props _ l3).1
    (toHex_props _ l4).1 (toHex_props _ l5).1 (toHex_props _ l6).1 (toHex_props _ l7).1
    (parseHextet_toHex _ l0) (parseHextet_toHex _ l1) (parseHextet_toHex _ l2) (parseHextet_toHex _ l3)
    (parseHextet_toHex _ l4) (parseHextet_toHex _ l5) (parseHextet_toHex _ l6) (parseHextet_toHex _ l7)
    (toHex_eq_zero _ l0) (toHex_eq_zero _ l1) (toHex_eq_zero _ l2) (toHex_eq_zero _ l3)
    (toHex_eq_zero _ l4) (toHex_eq_zero _ l5) (toHex_eq_zero _ l6) (toHex_eq_zero _ l7)
    l0 l1 l2 l3 l4 l5 l6 l7
  rw [val8_hextets n h] at key
  have hmem : ∀ p ∈ compressHextets ((hextets n).map toHex), (∀ c ∈ p, c ≠ ':') ∧ (∀ c ∈ p, c ≠ '.') := by
    intro p hp
    rcases compressWith_mem _ _ p hp with rfl | hp
    · exact ⟨fun c hc => by simp at hc, fun c hc => by simp at hc⟩
    · rw [List.mem_map] at hp
      obtain ⟨g, hg, rfl⟩ := hp
      have := toHex_props g (hextets_lt n g hg)
      exact ⟨fun c hc => (this.2.2 c hc).2.1, fun c hc => (this.2.2 c hc).2.2.1⟩
  exact stdV6Int_of_parts _ n key.1 key.2 hmem

/-! ### IPv6Obj: the object of `(ip, len)` and its derived values -/
def mk6 (ip len : Nat) : Obj := ⟨ip, ip &&& ipIntFromPrefix 128 len, len⟩

theorem mem_join (sep : Char) (ws : List Str) (c : Char) (hc : c ∈ join [sep] ws) : c = sep ∨ ∃ w ∈ ws, c ∈ w := by
  induction ws with
  | nil => simp [join] at hc
  | cons w ws ih =>
    cases ws with
    | nil => simp only [join] at hc; exact Or.inr ⟨w, by simp, hc⟩
    | cons w2 ws2 =>
      simp only [join, List.mem_append, List.mem_cons, List.not_mem_nil, or_false] at hc
      rcases hc with (hc | hc) | hc
      · exact Or.inr ⟨w, by simp, hc⟩
      · exact Or.inl hc
      · rcases ih hc with h | ⟨w', hw', h⟩
        · exact Or.inl h
        · exact Or.inr ⟨w', by simp [hw'], h⟩

theorem strV6_chars (n : Nat) : ∀ c ∈ strV6 n, isHexDigit c = true ∨ c = ':' := by
  intro c hc
  unfold strV6 at hc
  rcases mem_join ':' _ c hc with h | ⟨p, hp, h⟩
  · exact Or.inr h
  · rcases compressWith_mem _ _ p hp with rfl | hp
    · simp at h
    · rw [List.mem_map] at hp
      obtain ⟨g, hg, rfl⟩ := hp
      exact Or.inl ((toHex_props g (hextets_lt n g hg)).2.2 c h).1

theorem strV6_ne (n : Nat) (x : Char) (hx : isHexDigit x = false) (hd : x ≠ ':') : ∀ c ∈ strV6 n, c ≠ x := by
  intro c hc
  rcases strV6_chars n c hc with h | h
  · rintro rfl; rw [h] at hx; cases hx
  · rw [h]; exact fun e => hd e.symm

theorem stdV6Addr_strV6 (n : Nat) (h : n < 2 ^ 128) : stdV6Addr (strV6 n) = .ok n := by
  unfold stdV6Addr
  rw [contains_false _ '/' (strV6_ne n '/' (by decide) (by decide)),
    contains_false _ '%' (strV6_ne n '%' (by decide) (by decide))]
  simp [stdV6Int_strV6 n h]

theorem finishNet_true (w packed len : Nat) (h : packed &&& ipIntFromPrefix w len = packed) :
    finishNet w true packed len = .ok (packed, len) := by
  unfold finishNet; simp [h]

theorem stdV6Net_cidr (strict : Bool) (ip len : Nat) (h : ip < 2 ^ 128) (hl : len ≤ 128)
    (hs : strict = true → ip &&& ipIntFromPrefix 128 len = ip) :
    stdV6Net strict (strV6 ip ++ '/' :: toDec len) = .ok (ip &&& ipIntFromPrefix 128 len, len) := by
  unfold stdV6Net splitOptionalNetmask
  rw [splitOn_slash _ _ (strV6_ne ip '/' (by decide) (by decide)) (toDec_ne len '/' (by decide))]
  simp only [bind, Except.bind, stdV6Addr_strV6 ip h, makeNetmask6, prefixString_toDec 128 len hl]
  cases strict with
  | false => exact finishNet_false 128 ip len
  | true => rw [finishNet_true 128 ip len (hs rfl), hs rfl]

theorem mk6_net_lt (ip len : Nat) (hip : ip < 2 ^ 128) : (mk6 ip len).net < 2 ^ 128 := and_lt ip _ 128 hip

section V6
variable (ip len : Nat) (hip : ip < 2 ^ 128) (hlen : len ≤ 128)
include hip hlen

theorem V6.network_mk6 : V6.network (mk6 ip len) = .ok ((mk6 ip len).net, len) := by
  unfold V6.network V6.compressed
  have := stdV6Net_cidr true (mk6 ip len).net len (mk6_net_lt ip len hip) hlen (fun _ => and_mask_idem ip _)
  rw [show (mk6 ip len).len = len from rfl, this]
  simp only [mk6, and_mask_idem]

theorem V6.asCidrNet_mk6 :
    V6.asCidrNet (mk6 ip len) = .ok (strV6 (mk6 ip len).net ++ '/' :: toDec len) := by
  unfold V6.asCidrNet
  rw [V6.network_mk6 ip len hip hlen]; rfl

omit hlen in
theorem V6.asDecimal_mk6 : V6.asDecimal (mk6 ip len) = .ok ip := by
  unfold V6.asDecimal V6.exploded mk6
  simp only [sumPow_exploded ip hip]; rfl

omit hip hlen in
theorem explodedV6_ne (n : Nat) (x : Char) (hx : isHexDigit x = false) (hd : x ≠ ':') : ∀ c ∈ explodedV6 n, c ≠ x := by
  intro c hc
  unfold explodedV6 at hc
  rcases mem_join ':' _ c hc with h | ⟨p, hp, h⟩
  · rw [h]; exact fun e => hd e.symm
  · rw [List.mem_map] at hp
    obtain ⟨g, _, rfl⟩ := hp
    rintro rfl; rw [(hex4_chars g c h).1] at hx; cases hx

theorem V6.asDecimalNetwork_mk6 : V6.asDecimalNetwork (mk6 ip len) = .ok (mk6 ip len).net := by
  unfold V6.asDecimalNetwork
  rw [V6.network_mk6 ip len hip hlen]
  simp only [bind, Except.bind]
  rw [splitOn_slash _ _ (explodedV6_ne _ '/' (by decide) (by decide)) (toDec_ne len '/' (by decide))]
  simp only [List.headD]
  rw [sumPow_exploded (mk6 ip len).net (mk6_net_lt ip len hip)]; rfl

theorem V6.copy_mk6 : V6.copy (mk6 ip len) = .ok (mk6 ip len) := by
  unfold V6.copy
  rw [V6.asCidrNet_mk6 ip len hip hlen]
  simp only [bind, Except.bind, V6.ipStr]
  have : (mk6 ip len).ip = ip := rfl
  rw [this, stdV6Addr_strV6 ip hip]
  simp only
  rw [stdV6Net_cidr true (mk6 ip len).net len (mk6_net_lt ip len hip) hlen (fun _ => and_mask_idem ip _)]
  simp only [pure, Except.pure, mk6, and_mask_idem]

end V6

theorem V6.fromInt_ok (n : Nat) (h : n < 2 ^ 128) : V6.fromInt (Int.ofNat n) = .ok (mk6 n 128) := by
  unfold V6.fromInt
  have : n ≤ Gen.ipv6MaxInt := by unfold Gen.ipv6MaxInt; omega
  simp only [this, if_true, finishNet_false]
  rfl

/-! ### converse direction: what an accepted IPv4 text looks like -/

theorem head_dropWhile {p : Char → Bool} (l : Str) : ∀ c, (l.dropWhile p).head? = some c → p c = false := by
  induction l with
  | nil => intro c h; simp at h
  | cons a as ih =>
    intro c h
    by_cases ha : p a = true
    · simp only [List.dropWhile_cons, ha, if_true] at h; exact ih c h
    · have ha' : p a = false := by simpa using ha
      simp only [List.dropWhile_cons, ha', Bool.false_eq_true, if_false, List.head?_cons, Option.some.injEq] at h
      rw [← h]; exact ha'

theorem mem_takeWhile {p : Char → Bool} (l : Str) : ∀ c ∈ l.takeWhile p, p c = true := by
  induction l with
  | nil => intro c h; simp at h
  | cons a as ih =>
    intro c h
    by_cases ha : p a = true
    · simp only [List.takeWhile_cons, ha, if_true, List.mem_cons] at h
      rcases h with h | h
      · rw [h]; exact ha
      · exact ih c h
    · have ha' : p a = false := by simpa using ha
      simp [List.takeWhile_cons, ha'] at h

/-- a non-empty run of `\d` characters -/
def IsRun (ds : Str) : Prop := ds ≠ [] ∧ ∀ c ∈ ds, isReDigit c = true

theorem digitsDot_sound (s ds r : Str) (h : digitsDot s = some (ds, r)) : s = ds ++ '.' :: r ∧ IsRun ds := by
  unfold digitsDot at h
  by_cases hne : s.takeWhile isReDigit = []
  · simp [hne] at h
  · simp only [hne, if_false] at h
    cases hd : s.dropWhile isReDigit with
    | nil => rw [hd] at h; cases h
    | cons x r' =>
      rw [hd] at h
      by_cases hx : x = '.'
      · subst hx
        simp only [Option.some.injEq, Prod.mk.injEq] at h
        obtain ⟨rfl, rfl⟩ := h
        refine ⟨?_, hne, mem_takeWhile s⟩
        have := List.takeWhile_append_dropWhile (p := isReDigit) (l := s)
        rw [hd] at this; exact this.symm
      · exfalso
        split at h
        · rename_i r'' heq
          exact hx (List.cons.inj heq).1
        · cases h

/-- the shape `\d+\.\d+\.\d+\.\d+` -/
def IsQuadText (m : Str) : Prop :=
  ∃ a b c d, IsRun a ∧ IsRun b ∧ IsRun c ∧ IsRun d ∧ m = a ++ '.' :: (b ++ '.' :: (c ++ '.' :: d))

theorem quad_sound (s m r : Str) (h : quad s = some (m, r)) : s = m ++ r ∧ IsQuadText m ∧ NoDigitHead r := by
  unfold quad at h
  split at h
  · cases h
  · rename_i a r1 h1
    split at h
    · cases h
    · rename_i b r2 h2
      split at h
      · cases h
      · rename_i c r3 h3
        simp only at h
        split at h
        · cases h
        · rename_i hne
          cases h
          have s1 := digitsDot_sound _ _ _ h1
          have s2 := digitsDot_sound _ _ _ h2
          have s3 := digitsDot_sound _ _ _ h3
          have s4 := List.takeWhile_append_dropWhile (p := isReDigit) (l := r3)
          refine ⟨?_, ⟨a, b, c, _, s1.2, s2.2, s3.2, ⟨hne, mem_takeWhile r3⟩, by simp⟩, head_dropWhile r3⟩
          rw [s1.1, s2.1, s3.1]
          conv => lhs; rw [← s4]
          simp

theorem isSpace_of_isReDigit (c : Char) (h : isReDigit c = true) : isSpace c = false := by
  cases hs : isSpace c with
  | false => rfl
  | true => rw [isReDigit_of_isSpace c hs] at h; cases h

theorem run_ne (ds : Str) (h : IsRun ds) (x : Char) (hx : isReDigit x = false) : ∀ c ∈ ds, c ≠ x := by
  intro c hc; rintro rfl; rw [h.2 c hc] at hx; cases hx

theorem quadText_chars (m : Str) (h : IsQuadText m) : ∀ c ∈ m, isReDigit c = true ∨ c = '.' := by
  obtain ⟨a, b, c, d, ha, hb, hc, hd, rfl⟩ := h
  intro x hx
  simp only [List.mem_append, List.mem_cons] at hx
  rcases hx with h | h | h | h | h | h | h
  · exact Or.inl (ha.2 x h)
  · exact Or.inr h
  · exact Or.inl (hb.2 x h)
  · exact Or.inr h
  · exact Or.inl (hc.2 x h)
  · exact Or.inr h
  · exact Or.inl (hd.2 x h)

theorem quadText_ne (m : Str) (h : IsQuadText m) (x : Char) (hx : isReDigit x = false) (hd : x ≠ '.') :
    ∀ c ∈ m, c ≠ x := by
  intro c hc
  rcases quadText_chars m h c hc with h1 | h1
  · rintro rfl; rw [h1] at hx; cases hx
  · rw [h1]; exact fun e => hd e.symm

theorem quadText_noSpace (m : Str) (h : IsQuadText m) : ∀ c ∈ m, isSpace c = false := by
  intro c hc
  rcases quadText_chars m h c hc with h1 | h1
  · exact isSpace_of_isReDigit c h1
  · rw [h1]; exact isSpace_dot

theorem splitOn_quadText (a b c d : Str) (ha : IsRun a) (hb : IsRun b) (hc : IsRun c) (hd : IsRun d) :
    splitOn '.' (a ++ '.' :: (b ++ '.' :: (c ++ '.' :: d))) = [a, b, c, d] := by
  have hdot : isReDigit '.' = false := by decide
  rw [splitOn_append_sep '.' a _ (run_ne a ha '.' hdot), splitOn_append_sep '.' b _ (run_ne b hb '.' hdot),
    splitOn_append_sep '.' c _ (run_ne c hc '.' hdot), splitOn_noSep '.' d (run_ne d hd '.' hdot)]


theorem digitChar_table : ∀ k : Fin 58, 48 ≤ k.val → Nat.digitChar (k.val - 48) = Char.ofNat k.val := by decide

theorem digitChar_digitVal (c : Char) (h : isDigit c = true) : Nat.digitChar (digitVal c) = c ∧ digitVal c < 10 := by
  unfold isDigit at h
  simp only [Bool.and_eq_true, decide_eq_true_eq] at h
  unfold digitVal
  refine ⟨?_, by omega⟩
  have := digitChar_table ⟨c.toNat, by omega⟩ h.1
  simp only at this
  rw [this, Char.ofNat_toNat]

theorem parseOctet_sound (s : Str) (v : Nat) (h : parseOctet s = some v) : s = toDec v ∧ v ≤ 255 := by
  unfold parseOctet at h
  split at h
  · cases h
  · rename_i hne0
    split at h
    · cases h
    · rename_i hall
      split at h
      · cases h
      · rename_i hlen
        split at h
        · cases h
        · rename_i hz
          have hall : ∀ c ∈ s, isDigit c = true := by
            have : s.all isDigit = true := by simpa using hall
            exact List.all_eq_true.mp this
          split at h
          · rename_i n hn
            split at h
            · cases h
            · rename_i h255
              cases h
              refine ⟨?_, by omega⟩
              match s, hne0, hall, hlen, hz, hn with
              | [c1], _, hall, _, _, hn =>
                have d1 := digitChar_digitVal c1 (hall c1 (by simp))
                simp [ofDigits, ofDigitsAux, hall c1 (by simp)] at hn
                subst hn
                rcases toDec_cases (digitVal c1) (by omega) with ⟨_, e⟩ | ⟨h10, _⟩ | ⟨h100, _⟩
                · rw [e, d1.1]
                · omega
                · omega
              | [c1, c2], _, hall, _, hz, hn =>
                have d1 := digitChar_digitVal c1 (hall c1 (by simp))
                have d2 := digitChar_digitVal c2 (hall c2 (by simp))
                simp [ofDigits, ofDigitsAux, hall c1 (by simp), hall c2 (by simp)] at hn
                have hnz : digitVal c1 ≠ 0 := by
                  intro e0
                  apply hz
                  refine ⟨by simp, ?_⟩
                  have := d1.1; rw [e0] at this
                  simp [← this]
                subst hn
                rcases toDec_cases (digitVal c1 * 10 + digitVal c2) (by omega) with ⟨h1, _⟩ | ⟨_, _, e⟩ | ⟨h100, _⟩
                · omega
                · rw [e]
                  have e1 : (digitVal c1 * 10 + digitVal c2) / 10 = digitVal c1 := by omega
                  have e2 : (digitVal c1 * 10 + digitVal c2) % 10 = digitVal c2 := by omega
                  rw [e1, e2, d1.1, d2.1]
                · omega
              | [c1, c2, c3], _, hall, _, hz, hn =>
                have d1 := digitChar_digitVal c1 (hall c1 (by simp))
                have d2 := digitChar_digitVal c2 (hall c2 (by simp))
                have d3 := digitChar_digitVal c3 (hall c3 (by simp))
                simp [ofDigits, ofDigitsAux, hall c1 (by simp), hall c2 (by simp), hall c3 (by simp)] at hn
                have hnz : digitVal c1 ≠ 0 := by
                  intro e0
                  apply hz
                  refine ⟨by simp, ?_⟩
                  have := d1.1; rw [e0] at this
                  simp [← this]
                subst hn
                rcases toDec_cases ((digitVal c1 * 10 + digitVal c2) * 10 + digitVal c3) (by omega) with
                  ⟨h1, _⟩ | ⟨_, h2, _⟩ | ⟨_, e⟩
                · omega
                · omega
                · rw [e]
                  have e1 : ((digitVal c1 * 10 + digitVal c2) * 10 + digitVal c3) / 100 = digitVal c1 := by omega
                  have e2 : ((digitVal c1 * 10 + digitVal c2) * 10 + digitVal c3) / 10 % 10 = digitVal c2 := by omega
                  have e3 : ((digitVal c1 * 10 + digitVal c2) * 10 + digitVal c3) % 10 = digitVal c3 := by omega
                  rw [e1, e2, e3, d1.1, d2.1, d3.1]
              | [], h0, _, _, _, _ => exact absurd rfl h0
              | _ :: _ :: _ :: _ :: _, _, _, hlen, _, _ => simp at hlen
          · cases h


theorem quadText_ne_nil (m : Str) (h : IsQuadText m) : m ≠ [] := by
  obtain ⟨a, b, c, d, ha, _, _, _, rfl⟩ := h
  intro e
  cases ha' : a with
  | nil => exact ha.1 ha'
  | cons x xs => rw [ha'] at e; cases e

/-- a dotted-quad shaped text that the stdlib accepts is the canonical text of its value -/
theorem stdV4Int_sound (m : Str) (v : Nat) (hq : IsQuadText m) (h : stdV4Int m = some v) :
    m = strV4 v ∧ v < 4294967296 := by
  obtain ⟨a, b, c, d, ha, hb, hc, hd, rfl⟩ := hq
  unfold stdV4Int at h
  rw [if_neg (quadText_ne_nil _ ⟨a, b, c, d, ha, hb, hc, hd, rfl⟩), splitOn_quadText a b c d ha hb hc hd] at h
  simp only at h
  cases h1 : parseOctet a with
  | none => rw [h1] at h; cases h
  | some v1 =>
    cases h2 : parseOctet b with
    | none => rw [h1, h2] at h; cases h
    | some v2 =>
      cases h3 : parseOctet c with
      | none => rw [h1, h2, h3] at h; cases h
      | some v3 =>
        cases h4 : parseOctet d with
        | none => rw [h1, h2, h3, h4] at h; cases h
        | some v4 =>
          rw [h1, h2, h3, h4] at h
          simp only [Option.some.injEq] at h
          have s1 := parseOctet_sound a v1 h1
          have s2 := parseOctet_sound b v2 h2
          have s3 := parseOctet_sound c v3 h3
          have s4 := parseOctet_sound d v4 h4
          have hv : v = ((v1 * 256 + v2) * 256 + v3) * 256 + v4 := by
            rw [← h]; simp [fromBytes]
          refine ⟨?_, by omega⟩
          rw [strV4_eq, s1.1, s2.1, s3.1, s4.1]
          have e1 : v / 16777216 % 256 = v1 := by omega
          have e2 : v / 65536 % 256 = v2 := by omega
          have e3 : v / 256 % 256 = v3 := by omega
          have e4 : v % 256 = v4 := by omega
          rw [e1, e2, e3, e4]

/-! `_prefix_from_ip_int` accepts exactly the netmasks -/
theorem ctz_le (b n : Nat) : ctz b n ≤ b := by
  induction b generalizing n with
  | zero => simp [ctz]
  | succ k ih =>
    unfold ctz
    split
    · have := ih (n / 2); omega
    · omega

theorem ctz_dvd (b n : Nat) : n % 2 ^ ctz b n = 0 := by
  induction b generalizing n with
  | zero => simp [ctz, Nat.mod_one]
  | succ k ih =>
    unfold ctz
    split
    · rename_i he
      have := ih (n / 2)
      rw [Nat.pow_succ', Nat.mod_mul, this, he]
    · simp [Nat.mod_one]

theorem prefixFromIpInt_sound (m len : Nat) (h : prefixFromIpInt 32 m = some len) :
    len ≤ 32 ∧ m = 2 ^ 32 - 2 ^ (32 - len) := by
  unfold prefixFromIpInt at h
  simp only at h
  split at h
  · rename_i heq
    cases h
    have hle := ctz_le 32 m
    have hd := ctz_dvd 32 m
    refine ⟨by omega, ?_⟩
    generalize ctz 32 m = t at *
    rw [Nat.shiftRight_eq_div_pow] at heq
    have hm : m = 2 ^ t * (m / 2 ^ t) := by
      have := Nat.div_add_mod m (2 ^ t); omega
    rw [heq] at hm
    have e : 32 - (32 - t) = t := by omega
    rw [e, hm, Nat.mul_sub, Nat.mul_one, ← Nat.pow_add]
    congr 2; omega
  · cases h


theorem xor_allOnes_tables : ∀ len, len ≤ 32 →
    (2 ^ 32 - 2 ^ (32 - len)) ^^^ allOnes 32 = 2 ^ (32 - len) - 1 ∧
    (len = 0 → prefixFromIpInt 32 (2 ^ (32 - len) - 1) ≠ none) ∧
    (len = 32 → prefixFromIpInt 32 (2 ^ (32 - len) - 1) ≠ none) := by decide

/-- a mask value the stdlib reads as `/len` is the netmask of `len`, or (0 < len < 32) its hostmask -/
theorem readsAs_sound (mv len : Nat) (h : ReadsAs mv len) :
    len ≤ 32 ∧ (mv = 2 ^ 32 - 2 ^ (32 - len) ∨ (0 < len ∧ len < 32 ∧ mv = 2 ^ (32 - len) - 1)) := by
  rcases h with h | ⟨h0, h⟩
  · have := prefixFromIpInt_sound mv len h
    exact ⟨this.1, Or.inl this.2⟩
  · have hs := prefixFromIpInt_sound _ len h
    have ht := xor_allOnes_tables len hs.1
    have hmv : mv = 2 ^ (32 - len) - 1 := by
      have : mv = (mv ^^^ allOnes 32) ^^^ allOnes 32 := by
        rw [Nat.xor_assoc, Nat.xor_self, Nat.xor_zero]
      rw [this, hs.2, ht.1]
    refine ⟨hs.1, Or.inr ⟨?_, ?_, hmv⟩⟩
    · rcases Nat.eq_zero_or_pos len with e | e
      · exact absurd (hmv ▸ h0) (ht.2.1 e)
      · exact e
    · rcases Nat.lt_or_ge len 32 with e | e
      · exact e
      · exact absurd (hmv ▸ h0) (ht.2.2 (by omega))

theorem makeNetmask4_run_sound (p : Str) (len : Nat) (hp : IsRun p) (h : makeNetmask4 p = .ok len) :
    (∀ c ∈ p, isDigit c = true) ∧ ofDigits p = some len ∧ len ≤ 32 := by
  unfold makeNetmask4 at h
  cases h1 : prefixFromPrefixString 32 p with
  | some v =>
    rw [h1] at h
    cases h
    unfold prefixFromPrefixString at h1
    split at h1
    · rename_i hc
      split at h1
      · rename_i n hn
        split at h1
        · cases h1
          exact ⟨List.all_eq_true.mp hc.2, hn, by assumption⟩
        · cases h1
      · cases h1
    · cases h1
  | none =>
    rw [h1] at h
    have : prefixFromIpString p = none := by
      unfold prefixFromIpString stdV4Int
      rw [splitOn_noSep '.' p (run_ne p hp '.' (by decide))]
      simp [hp.1]
    rw [this] at h
    cases h

theorem makeNetmask4_quad_sound (m : Str) (len : Nat) (hm : IsQuadText m) (h : makeNetmask4 m = .ok len) :
    ∃ mv, mv < 4294967296 ∧ m = strV4 mv ∧ ReadsAs mv len := by
  unfold makeNetmask4 at h
  cases h1 : prefixFromPrefixString 32 m with
  | some v =>
    exfalso
    unfold prefixFromPrefixString at h1
    split at h1
    · rename_i hc
      have hall := List.all_eq_true.mp hc.2
      obtain ⟨a, b, c, d, _, _, _, _, rfl⟩ := hm
      have := hall '.' (by simp)
      revert this; decide
    · cases h1
  | none =>
    rw [h1] at h
    simp only at h
    unfold prefixFromIpString at h
    cases h2 : stdV4Int m with
    | none => rw [h2] at h; cases h
    | some mv =>
      rw [h2] at h
      have hs := stdV4Int_sound m mv hm h2
      refine ⟨mv, hs.2, hs.1, ?_⟩
      simp only at h
      cases h3 : prefixFromIpInt 32 mv with
      | some p =>
        rw [h3] at h
        simp only at h
        cases h
        exact Or.inl h3
      | none =>
        rw [h3] at h
        simp only at h
        cases h4 : prefixFromIpInt 32 (mv ^^^ allOnes 32) with
        | none => rw [h4] at h; cases h
        | some p => rw [h4] at h; cases h; exact Or.inr ⟨h3, h4⟩


/-- what a successful match of the IPv4 regex looks like -/
inductive V4Shape (s : Str) (g : V4Groups) : Prop
  | plain (a : Str) (ha : IsQuadText a) (hs : s = a) (hg : g = { nomask := a })
  | pfx (a p : Str) (ha : IsQuadText a) (hp : IsRun p) (hs : s = a ++ '/' :: p)
      (hg : g = { addrPrefixlen := a, masklen := p })
  | slashMask (a m : Str) (ha : IsQuadText a) (hm : IsQuadText m) (hs : s = a ++ '/' :: m)
      (hg : g = { addrNetmask := a, netmask := m })
  | spaceMask (a ws m : Str) (ha : IsQuadText a) (hm : IsQuadText m) (hws : ws ≠ [])
      (hsp : ∀ c ∈ ws, isSpace c = true) (hs : s = a ++ ws ++ m) (hg : g = { addrNetmask := a, netmask := m })

theorem matchV4_sound (s : Str) (g : V4Groups) (h : matchV4 s = some g) : V4Shape s g := by
  unfold matchV4 at h
  cases hq : quad s with
  | none => rw [hq] at h; cases h
  | some ar =>
    obtain ⟨a, rest⟩ := ar
    rw [hq] at h
    have sq := quad_sound s a rest hq
    simp only at h
    cases rest with
    | nil =>
      simp only [Option.some.injEq] at h
      exact .plain a sq.2.1 (by rw [sq.1]; simp) h.symm
    | cons c r =>
      simp only at h
      by_cases hc : c = '/'
      · subst hc
        simp only [if_true] at h
        cases hq2 : quad r with
        | none =>
          rw [hq2] at h
          simp only at h
          by_cases hf : fullDigits r = true
          · simp only [hf, if_true, Option.some.injEq] at h
            unfold fullDigits at hf
            simp only [Bool.and_eq_true, ne_eq, List.all_eq_true, decide_eq_true_eq] at hf
            exact .pfx a r sq.2.1 ⟨hf.1, hf.2⟩ sq.1 h.symm
          · simp [hf] at h
        | some mr =>
          obtain ⟨m, r2⟩ := mr
          rw [hq2] at h
          have sq2 := quad_sound r m r2 hq2
          cases r2 with
          | nil =>
            simp only [Option.some.injEq] at h
            have : r = m := by rw [sq2.1]; simp
            exact .slashMask a m sq.2.1 sq2.2.1 (by rw [sq.1, this]) h.symm
          | cons x xs =>
            simp only at h
            by_cases hf : fullDigits r = true
            · exfalso
              -- a run of digits cannot contain the dot of the quad
              unfold fullDigits at hf
              simp only [Bool.and_eq_true, List.all_eq_true] at hf
              obtain ⟨a', b', c', d', _, _, _, _, rfl⟩ := sq2.2.1
              have := hf.2 '.' (by rw [sq2.1]; simp)
              revert this; decide
            · simp [hf] at h
      · simp only [hc, if_false] at h
        by_cases hsp : isSpace c = true
        · simp only [hsp, if_true] at h
          cases hq2 : quad (r.dropWhile isSpace) with
          | none => rw [hq2] at h; cases h
          | some mr =>
            obtain ⟨m, r2⟩ := mr
            rw [hq2] at h
            have sq2 := quad_sound _ m r2 hq2
            cases r2 with
            | nil =>
              simp only [Option.some.injEq] at h
              have e1 : r.dropWhile isSpace = m := by rw [sq2.1]; simp
              have e2 := List.takeWhile_append_dropWhile (p := isSpace) (l := r)
              refine .spaceMask a (c :: r.takeWhile isSpace) m sq.2.1 sq2.2.1 (by simp) ?_ ?_ h.symm
              · intro x hx
                rcases List.mem_cons.mp hx with hx | hx
                · rw [hx]; exact hsp
                · exact mem_takeWhile r x hx
              · rw [sq.1, ← e1]
                conv => lhs; rw [← e2]
                simp
            | cons x xs => simp only at h; cases h
        · simp [hsp] at h


theorem makeNetmask4_le (s : Str) (len : Nat) (h : makeNetmask4 s = .ok len) : len ≤ 32 := by
  unfold makeNetmask4 at h
  cases h1 : prefixFromPrefixString 32 s with
  | some v =>
    rw [h1] at h; cases h
    unfold prefixFromPrefixString at h1
    split at h1
    · split at h1
      · split at h1
        · cases h1; assumption
        · cases h1
      · cases h1
    · cases h1
  | none =>
    rw [h1] at h
    simp only at h
    unfold prefixFromIpString at h
    cases h2 : stdV4Int s with
    | none => rw [h2] at h; cases h
    | some mv =>
      rw [h2] at h
      simp only at h
      cases h3 : prefixFromIpInt 32 mv with
      | some p => rw [h3] at h; cases h; exact (prefixFromIpInt_sound mv _ h3).1
      | none =>
        rw [h3] at h
        simp only at h
        cases h4 : prefixFromIpInt 32 (mv ^^^ allOnes 32) with
        | none => rw [h4] at h; cases h
        | some p => rw [h4] at h; cases h; exact (prefixFromIpInt_sound _ _ h4).1

theorem V4.tail_inv (a mp : Str) (o : Obj) (ha : IsQuadText a) (hmp : ∀ c ∈ mp, c ≠ '/')
    (h : (do
      let ip ← stdV4Addr a
      let n0 ← stdV4Net false (a ++ '/' :: mp)
      let n ← stdV4Net false (strV4 ip ++ '/' :: toDec n0.2)
      (pure ⟨ip, n.1, n.2⟩ : Except Err Obj)) = .ok o) :
    ∃ ip len, ip < 4294967296 ∧ len ≤ 32 ∧ a = strV4 ip ∧ makeNetmask4 mp = .ok len ∧ o = mk4 ip len := by
  cases e1 : stdV4Addr a with
  | error e => simp [bind, Except.bind, e1] at h
  | ok ip =>
    have hip : stdV4Int a = some ip := by
      unfold stdV4Addr at e1
      split at e1
      · cases e1
      · split at e1
        · rename_i n hn; cases e1; exact hn
        · cases e1
    have hs := stdV4Int_sound a ip ha hip
    obtain ⟨rfl, hlt⟩ := hs
    cases e2 : makeNetmask4 mp with
    | error e =>
      exfalso
      have : stdV4Net false (strV4 ip ++ '/' :: mp) = .error e := by
        unfold stdV4Net splitOptionalNetmask
        rw [splitOn_slash _ _ (strV4_ne ip '/' (by decide) (by decide)) hmp]
        simp only [bind, Except.bind, stdV4Addr_strV4 ip hlt, e2]
      simp [bind, Except.bind, e1, this] at h
    | ok len =>
      have hle := makeNetmask4_le mp len e2
      have h0 := stdV4Net_of ip len mp hlt hmp e2
      simp only [bind, Except.bind, e1, h0, stdV4Net_cidr ip len hlt hle, pure, Except.pure, Except.ok.injEq] at h
      exact ⟨ip, len, hlt, hle, rfl, rfl, h.symm⟩


theorem makeNetmask4_nil : makeNetmask4 [] = .error .netmaskValueError := by rfl
theorem makeNetmask4_32 : makeNetmask4 "32".toList = .ok 32 := by rfl

theorem quadText_ne_nil' (m : Str) (h : IsQuadText m) : ¬ m = [] := quadText_ne_nil m h

/-- the fix-ups of `__init__` when the groups are (address, netmask) -/
theorem V4.inv_mask (a m : Str) (o : Obj) (ha : IsQuadText a) (hm : IsQuadText m)
    (h : (let g : V4Groups := { addrNetmask := a, netmask := m }
     let netmask := g.netmask
     let prefixlen := g.masklen
     let prefixlen := if netmask = [] ∧ prefixlen = [] then "32".toList else prefixlen
     let prefixlen := if !fullDigits (strip prefixlen) then [] else prefixlen
     let netmask := if !fullQuad (strip netmask) then [] else netmask
     let prefixlen := if netmask ≠ [] ∧ prefixlen ≠ [] then [] else prefixlen
     let v4addr := g.nomask ++ g.addrNetmask ++ g.addrPrefixlen
     let maskPrefixlen := netmask ++ prefixlen
     if searchQuad v4addr then do
       let ip ← stdV4Addr v4addr
       let n0 ← stdV4Net false (v4addr ++ '/' :: maskPrefixlen)
       let n ← stdV4Net false (strV4 ip ++ '/' :: toDec n0.2)
       (pure ⟨ip, n.1, n.2⟩ : Except Err Obj)
     else .error .addressValueError) = .ok o) :
    ∃ ip len mv, ip < 4294967296 ∧ len ≤ 32 ∧ mv < 4294967296 ∧ a = strV4 ip ∧ m = strV4 mv ∧ ReadsAs mv len ∧
      o = mk4 ip len := by
  have hd : fullDigits (strip []) = false := by decide
  have hsm : strip m = m := strip_noSpace m (quadText_noSpace m hm)
  simp only [quadText_ne_nil' m hm, false_and, if_false, hd, Bool.not_false, if_true, hsm,
    List.nil_append, List.append_nil, ne_eq, not_true_eq_false, and_false] at h
  by_cases hsq : searchQuad a = true
  · simp only [hsq, if_true] at h
    by_cases hfq : fullQuad m = true
    · simp only [hfq, Bool.not_true, Bool.false_eq_true, if_false] at h
      obtain ⟨ip, len, h1, h2, h3, h4, h5⟩ := V4.tail_inv a m o ha (quadText_ne m hm '/' (by decide) (by decide)) h
      obtain ⟨mv, g1, g2, g3⟩ := makeNetmask4_quad_sound m len hm h4
      exact ⟨ip, len, mv, h1, h2, g1, h3, g2, g3, h5⟩
    · have hfq' : fullQuad m = false := by simpa using hfq
      simp only [hfq', Bool.not_false, if_true] at h
      obtain ⟨ip, len, _, _, _, h4, _⟩ := V4.tail_inv a [] o ha (fun c hc => by simp at hc) h
      rw [makeNetmask4_nil] at h4; cases h4
  · simp [hsq] at h


/-- **what an accepted IPv4 text is**: the canonical dotted quad of the stored address, followed by
nothing, by `/digits`, or by `/` or blanks and the canonical dotted quad of a mask the stdlib reads as `/len` -/
theorem V4.fromStr_inv (input : Str) (o : Obj) (h : V4.fromStr input = .ok o) :
    ∃ ip len, ip < 4294967296 ∧ len ≤ 32 ∧ o = mk4 ip len ∧
      ((len = 32 ∧ strip input = strV4 ip) ∨
       (∃ p, p ≠ [] ∧ (∀ c ∈ p, isDigit c = true) ∧ ofDigits p = some len ∧ strip input = strV4 ip ++ '/' :: p) ∨
       (∃ mv, mv < 4294967296 ∧ ReadsAs mv len ∧ strip input = strV4 ip ++ '/' :: strV4 mv) ∨
       (∃ mv ws, mv < 4294967296 ∧ ReadsAs mv len ∧ ws ≠ [] ∧ (∀ c ∈ ws, isSpace c = true) ∧
          strip input = strV4 ip ++ ws ++ strV4 mv)) := by
  unfold V4.fromStr at h
  cases hm : matchV4 (strip input) with
  | none =>
    exfalso
    rw [hm] at h
    have h32 : strip "32".toList = "32".toList := by decide
    have hf : fullDigits "32".toList = true := by decide
    have hq : fullQuad (strip []) = false := by decide
    simp [h32, hf, hq, searchQuad] at h
  | some g =>
    rw [hm] at h
    simp only [Option.getD_some] at h
    cases matchV4_sound _ g hm with
    | plain a ha hs hg =>
      subst hg
      have h32 : strip "32".toList = "32".toList := by decide
      have hf : fullDigits "32".toList = true := by decide
      have hq : fullQuad (strip []) = false := by decide
      simp only [and_self, if_true, h32, hf, hq, Bool.not_true, Bool.false_eq_true, if_false, Bool.not_false,
        ne_eq, not_true_eq_false, false_and, List.nil_append, List.append_nil] at h
      by_cases hsq : searchQuad a = true
      · simp only [hsq, if_true] at h
        obtain ⟨ip, len, h1, h2, h3, h4, h5⟩ := V4.tail_inv a "32".toList o ha (by decide) h
        rw [makeNetmask4_32] at h4
        cases h4
        exact ⟨ip, 32, h1, h2, h5, Or.inl ⟨rfl, by rw [hs, h3]⟩⟩
      · simp [hsq] at h
    | pfx a p ha hp hs hg =>
      subst hg
      have hsp : strip p = p := strip_noSpace p (fun c hc => isSpace_of_isReDigit c (hp.2 c hc))
      have hfd : fullDigits p = true := by
        unfold fullDigits; simp [hp.1]; exact hp.2
      have hq : fullQuad (strip []) = false := by decide
      simp only [hp.1, and_false, if_false, hsp, hfd, hq, Bool.not_true, Bool.false_eq_true, Bool.not_false, if_true,
        ne_eq, not_true_eq_false, false_and, List.nil_append, List.append_nil] at h
      by_cases hsq : searchQuad a = true
      · simp only [hsq, if_true] at h
        obtain ⟨ip, len, h1, h2, h3, h4, h5⟩ := V4.tail_inv a p o ha (run_ne p hp '/' (by decide)) h
        have hd := makeNetmask4_run_sound p len hp h4
        exact ⟨ip, len, h1, h2, h5, Or.inr (Or.inl ⟨p, hp.1, hd.1, hd.2.1, by rw [hs, h3]⟩)⟩
      · simp [hsq] at h
    | slashMask a m ha hm' hs hg =>
      subst hg
      obtain ⟨ip, len, mv, h1, h2, h3, h4, h5, h6, h7⟩ := V4.inv_mask a m o ha hm' h
      exact ⟨ip, len, h1, h2, h7, Or.inr (Or.inr (Or.inl ⟨mv, h3, h6, by rw [hs, h4, h5]⟩))⟩
    | spaceMask a ws m ha hm' hws hsp hs hg =>
      subst hg
      obtain ⟨ip, len, mv, h1, h2, h3, h4, h5, h6, h7⟩ := V4.inv_mask a m o ha hm' h
      exact ⟨ip, len, h1, h2, h7, Or.inr (Or.inr (Or.inr ⟨mv, ws, h3, h6, hws, hsp, by rw [hs, h4, h5]⟩))⟩

/-! ### IPv6 text constructor on the exploded text -/

theorem splitWsAux_noSpace (s : Str) (h : ∀ c ∈ s, isSpace c = false) : splitWsAux false s = [s] := by
  induction s with
  | nil => rfl
  | cons c cs ih =>
    have := ih (fun x hx => h x (by simp [hx]))
    simp [splitWsAux, h c (by simp), this]

theorem splitWsAux_space (ws b : Str) (hws : ∀ c ∈ ws, isSpace c = true) (hb : ∀ c ∈ b, isSpace c = false) :
    splitWsAux true (ws ++ b) = splitWsAux false b := by
  induction ws with
  | nil =>
    cases b with
    | nil => rfl
    | cons c cs => simp [splitWsAux, hb c (by simp)]
  | cons w ws ih =>
    have := ih (fun x hx => hws x (by simp [hx]))
    simp [splitWsAux, hws w (by simp), this]

theorem splitWs_two (a ws b : Str) (ha : ∀ c ∈ a, isSpace c = false) (hws : ∀ c ∈ ws, isSpace c = true)
    (hne : ws ≠ []) (hb : ∀ c ∈ b, isSpace c = false) : splitWs (a ++ ws ++ b) = [a, b] := by
  unfold splitWs
  induction a with
  | nil =>
    cases ws with
    | nil => exact absurd rfl hne
    | cons w ws' =>
      simp only [List.nil_append, List.cons_append, splitWsAux, hws w (by simp), if_true, Bool.false_eq_true, if_false]
      rw [splitWsAux_space ws' b (fun x hx => hws x (by simp [hx])) hb, splitWsAux_noSpace b hb]
  | cons c cs ih =>
    have := ih (fun x hx => ha x (by simp [hx]))
    simp only [List.cons_append, List.append_assoc] at this ⊢
    simp [splitWsAux, ha c (by simp), this]

theorem parseHextet_hex4 (g : Nat) (h : g < 65536) : parseHextet (hex4 g) = some g := by
  unfold parseHextet
  have : (hex4 g).all isHexDigit = true := List.all_eq_true.mpr (fun c hc => (hex4_chars g c hc).1)
  have hl : ¬ (hex4 g).length > 4 := by simp [hex4]
  simp only [this, Bool.not_true, Bool.false_eq_true, if_false, hl, ofHex_hex4 g h]

theorem isH_hex4 (g : Nat) : isH (hex4 g) = true := by
  have : (hex4 g).all isHexDigit = true := List.all_eq_true.mpr (fun c hc => (hex4_chars g c hc).1)
  unfold isH
  rw [this]
  simp [hex4]

theorem hex4_ne_nil (g : Nat) : hex4 g ≠ [] := by simp [hex4]

theorem stdV6Int_exploded (n : Nat) (h : n < 2 ^ 128) : stdV6Int (explodedV6 n) = some n := by
  have hl := hextets_lt n
  simp only [hextets, List.mem_cons, List.not_mem_nil, or_false, forall_eq_or_imp, forall_eq] at hl
  obtain ⟨l0, l1, l2, l3, l4, l5, l6, l7⟩ := hl
  unfold explodedV6
  apply stdV6Int_of_parts
  · simp [hextets]
  · simp only [hextets, List.map, v6FromParts, List.length_cons, List.length_nil, List.drop_succ_cons, List.drop_zero,
      List.dropLast_cons_cons, List.dropLast_singleton, emptyIdx, hex4_ne_nil, if_false, List.head?_cons,
      Option.getD_some, List.getLast?_cons_cons, List.getLast?_singleton, Nat.reduceAdd, gt_iff_lt, Nat.reduceLT,
      ne_eq, not_true_eq_false, accHextets_cons _ _ _ _ (parseHextet_hex4 _ l0) l0,
      accHextets_cons _ _ _ _ (parseHextet_hex4 _ l1) l1, accHextets_cons _ _ _ _ (parseHextet_hex4 _ l2) l2,
      accHextets_cons _ _ _ _ (parseHextet_hex4 _ l3) l3, accHextets_cons _ _ _ _ (parseHextet_hex4 _ l4) l4,
      accHextets_cons _ _ _ _ (parseHextet_hex4 _ l5) l5, accHextets_cons _ _ _ _ (parseHextet_hex4 _ l6) l6,
      accHextets_cons _ _ _ _ (parseHextet_hex4 _ l7) l7, accHextets_nil, Option.some.injEq]
    simp only [Nat.zero_mul, Nat.zero_add]
    exact val8_hextets n h
  · intro p hp
    rw [List.mem_map] at hp
    obtain ⟨g, _, rfl⟩ := hp
    exact ⟨fun c hc => (hex4_chars g c hc).2.1, fun c hc => (hex4_chars g c hc).2.2.1⟩


theorem hexFormParts_exploded (n : Nat) : hexFormParts ((hextets n).map hex4) = true := by
  simp only [hextets, List.map]
  unfold hexFormParts
  split
  · rename_i heq
    simp only [List.cons.injEq] at heq
    exact absurd heq.1 (hex4_ne_nil _)
  · rename_i rest heq
    simp only [List.cons.injEq] at heq
    exact absurd heq.1 (hex4_ne_nil _)
  · simp [isH_hex4]

theorem explodedV6_chars (n : Nat) : ∀ c ∈ explodedV6 n, isHexDigit c = true ∨ c = ':' := by
  intro c hc
  unfold explodedV6 at hc
  rcases mem_join ':' _ c hc with h | ⟨p, hp, h⟩
  · exact Or.inr h
  · rw [List.mem_map] at hp
    obtain ⟨g, _, rfl⟩ := hp
    exact Or.inl (hex4_chars g c h).1

theorem isSpace_hexColon (c : Char) (h : isHexDigit c = true ∨ c = ':') : isSpace c = false ∧ c ≠ '/' := by
  rcases h with h | h
  · unfold isHexDigit isDigit at h
    simp only [Bool.or_eq_true, Bool.and_eq_true, decide_eq_true_eq] at h
    constructor
    · unfold isSpace Gen.whitespace
      simp only [List.contains_eq_mem, List.mem_cons, List.not_mem_nil, or_false, decide_eq_false_iff_not]
      omega
    · rintro rfl
      revert h; decide
  · subst h; exact ⟨by decide, by decide⟩

theorem tripleColonAhead_cons (c : Char) (s : Str) (h : c ≠ ':') : tripleColonAhead (c :: s) = false := by
  unfold tripleColonAhead
  split
  · rename_i x heq
    exact absurd (List.cons.inj heq).1 h
  · rfl

theorem explodedV6_cons (n : Nat) : ∃ c t, explodedV6 n = c :: t ∧ c ≠ ':' := by
  have e : explodedV6 n = Nat.digitChar (n / 2 ^ 112 % 65536 / 4096 % 16) :: (explodedV6 n).tail := by
    simp only [explodedV6, hextets, List.map, join, hex4, List.cons_append, List.tail_cons]
  exact ⟨_, _, e, (hexd_fin ⟨_, Nat.mod_lt _ (by omega)⟩).2.2.1⟩

/-- the IPv6 regex on `<exploded>` followed by nothing or by a separator and ASCII digits -/
theorem matchV6_exploded (n : Nat) (tail : Str) (mask : Option Str)
    (ht : (tail = [] ∧ mask = none) ∨
      ∃ sep m, tail = sep :: m ∧ mask = some m ∧ (sep = '/' ∨ isSpace sep = true) ∧ m ≠ [] ∧ ∀ c ∈ m, isDigit c = true) :
    matchV6 (explodedV6 n ++ tail) = some (explodedV6 n, mask) := by
  unfold matchV6
  obtain ⟨c, t, hc, hcol⟩ := explodedV6_cons n
  have h3 : tripleColonAhead (explodedV6 n ++ tail) = false := by
    rw [hc]; exact tripleColonAhead_cons c _ hcol
  have htw := takeWhile_append (p := fun c => !(decide (c = '/') || isSpace c)) (explodedV6 n) tail
    (fun c hc => by
      have := isSpace_hexColon c (explodedV6_chars n c hc)
      simp [this.1, this.2])
    (fun c hc => by
      rcases ht with ⟨rfl, _⟩ | ⟨sep, m, rfl, _, hsep, _⟩
      · simp at hc
      · simp only [List.head?_cons, Option.some.injEq] at hc
        subst hc
        rcases hsep with rfl | h
        · simp
        · simp [h])
  have hok : matchHexForm (explodedV6 n) = true := by
    unfold matchHexForm; rw [splitOn_exploded]; exact hexFormParts_exploded n
  simp only [h3, Bool.false_eq_true, if_false, htw.1, htw.2, hok, Bool.true_or, Bool.not_true]
  rcases ht with ⟨rfl, rfl⟩ | ⟨sep, m, rfl, rfl, _, hne, hd⟩
  · rfl
  · simp only [fullDigits_digits m hne hd, if_true]


theorem explodedV6_ne' (n : Nat) (x : Char) (hx : isHexDigit x = false) (hd : x ≠ ':') : ∀ c ∈ explodedV6 n, c ≠ x := by
  intro c hc
  rcases explodedV6_chars n c hc with h | h
  · rintro rfl; rw [h] at hx; cases hx
  · rw [h]; exact fun e => hd e.symm

theorem stdV6Addr_exploded (n : Nat) (h : n < 2 ^ 128) : stdV6Addr (explodedV6 n) = .ok n := by
  unfold stdV6Addr
  rw [contains_false _ '/' (explodedV6_ne' n '/' (by decide) (by decide)),
    contains_false _ '%' (explodedV6_ne' n '%' (by decide) (by decide))]
  simp [stdV6Int_exploded n h]

theorem makeNetmask6_digits (m : Str) (len : Nat) (hne : m ≠ []) (hd : ∀ c ∈ m, isDigit c = true)
    (hv : ofDigits m = some len) (hl : len ≤ 128) : makeNetmask6 m = .ok len := by
  unfold makeNetmask6 prefixFromPrefixString
  have : m.all isDigit = true := List.all_eq_true.mpr hd
  simp [hne, this, hv, hl]

theorem explodedV6_length (n : Nat) : (explodedV6 n).length = 39 := by
  simp [explodedV6, hextets, join, hex4]

/-- the tail of `IPv6Obj.__init__` (length guard on the normalised text, regex, stdlib) on `<exploded>/<digits>` -/
theorem V6.fromStr_core (ip len : Nat) (m : Str) (hip : ip < 2 ^ 128) (hl : len ≤ 128) (hne : m ≠ [])
    (hd : ∀ c ∈ m, isDigit c = true) (hv : ofDigits m = some len) (hm9 : m.length ≤ 9) :
    (if (explodedV6 ip ++ '/' :: m).length > Gen.ipv6MaxStrLen then (.error .requirementFailure : Except Err Obj) else
    match matchV6 (strip (explodedV6 ip ++ '/' :: m)) with
    | none => (.error .addressValueError : Except Err Obj)
    | some (addr, masklen) => do
      let ip ← stdV6Addr addr
      let netstr := match masklen with
        | some m => addr ++ '/' :: m
        | none => addr ++ "/128".toList
      let n ← stdV6Net false netstr
      pure ⟨ip, n.1, n.2⟩) = .ok (mk6 ip len) := by
  have hns : ∀ c ∈ explodedV6 ip ++ '/' :: m, isSpace c = false := by
    intro c hc
    simp only [List.mem_append, List.mem_cons] at hc
    rcases hc with h | h | h
    · exact (isSpace_hexColon c (explodedV6_chars ip c h)).1
    · rw [h]; decide
    · exact isSpace_of_isDigit c (hd c h)
  have hg : ¬ (explodedV6 ip ++ '/' :: m).length > Gen.ipv6MaxStrLen := by
    rw [List.length_append, explodedV6_length]
    unfold Gen.ipv6MaxStrLen
    simp only [List.length_cons]; omega
  rw [if_neg hg]
  rw [strip_noSpace _ hns, matchV6_exploded ip ('/' :: m) (some m) (Or.inr ⟨'/', m, rfl, rfl, Or.inl rfl, hne, hd⟩)]
  have hnet : stdV6Net false (explodedV6 ip ++ '/' :: m) = .ok (ip &&& ipIntFromPrefix 128 len, len) := by
    unfold stdV6Net splitOptionalNetmask
    rw [splitOn_slash _ _ (explodedV6_ne' ip '/' (by decide) (by decide))
      (fun c hc => ne_of_isDigit c '/' (by decide) (hd c hc))]
    simp only [bind, Except.bind, stdV6Addr_exploded ip hip, makeNetmask6_digits m len hne hd hv hl]
    exact finishNet_false 128 ip len
  simp only [bind, Except.bind, stdV6Addr_exploded ip hip, hnet]
  rfl

theorem V6.fromStr_exploded (input : Str) (ip len : Nat) (m : Str) (hip : ip < 2 ^ 128) (hl : len ≤ 128)
    (hne : m ≠ []) (hd : ∀ c ∈ m, isDigit c = true) (hv : ofDigits m = some len) (hm9 : m.length ≤ 9)
    (hs : strip input = explodedV6 ip ++ '/' :: m ∨
      ∃ ws, ws ≠ [] ∧ (∀ c ∈ ws, isSpace c = true) ∧ strip input = explodedV6 ip ++ ws ++ m) :
    V6.fromStr input = .ok (mk6 ip len) := by
  unfold V6.fromStr
  have hea : ∀ c ∈ explodedV6 ip, isSpace c = false :=
    fun c hc => (isSpace_hexColon c (explodedV6_chars ip c hc)).1
  have hm : ∀ c ∈ m, isSpace c = false := fun c hc => isSpace_of_isDigit c (hd c hc)
  have core := V6.fromStr_core ip len m hip hl hne hd hv hm9
  rcases hs with hs | ⟨ws, hw1, hw2, hs⟩
  · have hns : ∀ c ∈ explodedV6 ip ++ '/' :: m, isSpace c = false := by
      intro c hc
      simp only [List.mem_append, List.mem_cons] at hc
      rcases hc with h | h | h
      · exact hea c h
      · rw [h]; decide
      · exact hm c h
    rw [hs]
    unfold splitWs
    rw [splitWsAux_noSpace _ hns]
    exact core
  · rw [hs, splitWs_two _ ws m hea hw2 hw1 hm]
    exact core


/-! ### converse for IPv6: the regex consumes the whole text -/

theorem matchV6_sound (s a : Str) (mask : Option Str) (h : matchV6 s = some (a, mask)) :
    (∀ c ∈ a, c ≠ '/' ∧ isSpace c = false) ∧
    ((mask = none ∧ s = a) ∨
     ∃ sep m, mask = some m ∧ s = a ++ sep :: m ∧ (sep = '/' ∨ isSpace sep = true) ∧ IsRun m) := by
  unfold matchV6 at h
  split at h
  · cases h
  · simp only at h
    split at h
    · cases h
    · have e2 := List.takeWhile_append_dropWhile (p := fun c => !(decide (c = '/') || isSpace c)) (l := s)
      have hall : ∀ c ∈ s.takeWhile (fun c => !(decide (c = '/') || isSpace c)), c ≠ '/' ∧ isSpace c = false := by
        intro c hc
        have := mem_takeWhile (p := fun c => !(decide (c = '/') || isSpace c)) s c hc
        simp only [Bool.not_eq_true', Bool.or_eq_false_iff, decide_eq_false_iff_not] at this
        exact this
      cases hd : s.dropWhile (fun c => !(decide (c = '/') || isSpace c)) with
      | nil =>
        rw [hd] at h
        simp only [Option.some.injEq, Prod.mk.injEq] at h
        obtain ⟨rfl, rfl⟩ := h
        refine ⟨hall, Or.inl ⟨rfl, ?_⟩⟩
        rw [hd] at e2; simpa using e2.symm
      | cons sep m =>
        rw [hd] at h
        simp only at h
        split at h
        · rename_i hf
          simp only [Option.some.injEq, Prod.mk.injEq] at h
          obtain ⟨rfl, rfl⟩ := h
          have hsep := head_dropWhile (p := fun c => !(decide (c = '/') || isSpace c)) s sep (by rw [hd]; rfl)
          simp only [Bool.not_eq_false', Bool.or_eq_true, decide_eq_true_eq] at hsep
          unfold fullDigits at hf
          simp only [Bool.and_eq_true, ne_eq, List.all_eq_true, decide_eq_true_eq] at hf
          refine ⟨hall, Or.inr ⟨sep, m, rfl, ?_, hsep, ⟨hf.1, hf.2⟩⟩⟩
          rw [hd] at e2; exact e2.symm
        · cases h

theorem makeNetmask6_sound (m : Str) (len : Nat) (h : makeNetmask6 m = .ok len) :
    m ≠ [] ∧ (∀ c ∈ m, isDigit c = true) ∧ ofDigits m = some len ∧ len ≤ 128 := by
  unfold makeNetmask6 at h
  cases h1 : prefixFromPrefixString 128 m with
  | none => rw [h1] at h; cases h
  | some v =>
    rw [h1] at h; cases h
    unfold prefixFromPrefixString at h1
    split at h1
    · rename_i hc
      split at h1
      · rename_i n hn
        split at h1
        · cases h1; exact ⟨hc.1, List.all_eq_true.mp hc.2, hn, by assumption⟩
        · cases h1
      · cases h1
    · cases h1

/-- **what an accepted IPv6 text is** (as far as proved): after `strip()` and the blank-to-slash
rewrite the *whole* text is `addr` or `addr<sep>digits`; `addr` is the text the stdlib parsed into the
stored address, `digits` are ASCII digits whose value is the stored prefix length ≤ 128 -/
theorem V6.fromStr_inv (input : Str) (o : Obj) (h : V6.fromStr input = .ok o) :
    o = mk6 o.ip o.len ∧ o.len ≤ 128 ∧
    ∃ joined addr, joined.length ≤ 49 ∧
      (splitWs (strip input) = [joined] ∨ ∃ a b, splitWs (strip input) = [a, b] ∧ joined = a ++ '/' :: b) ∧
      stdV6Addr addr = .ok o.ip ∧
      ((strip joined = addr ∧ o.len = 128) ∨
       ∃ sep m, strip joined = addr ++ sep :: m ∧ (sep = '/' ∨ isSpace sep = true) ∧ m ≠ [] ∧
         (∀ c ∈ m, isDigit c = true) ∧ ofDigits m = some o.len) := by
  unfold V6.fromStr at h
  simp only at h
  split at h
  · cases h
  · rename_i v6input hj
    split at h
    · cases h
    · rename_i hlen
      have hlen' : v6input.length ≤ 49 := by unfold Gen.ipv6MaxStrLen at hlen; omega
      have hsplit : splitWs (strip input) = [v6input] ∨
          ∃ a b, splitWs (strip input) = [a, b] ∧ v6input = a ++ '/' :: b := by
        split at hj
        · rename_i a b he; cases hj; exact Or.inr ⟨a, b, he, rfl⟩
        · rename_i a he; cases hj; exact Or.inl he
        · cases hj
      split at h
      · cases h
      · rename_i addr masklen hm
        have ms := matchV6_sound _ addr masklen hm
        cases e1 : stdV6Addr addr with
        | error e => simp [bind, Except.bind, e1] at h
        | ok ip =>
          simp only [bind, Except.bind, e1] at h
          have hno : ∀ c ∈ addr, c ≠ '/' := fun c hc => (ms.1 c hc).1
          rcases ms.2 with ⟨rfl, hs⟩ | ⟨sep, m, rfl, hs, hsep, hrun⟩
          · -- no mask: "/128"
            have hnet : stdV6Net false (addr ++ "/128".toList) = .ok (ip &&& ipIntFromPrefix 128 128, 128) := by
              unfold stdV6Net splitOptionalNetmask
              rw [show addr ++ "/128".toList = addr ++ '/' :: "128".toList from rfl,
                splitOn_slash _ _ hno (by decide)]
              simp only [bind, Except.bind, e1]
              rw [show makeNetmask6 "128".toList = .ok 128 from rfl]
              exact finishNet_false 128 ip 128
            simp only [hnet, pure, Except.pure, Except.ok.injEq] at h
            subst h
            exact ⟨rfl, Nat.le_refl 128, v6input, addr, hlen', hsplit, e1, Or.inl ⟨hs, rfl⟩⟩
          · have hmno : ∀ c ∈ m, c ≠ '/' := run_ne m hrun '/' (by decide)
            cases e2 : makeNetmask6 m with
            | error e =>
              exfalso
              have : stdV6Net false (addr ++ '/' :: m) = .error e := by
                unfold stdV6Net splitOptionalNetmask
                rw [splitOn_slash _ _ hno hmno]
                simp only [bind, Except.bind, e1, e2]
              simp [this] at h
            | ok len =>
              have hnet : stdV6Net false (addr ++ '/' :: m) = .ok (ip &&& ipIntFromPrefix 128 len, len) := by
                unfold stdV6Net splitOptionalNetmask
                rw [splitOn_slash _ _ hno hmno]
                simp only [bind, Except.bind, e1, e2]
                exact finishNet_false 128 ip len
              simp only [hnet, pure, Except.pure, Except.ok.injEq] at h
              subst h
              have hd := makeNetmask6_sound m len e2
              exact ⟨rfl, hd.2.2.2, v6input, addr, hlen', hsplit, e1,
                Or.inr ⟨sep, m, hs, hsep, hd.1, hd.2.1, hd.2.2.1⟩⟩

/-! ### the IPv6 regex accepts the compressed text `str(IPv6Address(n))` -/

/-- the text does not start with `:::` (the negative look-ahead of the regex), whatever follows a bare `::` -/
def NoTripleHead (s : Str) : Prop :=
  (∃ c t, s = c :: t ∧ c ≠ ':') ∨ (∃ c t, s = ':' :: ':' :: c :: t ∧ c ≠ ':') ∨ s = [':', ':']

theorem isH_nil : isH [] = false := by decide

theorem compress_form_aux (c0 c1 c2 c3 c4 c5 c6 c7 : Char) (t0 t1 t2 t3 t4 t5 t6 t7 : Str)
    (H0 : isH (c0 :: t0) = true) (H1 : isH (c1 :: t1) = true) (H2 : isH (c2 :: t2) = true) (H3 : isH (c3 :: t3) = true)
    (H4 : isH (c4 :: t4) = true) (H5 : isH (c5 :: t5) = true) (H6 : isH (c6 :: t6) = true) (H7 : isH (c7 :: t7) = true)
    (k0 : c0 ≠ ':') (k1 : c1 ≠ ':') (k2 : c2 ≠ ':') (k3 : c3 ≠ ':') (k4 : c4 ≠ ':') (k5 : c5 ≠ ':') (k6 : c6 ≠ ':')
    (k7 : c7 ≠ ':')
    (L0 : t0.length ≤ 3) (L1 : t1.length ≤ 3) (L2 : t2.length ≤ 3) (L3 : t3.length ≤ 3) (L4 : t4.length ≤ 3)
    (L5 : t5.length ≤ 3) (L6 : t6.length ≤ 3) (L7 : t7.length ≤ 3)
    (st : Run) (hst : st.bestLen ≤ 1 ∨ ∃ s, st.bestStart = some s ∧ s + st.bestLen ≤ 8) :
    let parts := compressWith st [c0 :: t0, c1 :: t1, c2 :: t2, c3 :: t3, c4 :: t4, c5 :: t5, c6 :: t6, c7 :: t7]
    hexFormParts parts = true ∧ NoTripleHead (join [':'] parts) ∧ (join [':'] parts).length ≤ 39 := by
  intro parts
  simp only [parts]
  unfold compressWith
  by_cases hb : st.bestLen ≤ 1
  · have : ¬ st.bestLen > 1 := by omega
    simp only [this, if_false]
    refine ⟨?_, Or.inl ⟨_, _, rfl, k0⟩, ?_⟩
    · simp [hexFormParts, H0, H1, H2, H3, H4, H5, H6, H7]
    · simp only [join, List.length_append, List.length_cons, List.length_nil]; omega
  · rcases hst with h | ⟨s, hs, hle⟩
    · exact absurd h hb
    · have hgt : st.bestLen > 1 := by omega
      simp only [hgt, if_true, hs, Option.getD_some]
      generalize st.bestLen = l at *
      have hsv : s = 0 ∨ s = 1 ∨ s = 2 ∨ s = 3 ∨ s = 4 ∨ s = 5 ∨ s = 6 := by omega
      have hlv : l = 2 ∨ l = 3 ∨ l = 4 ∨ l = 5 ∨ l = 6 ∨ l = 7 ∨ l = 8 := by omega
      rcases hsv with rfl | rfl | rfl | rfl | rfl | rfl | rfl <;>
        rcases hlv with rfl | rfl | rfl | rfl | rfl | rfl | rfl <;>
        first
        | (exfalso; revert hle; decide)
        | (simp only [Nat.succ_ne_self, ↓reduceIte, Nat.reduceAdd, List.length_cons, List.length_nil, Nat.zero_add,
            Nat.reduceEqDiff, List.take_succ_cons, List.take_zero, List.cons_append, List.nil_append, List.drop_succ_cons,
            List.drop_zero, List.drop_nil, List.take_nil, Nat.reduceLeDiff, List.append_nil]
           refine ⟨?_, ?_, ?_⟩
           · simp [hexFormParts, H0, H1, H2, H3, H4, H5, H6, H7, isH_nil]
           · simp only [join, List.cons_append, List.nil_append, List.append_assoc]
             first
               | exact Or.inl ⟨_, _, rfl, k0⟩
               | exact Or.inr (Or.inl ⟨_, _, rfl, by assumption⟩)
               | exact Or.inr (Or.inr rfl)
           · simp only [join, List.length_append, List.length_cons, List.length_nil]; omega)


theorem toHex_cons (h : Nat) (hh : h < 65536) :
    ∃ c t, toHex h = c :: t ∧ isH (c :: t) = true ∧ c ≠ ':' ∧ t.length ≤ 3 := by
  have hp := toHex_props h hh
  cases e : toHex h with
  | nil => exact absurd e hp.1
  | cons c t =>
    rw [e] at hp
    refine ⟨c, t, rfl, ?_, (hp.2.2 c (by simp)).2.1, by simpa using hp.2.1⟩
    unfold isH
    have : (c :: t).all isHexDigit = true := List.all_eq_true.mpr (fun x hx => (hp.2.2 x hx).1)
    rw [this]
    have := hp.2.1
    simp only [List.length_cons] at this ⊢
    simp; omega

theorem runOk_shape (zs : List Bool) (st : Run) (h : runOk zs st = true) :
    st.bestLen ≤ 1 ∨ ∃ s, st.bestStart = some s ∧ s + st.bestLen ≤ 8 := by
  unfold runOk at h
  by_cases hb : st.bestLen ≤ 1
  · exact Or.inl hb
  · simp only [hb, if_false] at h
    cases hs : st.bestStart with
    | none => rw [hs] at h; cases h
    | some s =>
      rw [hs] at h
      simp only [Bool.and_eq_true, decide_eq_true_eq] at h
      exact Or.inr ⟨s, rfl, h.1⟩

theorem hexFormParts_nil : hexFormParts [] = false := by decide

/-- the compressed text is accepted by `opt1 | opt3 … opt11`, does not start with `:::`, and is short -/
theorem strV6_form (n : Nat) :
    matchHexForm (strV6 n) = true ∧ NoTripleHead (strV6 n) ∧ (strV6 n).length ≤ 39 := by
  have hl := hextets_lt n
  simp only [hextets, List.mem_cons, List.not_mem_nil, or_false, forall_eq_or_imp, forall_eq] at hl
  obtain ⟨l0, l1, l2, l3, l4, l5, l6, l7⟩ := hl
  obtain ⟨c0, t0, e0, H0, k0, L0⟩ := toHex_cons _ l0
  obtain ⟨c1, t1, e1, H1, k1, L1⟩ := toHex_cons _ l1
  obtain ⟨c2, t2, e2, H2, k2, L2⟩ := toHex_cons _ l2
  obtain ⟨c3, t3, e3, H3, k3, L3⟩ := toHex_cons _ l3
  obtain ⟨c4, t4, e4, H4, k4, L4⟩ := toHex_cons _ l4
  obtain ⟨c5, t5, e5, H5, k5, L5⟩ := toHex_cons _ l5
  obtain ⟨c6, t6, e6, H6, k6, L6⟩ := toHex_cons _ l6
  obtain ⟨c7, t7, e7, H7, k7, L7⟩ := toHex_cons _ l7
  have hmem : ∀ p ∈ compressHextets ((hextets n).map toHex), ∀ c ∈ p, c ≠ ':' := by
    intro p hp
    rcases compressWith_mem _ _ p hp with rfl | hp
    · intro c hc; simp at hc
    · rw [List.mem_map] at hp
      obtain ⟨g, hg, rfl⟩ := hp
      exact fun c hc => ((toHex_props g (hextets_lt n g hg)).2.2 c hc).2.1
  have key := compress_form_aux c0 c1 c2 c3 c4 c5 c6 c7 t0 t1 t2 t3 t4 t5 t6 t7 H0 H1 H2 H3 H4 H5 H6 H7
    k0 k1 k2 k3 k4 k5 k6 k7 L0 L1 L2 L3 L4 L5 L6 L7
    (runLoop {} 0 ([c0 :: t0, c1 :: t1, c2 :: t2, c3 :: t3, c4 :: t4, c5 :: t5, c6 :: t6, c7 :: t7].map (· == ['0'])))
    (runOk_shape _ _ (runLoop_ok _ _ _ _ _ _ _ _))
  unfold strV6 matchHexForm
  unfold compressHextets at hmem ⊢
  simp only [hextets, List.map, e0, e1, e2, e3, e4, e5, e6, e7] at hmem ⊢
  simp only [List.map] at key
  obtain ⟨hf, hh, hlen⟩ := key
  refine ⟨?_, hh, hlen⟩
  rw [splitOn_join ':' _ (by intro e; rw [e, hexFormParts_nil] at hf; cases hf) hmem]
  exact hf


theorem tripleColonAhead_of_head (a tail : Str) (h : NoTripleHead a) (ht : ∀ c, tail.head? = some c → c ≠ ':') :
    tripleColonAhead (a ++ tail) = false := by
  rcases h with ⟨c, t, rfl, hc⟩ | ⟨c, t, rfl, hc⟩ | rfl
  · exact tripleColonAhead_cons c _ hc
  · unfold tripleColonAhead
    split
    · rename_i x heq
      simp only [List.cons_append, List.cons.injEq, true_and] at heq
      exact absurd heq.1 hc
    · rfl
  · unfold tripleColonAhead
    split
    · rename_i x heq
      cases tail with
      | nil => simp at heq
      | cons s m =>
        simp only [List.cons_append, List.nil_append, List.cons.injEq, true_and] at heq
        exact absurd heq.1 (ht s rfl)
    · rfl

/-- the IPv6 regex on an accepted pure-hex address text followed by nothing or a separator and ASCII digits -/
theorem matchV6_of (a tail : Str) (mask : Option Str)
    (hch : ∀ c ∈ a, isHexDigit c = true ∨ c = ':') (hform : matchHexForm a = true) (hhead : NoTripleHead a)
    (ht : (tail = [] ∧ mask = none) ∨
      ∃ sep m, tail = sep :: m ∧ mask = some m ∧ (sep = '/' ∨ isSpace sep = true) ∧ m ≠ [] ∧ ∀ c ∈ m, isDigit c = true) :
    matchV6 (a ++ tail) = some (a, mask) := by
  unfold matchV6
  have h3 : tripleColonAhead (a ++ tail) = false := by
    apply tripleColonAhead_of_head a tail hhead
    intro c hc
    rcases ht with ⟨rfl, _⟩ | ⟨sep, m, rfl, _, hsep, _⟩
    · simp at hc
    · simp only [List.head?_cons, Option.some.injEq] at hc
      subst hc
      rcases hsep with rfl | h
      · decide
      · rintro rfl; revert h; decide
  have htw := takeWhile_append (p := fun c => !(decide (c = '/') || isSpace c)) a tail
    (fun c hc => by
      have := isSpace_hexColon c (hch c hc)
      simp [this.1, this.2])
    (fun c hc => by
      rcases ht with ⟨rfl, _⟩ | ⟨sep, m, rfl, _, hsep, _⟩
      · simp at hc
      · simp only [List.head?_cons, Option.some.injEq] at hc
        subst hc
        rcases hsep with rfl | h
        · simp
        · simp [h])
  simp only [h3, Bool.false_eq_true, if_false, htw.1, htw.2, hform, Bool.true_or, Bool.not_true]
  rcases ht with ⟨rfl, rfl⟩ | ⟨sep, m, rfl, rfl, _, hne, hd⟩
  · rfl
  · simp only [fullDigits_digits m hne hd, if_true]

/-- `IPv6Obj(text)` for `text = <blanks><str(ip)><sep><digits><blanks>`, `sep` a slash or a run of blanks -/
theorem V6.fromStr_compressed (input : Str) (ip len : Nat) (m : Str) (hip : ip < 2 ^ 128) (hl : len ≤ 128)
    (hne : m ≠ []) (hd : ∀ c ∈ m, isDigit c = true) (hv : ofDigits m = some len) (hm9 : m.length ≤ 9)
    (hs : strip input = strV6 ip ++ '/' :: m ∨
      ∃ ws, ws ≠ [] ∧ (∀ c ∈ ws, isSpace c = true) ∧ strip input = strV6 ip ++ ws ++ m) :
    V6.fromStr input = .ok (mk6 ip len) := by
  obtain ⟨hform, hhead, hlen39⟩ := strV6_form ip
  have hea : ∀ c ∈ strV6 ip, isSpace c = false := fun c hc => (isSpace_hexColon c (strV6_chars ip c hc)).1
  have hmsp : ∀ c ∈ m, isSpace c = false := fun c hc => isSpace_of_isDigit c (hd c hc)
  have hns : ∀ c ∈ strV6 ip ++ '/' :: m, isSpace c = false := by
    intro c hc
    simp only [List.mem_append, List.mem_cons] at hc
    rcases hc with h | h | h
    · exact hea c h
    · rw [h]; decide
    · exact hmsp c h
  have hsplit : splitWs (strip input) = [strV6 ip ++ '/' :: m] ∨ splitWs (strip input) = [strV6 ip, m] := by
    rcases hs with hs | ⟨ws, hw1, hw2, hs⟩
    · left; rw [hs]; unfold splitWs; exact splitWsAux_noSpace _ hns
    · right; rw [hs]; exact splitWs_two _ ws m hea hw2 hw1 hmsp
  have hg : ¬ (strV6 ip ++ '/' :: m).length > Gen.ipv6MaxStrLen := by
    rw [List.length_append]; unfold Gen.ipv6MaxStrLen
    simp only [List.length_cons]; omega
  have hnet : stdV6Net false (strV6 ip ++ '/' :: m) = .ok (ip &&& ipIntFromPrefix 128 len, len) := by
    unfold stdV6Net splitOptionalNetmask
    rw [splitOn_slash _ _ (strV6_ne ip '/' (by decide) (by decide))
      (fun c hc => ne_of_isDigit c '/' (by decide) (hd c hc))]
    simp only [bind, Except.bind, stdV6Addr_strV6 ip hip, makeNetmask6_digits m len hne hd hv hl]
    exact finishNet_false 128 ip len
  have hmatch := matchV6_of (strV6 ip) ('/' :: m) (some m) (strV6_chars ip) hform hhead
    (Or.inr ⟨'/', m, rfl, rfl, Or.inl rfl, hne, hd⟩)
  unfold V6.fromStr
  rcases hsplit with h | h <;> rw [h] <;>
    simp only [if_neg hg, strip_noSpace _ hns, hmatch, bind, Except.bind, stdV6Addr_strV6 ip hip, hnet] <;> rfl


/-- `IPv6Obj(text)` for `text = <blanks><str(ip)><blanks>`: prefix length 128 -/
theorem V6.fromStr_compressed_plain (input : Str) (ip : Nat) (hip : ip < 2 ^ 128) (hs : strip input = strV6 ip) :
    V6.fromStr input = .ok (mk6 ip 128) := by
  obtain ⟨hform, hhead, hlen39⟩ := strV6_form ip
  have hea : ∀ c ∈ strV6 ip, isSpace c = false := fun c hc => (isSpace_hexColon c (strV6_chars ip c hc)).1
  have hg : ¬ (strV6 ip).length > Gen.ipv6MaxStrLen := by unfold Gen.ipv6MaxStrLen; omega
  have hd128 : toDec 128 = "128".toList := by
    have := toDec_cases 128 (by omega)
    simp only [show ¬ (128 < 10) by omega, show ¬ (128 < 100) by omega, false_and, and_false, false_or, Nat.reduceDiv,
      Nat.reduceMod] at this
    rw [this.2]; rfl
  have hnet : stdV6Net false (strV6 ip ++ "/128".toList) = .ok (ip &&& ipIntFromPrefix 128 128, 128) := by
    have := stdV6Net_cidr false ip 128 hip (by omega) (fun h => by cases h)
    rw [hd128] at this; exact this
  have hmatch := matchV6_of (strV6 ip) [] none (strV6_chars ip) hform hhead (Or.inl ⟨rfl, rfl⟩)
  rw [List.append_nil] at hmatch
  unfold V6.fromStr
  rw [hs]
  unfold splitWs
  rw [splitWsAux_noSpace _ hea]
  simp only [if_neg hg, strip_noSpace _ hea, hmatch, bind, Except.bind, stdV6Addr_strV6 ip hip, hnet]
  rfl

end Ccp.IPText
