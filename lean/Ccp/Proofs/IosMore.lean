import Ccp.Proofs.IosStanza
import Ccp.Props.C15
namespace Ccp.Ios
open Ccp.Py Ccp.Tree

section
variable {d : Desc} {others kids : List Item} {hdr : Str}

/-! ### secondary addresses -/

/-- a child's contribution to the secondary sets -/
def secSpec (it : Item) : Option (Str × Nat) :=
  match specSecondary it with
  | some (a, m) => ipv4obj a m
  | none => none

theorem secondaries_flat (hdr : Str) (kids : List Item) (hv : ∀ it ∈ kids, it.Valid)
    (hok : ∀ it ∈ kids, ∀ a m, it = .secondary a m → (ipv4obj a m).isSome = true) :
    secondaries (flatFam hdr kids) = .ok (kids.filterMap secSpec) := by
  show List.foldr _ _ (kids.map (fun k => [k.render])) = _
  induction kids with
  | nil => rfl
  | cons k ks ih =>
    have ih' := ih (fun it hit => hv it (by simp [hit])) (fun it hit => hok it (by simp [hit]))
    simp only [List.map_cons, List.foldr_cons]
    rw [ih']
    have hf : first pSecondary [k.render] = specSecondary k := by
      simp [first, List.findSome?, pSecondary_render k (hv k (by simp))]
      cases specSecondary k <;> rfl
    rw [hf]
    cases hs : specSecondary k with
    | none => simp [secSpec, hs]
    | some am =>
      obtain ⟨a, m⟩ := am
      have hk : k = .secondary a m := by cases k <;> simp_all [specSecondary]
      have := hok k (by simp) a m hk
      cases ho : ipv4obj a m with
      | none => rw [ho] at this; cases this
      | some r => simp [secSpec, hs, ho]

theorem items_secSpec (ho : ∀ it ∈ others, ∃ ws, it = .other ws) :
    (d.items ++ others).filterMap secSpec = d.secondaries.filterMap (fun p => ipv4obj p.1 p.2) := by
  simp only [Desc.items, List.filterMap_append, filterMap_optmap, fm_if]
  rw [filterMap_others _ ho secSpec (fun _ => rfl)]
  simp [secSpec, specSecondary, bind_none', List.filterMap_map, Function.comp]
  rfl

theorem items_secondary (ho : ∀ it ∈ others, ∃ ws, it = .other ws) :
    (d.items ++ others).filterMap specSecondary = d.secondaries := by
  simp only [Desc.items, List.filterMap_append, filterMap_optmap, fm_if]
  rw [filterMap_others _ ho specSecondary (fun _ => rfl)]
  simp [specSecondary, bind_none', List.filterMap_map, Function.comp]
  induction d.secondaries with
  | nil => rfl
  | cons p ps ih => simp [List.filterMap_cons, specSecondary, ih]

/-- `ip_secondary_addresses` / `ip_secondary_networks`: when every described secondary is a
canonical address with a contiguous netmask, the loop collects exactly the described
secondaries (address, prefix length) — as a multiset; the Python result is the set of them. -/
theorem secondaries_stanza (st : Stanza d others kids) (hdr : Str)
    (hok : ∀ p ∈ d.secondaries, (ipv4obj p.1 p.2).isSome = true) :
    ∃ L, secondaries (flatFam hdr kids) = .ok L ∧
      L.Perm (d.secondaries.filterMap (fun p => ipv4obj p.1 p.2)) ∧
      ∀ x, x ∈ L ↔ ∃ p ∈ d.secondaries, ipv4obj p.1 p.2 = some x := by
  have hk : ∀ it ∈ kids, ∀ a m, it = .secondary a m → (ipv4obj a m).isSome = true := by
    intro it hit a m he
    subst he
    have h1 : (a, m) ∈ kids.filterMap specSecondary :=
      List.mem_filterMap.mpr ⟨_, hit, rfl⟩
    rw [(st.perm.filterMap specSecondary).mem_iff, items_secondary st.unrelated] at h1
    exact hok _ h1
  refine ⟨kids.filterMap secSpec, secondaries_flat hdr kids st.valid hk, ?_, ?_⟩
  · rw [← items_secSpec st.unrelated]; exact st.perm.filterMap secSpec
  · intro x
    rw [(st.perm.filterMap secSpec).mem_iff, items_secSpec st.unrelated, List.mem_filterMap]

end
/-! ### `trunk_vlans_allowed` -/

/-- the word after `switchport trunk allowed vlan` in the description grammar -/
inductive AllowedWord : Str → Prop
  | all : AllowedWord kAll
  | none : AllowedWord kNone
  | list (ps : List (Nat × Option Nat)) (hne : ps ≠ []) : AllowedWord (Range.renderParts ps)

theorem renderPart_chars (p : Nat × Option Nat) : ∀ c ∈ Range.renderPart p, isDigit c = true ∨ c = '-' := by
  obtain ⟨lo, hi⟩ := p
  cases hi with
  | none => intro c hc; exact Or.inl (Range.toDec_digits lo c hc)
  | some hi =>
    intro c hc
    simp only [Range.renderPart, List.mem_append, List.mem_cons] at hc
    rcases hc with h | rfl | h
    · exact Or.inl (Range.toDec_digits lo c h)
    · exact Or.inr rfl
    · exact Or.inl (Range.toDec_digits hi c h)

theorem join_chars (sep : Str) (ws : List Str) (P : Char → Prop) (hs : ∀ c ∈ sep, P c)
    (hw : ∀ w ∈ ws, ∀ c ∈ w, P c) : ∀ c ∈ join sep ws, P c := by
  induction ws with
  | nil => intro c hc; cases hc
  | cons w ws ih =>
    cases ws with
    | nil => simpa [join] using hw w (by simp)
    | cons w2 ws2 =>
      intro c hc
      simp only [join, List.mem_append] at hc
      rcases hc with (h | h) | h
      · exact hw w (by simp) c h
      · exact hs c h
      · exact ih (fun x hx => hw x (by simp [hx])) c h

theorem renderParts_chars (ps : List (Nat × Option Nat)) :
    ∀ c ∈ Range.renderParts ps, isDigit c = true ∨ c = '-' ∨ c = ',' := by
  apply join_chars
  · intro c hc; simp at hc; exact Or.inr (Or.inr hc)
  · intro w hw c hc
    obtain ⟨p, _, rfl⟩ := List.mem_map.mp hw
    rcases renderPart_chars p c hc with h | h
    · exact Or.inl h
    · exact Or.inr (Or.inl h)

theorem renderParts_head (ps : List (Nat × Option Nat)) (hne : ps ≠ []) :
    ∃ c r, Range.renderParts ps = c :: r ∧ isDigit c = true := by
  cases ps with
  | nil => exact absurd rfl hne
  | cons p ps =>
    obtain ⟨lo, hi⟩ := p
    have hd : ∃ c r, toDec lo = c :: r ∧ isDigit c = true := by
      cases h : toDec lo with
      | nil => exact absurd h (Range.toDec_ne_nil lo)
      | cons c r => exact ⟨c, r, rfl, Range.toDec_digits lo c (by simp [h])⟩
    obtain ⟨c, r, hc, hdig⟩ := hd
    cases hi <;> cases ps <;> simp [Range.renderParts, Range.renderPart, join, hc] <;> exact hdig

theorem word_renderParts (ps : List (Nat × Option Nat)) (hne : ps ≠ []) : Word (Range.renderParts ps) := by
  obtain ⟨c, r, h, _⟩ := renderParts_head ps hne
  refine ⟨by rw [h]; simp, fun x hx => ?_⟩
  rcases renderParts_chars ps x hx with h | rfl | rfl
  · exact Range.isSpace_of_isDigit x h
  · decide
  · decide

theorem AllowedWord.word {v : Str} (h : AllowedWord v) : Word v := by
  cases h with
  | all => exact word_kw (by decide)
  | none => exact word_kw (by decide)
  | list ps hne => exact word_renderParts ps hne


def kw4 : List Str := [kSwitchport, kTrunk, kAllowed, kVlan]

/-- every command line other than `switchport trunk allowed vlan …` leaves the dictionary alone -/
theorem vdictStep_id (vd : VDict) (it : Item) (h : it.Valid) (hna : ∀ v, it ≠ .allowed v) :
    vdictStep vd it.render = vd := by
  have hw : ¬ it.words.take 4 = kw4 := by
    cases it
    case allowed v => exact absurd rfl (hna v)
    case other ws =>
      obtain ⟨_, w, rest, rfl, hk, _⟩ := h
      have : w ≠ kSwitchport := fun e => hk (e ▸ (by decide))
      rcases rest with _ | ⟨a, _ | ⟨b, _ | ⟨c, r⟩⟩⟩ <;> simp [Item.words, kw4, this]
    case descr ws => rcases ws with _ | ⟨a, _ | ⟨b, _ | ⟨c, r⟩⟩⟩ <;> simp (config := {decide := true}) [Item.words, kw4]
    case channelGroup n ws => rcases ws with _ | ⟨a, _ | ⟨b, r⟩⟩ <;> simp (config := {decide := true}) [Item.words, kw4]
    case mode m => rcases h with rfl | rfl <;> simp (config := {decide := true}) [Item.words, kw4]
    all_goals simp (config := {decide := true}) [Item.words, kw4]
  unfold vdictStep
  simp only [lex_render it h, map_fst_toksOf]
  exact if_neg hw

theorem strip_word (w : Str) (hw : Word w) : strip w = w := by
  obtain ⟨hne, hsp⟩ := hw
  have l : lstrip w = w := by
    cases w with
    | nil => rfl
    | cons c cs => simp [lstrip, List.dropWhile, hsp c (by simp)]
  unfold strip rstrip; rw [l]
  have : (w.reverse).dropWhile isSpace = w.reverse := by
    cases hr : w.reverse with
    | nil => rfl
    | cons c cs =>
      have : c ∈ w := by rw [← List.mem_reverse, hr]; simp
      simp [List.dropWhile, hsp c this]
  rw [this, List.reverse_reverse]

/-- the dictionary after the one `allowed vlan` line of the grammar -/
def vdAfter (v : Str) : VDict :=
  { allowed := if v = kNone then [] else if v = kAll then allVlans else v, add := none, exc := none, rem := none }

def vd0 : VDict := { allowed := allVlans, add := none, exc := none, rem := none }

theorem vdictStep_allowed (v : Str) (hv : AllowedWord v) :
    vdictStep vd0 (Item.allowed v).render = vdAfter v := by
  have hval : (Item.allowed v).Valid := hv.word
  unfold vdictStep
  simp only [lex_render _ hval, map_fst_toksOf]
  cases hv with
  | all => simp (config := {decide := true}) [Item.words, toksOf, allowedGroup, vd0, vdAfter, ind1]
  | none => simp (config := {decide := true}) [Item.words, toksOf, allowedGroup, vd0, vdAfter, ind1]
  | list ps hne =>
    obtain ⟨c, r, hc, hdig⟩ := renderParts_head ps hne
    have hchars := renderParts_chars ps
    have hne1 : ∀ k : Str, (∃ c' r', k = c' :: r' ∧ isDigit c' = false) → Range.renderParts ps ≠ k := by
      rintro k ⟨c', r', rfl, hc'⟩ e
      rw [hc] at e; cases e; rw [hdig] at hc'; cases hc'
    have n1 := hne1 kAdd ⟨_, _, rfl, by decide⟩
    have n2 := hne1 kExcept ⟨_, _, rfl, by decide⟩
    have n3 := hne1 kRemove ⟨_, _, rfl, by decide⟩
    have n4 := hne1 kAll ⟨_, _, rfl, by decide⟩
    have n5 := hne1 kNone ⟨_, _, rfl, by decide⟩
    have hall : (Range.renderParts ps).all isVlanChar = true := by
      rw [List.all_eq_true]; intro x hx
      rcases hchars x hx with h | rfl | rfl
      · simp [isVlanChar, h]
      · decide
      · decide
    have hg : vlanListGroup ind1 [(Range.renderParts ps, [])] = some (Range.renderParts ps) := by
      simp only [vlanListGroup, unlex, List.flatMap_cons, List.flatMap_nil, List.append_nil]
      rw [hc] at hall ⊢
      simp [ind1, hdig, hall]
    simp (config := {decide := true}) [Item.words, toksOf, n1, n2, n3, n4, n5, allowedGroup, hg, vd0, vdAfter, allVlans]


def specAllowed : Item → Option Str
  | .allowed v => some v
  | _ => none

theorem foldl_vdict_none (vd : VDict) (kids : List Item) (hv : ∀ it ∈ kids, it.Valid)
    (hn : kids.filterMap specAllowed = []) : (kids.map Item.render).foldl vdictStep vd = vd := by
  induction kids generalizing vd with
  | nil => rfl
  | cons k ks ih =>
    have hk : specAllowed k = none := by
      cases h : specAllowed k with
      | none => rfl
      | some v => simp [List.filterMap_cons, h] at hn
    have hna : ∀ v, k ≠ .allowed v := by intro v e; subst e; simp [specAllowed] at hk
    rw [List.filterMap_cons_none hk] at hn
    simp only [List.map_cons, List.foldl_cons, vdictStep_id vd k (hv k (by simp)) hna]
    exact ih vd (fun it hit => hv it (by simp [hit])) hn

theorem foldl_vdict_one (kids : List Item) (hv : ∀ it ∈ kids, it.Valid) (v : Str) (hw : AllowedWord v)
    (h1 : kids.filterMap specAllowed = [v]) : (kids.map Item.render).foldl vdictStep vd0 = vdAfter v := by
  induction kids with
  | nil => simp at h1
  | cons k ks ih =>
    have hv' := fun it hit => hv it (List.mem_cons_of_mem k hit)
    cases hk : specAllowed k with
    | none =>
      have hna : ∀ v, k ≠ .allowed v := by intro v e; subst e; simp [specAllowed] at hk
      rw [List.filterMap_cons_none hk] at h1
      simp only [List.map_cons, List.foldl_cons, vdictStep_id vd0 k (hv k (by simp)) hna]
      exact ih hv' h1
    | some v' =>
      rw [List.filterMap_cons_some hk] at h1
      have hvv : v' = v := by simpa using congrArg List.head? h1
      have hrest : ks.filterMap specAllowed = [] := by simpa using congrArg List.tail h1
      have hke : k = .allowed v := by cases k <;> simp_all [specAllowed]
      subst hke
      simp only [List.map_cons, List.foldl_cons, vdictStep_allowed v hw]
      exact foldl_vdict_none _ ks hv' hrest

theorem upto_sorted (lo hi : Nat) : (Range.upto lo hi).Pairwise (· < ·) := by
  unfold Range.upto
  rw [List.pairwise_map]
  exact (List.pairwise_lt_range).imp (fun h => by omega)

theorem parse_allVlans : Range.parse allVlans = .ok (Range.upto 1 4094) := by
  have h : allVlans = Range.renderParts [(1, some 4094)] := by decide +kernel
  rw [h, Range.parse_renderParts _ (by simp)]
  simp [Range.expandPart, Range.sortedSet_of_sorted _ (upto_sorted 1 4094)]

theorem strip_allVlans : strip allVlans = allVlans := strip_word _ (word_kw (by decide))

set_option maxRecDepth 100000 in
theorem applyVDict_vd0' (U : List Nat) (h1 : rangeOf allVlans = .ok U) (h2 : Range.sortedSet U = U) :
    applyVDict vd0 = .ok U := by
  simp [applyVDict, vd0, strip_allVlans, h1, h2, show allVlans ≠ [] by decide, bind, Except.bind, pure, Except.pure]

theorem applyVDict_vd0 : applyVDict vd0 = .ok (Range.upto 1 4094) :=
  applyVDict_vd0' _ (by rw [rangeOf, parse_allVlans]) (Range.sortedSet_of_sorted _ (upto_sorted 1 4094))

theorem applyVDict_none : applyVDict (vdAfter kNone) = .ok [] := by
  simp (config := {decide := true}) [applyVDict, vdAfter, strip, rstrip, lstrip, bind, Except.bind, pure, Except.pure]

theorem vdAfter_all : vdAfter kAll = vd0 := by
  simp (config := {decide := true}) [vdAfter, vd0]

theorem applyVDict_list (ps : List (Nat × Option Nat)) (hne : ps ≠ []) :
    applyVDict (vdAfter (Range.renderParts ps)) = .ok (Range.sortedSet (ps.flatMap Range.expandPart)) := by
  obtain ⟨c, r, hc, hdig⟩ := renderParts_head ps hne
  have hne1 : ∀ k : Str, (∃ c' r', k = c' :: r' ∧ isDigit c' = false) → Range.renderParts ps ≠ k := by
    rintro k ⟨c', r', rfl, hc'⟩ e
    rw [hc] at e; cases e; rw [hdig] at hc'; cases hc'
  have n4 := hne1 kAll ⟨_, _, rfl, by decide⟩
  have n5 := hne1 kNone ⟨_, _, rfl, by decide⟩
  have hnil : Range.renderParts ps ≠ [] := by rw [hc]; simp
  have hs := strip_word _ (word_renderParts ps hne)
  have hp := Range.parse_renderParts ps hne
  have hss := Range.sortedSet_of_sorted _ (Range.sortedSet_sorted (ps.flatMap Range.expandPart))
  simp only [applyVDict, vdAfter, n4, n5, if_false, hs, hnil, rangeOf, hp]
  by_cases ha : Range.renderParts ps = allVlans <;>
    simp [ha, hss, bind, Except.bind, pure, Except.pure, hnil]


section
variable {d : Desc} {others kids : List Item}

theorem items_allowed (ho : ∀ it ∈ others, ∃ ws, it = .other ws) :
    (d.items ++ others).filterMap specAllowed = d.allowed.toList := by
  fm_eval specAllowed ho

/-- the dictionary after the loop over the children -/
theorem foldl_vdict_stanza (st : Stanza d others kids) (hw : ∀ v, d.allowed = some v → AllowedWord v) :
    (kids.map Item.render).foldl vdictStep vd0 = (match d.allowed with | none => vd0 | some v => vdAfter v) := by
  have hp := st.perm.filterMap specAllowed
  rw [items_allowed st.unrelated] at hp
  cases ha : d.allowed with
  | none =>
    rw [ha] at hp
    exact foldl_vdict_none vd0 kids st.valid (List.Perm.eq_nil hp)
  | some v =>
    rw [ha] at hp
    exact foldl_vdict_one kids st.valid v (hw v ha) (List.perm_singleton.mp hp)

/-- **`trunk_vlans_allowed`.**  Not a switchport, or `switchport mode access`: empty.  Otherwise:
no `allowed vlan` line or `all`: `1 … 4094`; `none`: empty; a list of `lo` / `lo-hi` parts:
the sorted union of the parts (through C14's `Ccp.Range.parse`). -/
theorem trunkVlansAllowed_stanza (st : Stanza d others kids) (hdr : Str)
    (hw : ∀ v, d.allowed = some v → AllowedWord v) :
    (d.isSw = false ∨ d.mode = some kAccess → trunkVlansAllowed (flatFam hdr kids) = .ok []) ∧
    (d.isSw = true → d.mode ≠ some kAccess →
      (d.allowed = none ∨ d.allowed = some kAll → trunkVlansAllowed (flatFam hdr kids) = .ok (Range.upto 1 4094)) ∧
      (d.allowed = some kNone → trunkVlansAllowed (flatFam hdr kids) = .ok []) ∧
      (∀ ps, ps ≠ [] → d.allowed = some (Range.renderParts ps) →
        trunkVlansAllowed (flatFam hdr kids) = .ok (Range.sortedSet (ps.flatMap Range.expandPart)))) := by
  have hsw := isSwitchport_stanza st hdr
  have hacc := (hasManualSwitch_stanza st hdr).1
  have hfold := foldl_vdict_stanza st hw
  have hkids : (flatFam hdr kids).kids = kids.map Item.render := rfl
  constructor
  · intro h
    unfold trunkVlansAllowed
    rw [hsw, hacc]
    rcases h with h | h
    · have : d.isSw = false := h
      simp [Desc.isSw] at this
      simp [this]
    · simp [h]
  · intro h1 h2
    have hgo : trunkVlansAllowed (flatFam hdr kids) =
        applyVDict (match d.allowed with | none => vd0 | some v => vdAfter v) := by
      unfold trunkVlansAllowed
      rw [hsw, hacc]
      have : d.isSw = true := h1
      simp only [Desc.isSw] at this
      simp only [this, h2, decide_false, Bool.not_false, Bool.and_self, if_true, hkids]
      exact congrArg applyVDict hfold
    refine ⟨?_, ?_, ?_⟩
    · rintro (h | h) <;> rw [hgo, h]
      · exact applyVDict_vd0
      · simp only [vdAfter_all]; exact applyVDict_vd0
    · intro h; rw [hgo, h]; exact applyVDict_none
    · intro ps hne h; rw [hgo, h]; exact applyVDict_list ps hne
end

/-! ### the interface line: `port_type`, `ordinal_list` -/

theorem kInterface_chars : kInterface = ['i', 'n', 't', 'e', 'r', 'f', 'a', 'c', 'e'] := by decide

/-- the header with a one-word name -/
theorem hdr1_eq (s : Str) : line [] [kInterface, s] = kInterface ++ ' ' :: s := by
  simp [line, join]

theorem isIntf_hdr (c : Char) (r : Str) (hc : isSpace c = false) (rest : Str) :
    isIntf (kInterface ++ ' ' :: c :: r ++ rest) = some true := by
  have : c ≠ ' ' := by intro e; subst e; revert hc; decide
  simp [isIntf, kInterface_chars, this]

theorem wordsOf_hdr1 (s : Str) (hs : Word s) : wordsOf (line [] [kInterface, s]) = [kInterface, s] := by
  unfold wordsOf
  rw [lex_line [] _ (by simp) (by
    intro x hx; simp at hx; rcases hx with rfl | rfl
    · exact word_kw (by decide)
    · exact hs), map_fst_toksOf]

/-- `ordinal_list` of `interface <name>`: the components C15's parser reads from the name,
`-1` for an absent one and for the class word -/
theorem ordinalList_hdr (s : Str) (hs : Word s) (i : Intf.Intf) (hp : Intf.parse s = .ok i) :
    ordinalList (line [] [kInterface, s]) =
      some [optI i.slot, optI i.card, Int.ofNat i.port, optI i.sub, optI i.chan, -1] := by
  obtain ⟨hne, hsp⟩ := hs
  cases s with
  | nil => exact absurd rfl hne
  | cons c r =>
    have hint : isIntf (line [] [kInterface, c :: r]) = some true := by
      rw [hdr1_eq]
      simpa using isIntf_hdr c r (hsp c (by simp)) []
    unfold ordinalList
    rw [hint, wordsOf_hdr1 _ ⟨hne, hsp⟩]
    simp [hp]

theorem alphaHyphen_not_space (c : Char) (h : isAlphaHyphen c = true) : isSpace c = false := by
  have : ∀ k : Fin 123, 45 ≤ k.val → Gen.whitespace.contains k.val = false := by decide
  unfold isAlphaHyphen at h
  have hb : 45 ≤ c.toNat ∧ c.toNat < 123 := by
    simp only [Bool.or_eq_true, Bool.and_eq_true, decide_eq_true_eq] at h
    rcases h with (h | h) | h
    · omega
    · omega
    · subst h; decide
  exact this ⟨c.toNat, hb.2⟩ hb.1

/-- `port_type` of `interface <prefix><number part> …`: the prefix, when it is a non-empty run of
letters / hyphens and what follows starts with no letter or hyphen (a digit) -/
theorem portType_hdr (p rest : Str) (hp : p ≠ []) (hpc : ∀ c ∈ p, isAlphaHyphen c = true)
    (hr : ∀ c, rest.head? = some c → isAlphaHyphen c = false) :
    portType (kInterface ++ ' ' :: p ++ rest) = p := by
  cases p with
  | nil => exact absurd rfl hp
  | cons c p' =>
    have hc : isSpace c = false := alphaHyphen_not_space c (hpc c (by simp))
    have h1 : afterInterface (kInterface ++ ' ' :: (c :: p') ++ rest) = some ((c :: p') ++ rest) := by
      have hsp : isSpace ' ' = true := by decide
      simp [afterInterface, kInterface_chars, List.isPrefixOf, hsp, List.dropWhile, hc]
    unfold portType
    rw [h1]
    show List.takeWhile isAlphaHyphen ((c :: p') ++ rest) = c :: p'
    rw [List.takeWhile_append_of_pos hpc]
    cases rest with
    | nil => simp
    | cons x xs => simp [List.takeWhile, hr x rfl]

/-! ### `subinterface_number`, `interface_number`: the lazy groups -/

theorem tail2_nonspace (c : Char) (r : Str) (hc : isSpace c = false) : tail2 (c :: r) = false := by
  unfold tail2
  rw [lex_cons_nonspace c r hc]
  obtain ⟨g, ts⟩ := lex r
  cases g <;> cases ts <;> simp [consWord]

def TailOk (tl : Str) : Prop := tl = [] ∨ (∃ t, tl = ' ' :: t) ∧ tail2 tl = true

theorem tailOk_tail2 (tl : Str) (h : TailOk tl) : tail2 tl = true := by
  rcases h with rfl | ⟨_, h⟩
  · simp [tail2, lex]
  · exact h

theorem lazySub_cons (acc : Str) (c : Char) (r : Str) :
    lazySub acc (c :: r) = (match subEnd (c :: r) with | some e => acc ++ e | none => lazySub (acc ++ [c]) r) := by
  rw [lazySub]; rfl

/-- `subEnd` on a text whose first two characters are no whitespace -/
theorem subEnd_two (x y : Char) (rest : Str) (hx : isSpace x = false) (hy : isSpace y = false) :
    subEnd (x :: y :: rest) =
      if x = '.' ∧ isDigit y = true ∧ tail2 rest = true then some ['.', y] else none := by
  have h1 := tail2_nonspace x (y :: rest) hx
  have h2 := tail2_nonspace y rest hy
  by_cases hdot : x = '.'
  · subst hdot; simp [subEnd, h2]
  · unfold subEnd
    split
    · rename_i heq; cases heq; exact absurd rfl hdot
    · rename_i heq; cases heq
    · rename_i d r2 _ _ heq; cases heq; simp [h1, h2, hdot]
    · rename_i heq; cases heq

/-- `subEnd` on one non-whitespace character followed by the tail -/
theorem subEnd_one (x : Char) (tl : Str) (hx : isSpace x = false) (ht : TailOk tl) :
    subEnd (x :: tl) = if x = '.' then some ['.'] else if isDigit x = true then some [x] else none := by
  have h1 := tail2_nonspace x tl hx
  have h2 := tailOk_tail2 tl ht
  have hd' : isDigit ' ' = false := by decide
  rcases ht with rfl | ⟨⟨t, rfl⟩, _⟩
  · by_cases hdot : x = '.'
    · subst hdot; simp [subEnd]
    · unfold subEnd
      split
      · rename_i heq; cases heq
      · rename_i heq; cases heq; exact absurd rfl hdot
      · rename_i d r2 _ _ heq; cases heq; simp [h1, h2, hdot]
      · rename_i heq; cases heq
  · by_cases hdot : x = '.'
    · subst hdot; simp [subEnd, hd', h2]
    · unfold subEnd
      split
      · rename_i heq; cases heq; exact absurd rfl hdot
      · rename_i heq; cases heq
      · rename_i d r2 _ _ heq; cases heq; simp [h1, h2, hdot]
      · rename_i heq; cases heq

theorem subEnd_tail (tl : Str) (h : TailOk tl) : subEnd tl = some [] := by
  have h2 := tailOk_tail2 tl h
  rcases h with rfl | ⟨⟨t, rfl⟩, _⟩
  · rfl
  · have hd : isDigit ' ' = false := by decide
    unfold subEnd
    split
    · rename_i heq; cases heq
    · rename_i heq; cases heq
    · rename_i d r2 _ _ heq; cases heq; simp [hd, h2]
    · rename_i heq; cases heq

theorem lazySub_tail (acc tl : Str) (ht : TailOk tl) : lazySub acc tl = acc := by
  cases tl with
  | nil => rfl
  | cons c r => rw [lazySub_cons, subEnd_tail _ ht]; simp

/-- the lazy group of `subinterface_number` runs to the end of the number word -/
theorem lazySub_all (r : Str) (hr : ∀ c ∈ r, isSpace c = false) (tl : Str) (ht : TailOk tl) (acc : Str) :
    lazySub acc (r ++ tl) = acc ++ r := by
  induction r generalizing acc with
  | nil => simpa using lazySub_tail acc tl ht
  | cons x r ih =>
    have hx := hr x (by simp)
    have ih' := ih (fun c hc => hr c (by simp [hc]))
    cases r with
    | nil =>
      simp only [List.cons_append, List.nil_append] at ih' ⊢
      rw [lazySub_cons, subEnd_one x tl hx ht]
      by_cases hdot : x = '.'
      · simp [hdot]
      · by_cases hd : isDigit x = true
        · simp [hdot, hd]
        · simp [hdot, hd, lazySub_tail _ tl ht]
    | cons y r' =>
      have hy := hr y (by simp)
      simp only [List.cons_append] at ih' ⊢
      rw [lazySub_cons, subEnd_two x y _ hx hy]
      by_cases hstop : x = '.' ∧ isDigit y = true ∧ tail2 (r' ++ tl) = true
      · have hr' : r' = [] := by
          cases r' with
          | nil => rfl
          | cons z zs =>
            have := tail2_nonspace z (zs ++ tl) (hr z (by simp))
            simp [this] at hstop
        subst hr'
        obtain ⟨h1, h2, h3⟩ := hstop
        subst h1
        simp only [List.nil_append] at h3
        simp [h2, h3]
      · simp only [hstop, if_false]
        rw [ih']; simp


theorem dropWhile_append_stop {α : Type} (p : α → Bool) (l r : List α) (hl : ∀ x ∈ l, p x = true)
    (hr : ∀ x, r.head? = some x → p x = false) : (l ++ r).dropWhile p = r := by
  induction l with
  | nil =>
    cases r with
    | nil => rfl
    | cons x xs => simp [List.dropWhile, hr x rfl]
  | cons a l ih => simp [List.dropWhile, hl a (by simp), ih (fun x hx => hl x (by simp [hx]))]

theorem takeWhile_append_stop {α : Type} (p : α → Bool) (l r : List α) (hl : ∀ x ∈ l, p x = true)
    (hr : ∀ x, r.head? = some x → p x = false) : (l ++ r).takeWhile p = l := by
  induction l with
  | nil =>
    cases r with
    | nil => rfl
    | cons x xs => simp [List.takeWhile, hr x rfl]
  | cons a l ih => simp [List.takeWhile, hl a (by simp), ih (fun x hx => hl x (by simp [hx]))]

/-- **`subinterface_number`** of `interface <prefix><digits><more>[ <class words>]`: the whole number
word `digits ++ more` (e.g. `2/0.100`, `1/0:3.7`), for a letters/hyphen prefix, a non-empty digit
run, `more` without whitespace and not starting with a digit, and a tail the pattern accepts. -/
theorem subinterfaceNumber_hdr (p ds more tl : Str) (hp : p ≠ []) (hpc : ∀ c ∈ p, isAlphaHyphen c = true)
    (hds : ds ≠ []) (hdd : ∀ c ∈ ds, isDigit c = true)
    (hm : ∀ c ∈ more, isSpace c = false) (hmh : ∀ c, more.head? = some c → isDigit c = false)
    (ht : TailOk tl) :
    subinterfaceNumber (kInterface ++ ' ' :: p ++ (ds ++ more ++ tl)) = some (ds ++ more) := by
  obtain ⟨c, p', rfl⟩ : ∃ c p', p = c :: p' := by cases p with | nil => exact absurd rfl hp | cons c p' => exact ⟨c, p', rfl⟩
  obtain ⟨d0, ds', rfl⟩ : ∃ d0 ds', ds = d0 :: ds' := by cases ds with | nil => exact absurd rfl hds | cons a b => exact ⟨a, b, rfl⟩
  have hc : isSpace c = false := alphaHyphen_not_space c (hpc c (by simp))
  have hd0 : isDigit d0 = true := hdd d0 (by simp)
  have hd0a : isAlphaHyphen d0 = false := by
    unfold isDigit at hd0; unfold isAlphaHyphen
    simp only [Bool.and_eq_true, decide_eq_true_eq] at hd0
    have : d0 ≠ '-' := by intro e; subst e; simp at hd0
    simp [this]; omega
  have hint : isIntf (kInterface ++ ' ' :: (c :: p') ++ (d0 :: ds' ++ more ++ tl)) = some true := by
    have := isIntf_hdr c p' hc (d0 :: ds' ++ more ++ tl)
    simpa using this
  have hsp : isSpace ' ' = true := by decide
  have haft : afterInterface (kInterface ++ ' ' :: (c :: p') ++ (d0 :: ds' ++ more ++ tl)) =
      some ((c :: p') ++ (d0 :: ds' ++ more ++ tl)) := by
    simp [afterInterface, kInterface_chars, List.isPrefixOf, hsp, List.dropWhile, hc]
  have hrest : ∀ x, (d0 :: ds' ++ more ++ tl).head? = some x → isAlphaHyphen x = false := by
    intro x hx; simp at hx; subst hx; exact hd0a
  have hnp : numberPart (kInterface ++ ' ' :: (c :: p') ++ (d0 :: ds' ++ more ++ tl)) = some (d0 :: ds' ++ more ++ tl) := by
    unfold numberPart
    rw [haft]
    simp only
    rw [takeWhile_append_stop _ _ _ hpc hrest, dropWhile_append_stop _ _ _ hpc hrest]
    have : isSpace d0 = false := Range.isSpace_of_isDigit d0 hd0
    simp [List.dropWhile, this, hd0]
  -- the digit run stops at `more` (or at the tail)
  have hstop : ∀ x, (more ++ tl).head? = some x → isDigit x = false := by
    intro x hx
    cases more with
    | nil =>
      rcases ht with rfl | ⟨⟨t, rfl⟩, _⟩
      · simp at hx
      · simp at hx; subst hx; decide
    | cons m ms => simp at hx; subst hx; exact hmh m rfl
  unfold subinterfaceNumber
  rw [hint, hnp]
  simp only
  have e : d0 :: ds' ++ more ++ tl = (d0 :: ds') ++ (more ++ tl) := by simp
  rw [e, takeWhile_append_stop _ _ _ hdd hstop, dropWhile_append_stop _ _ _ hdd hstop,
    lazySub_all more hm tl ht]


/-! ### `interface_number` -/

theorem tail1_false (n : Nat) (x : Char) (rest : Str) (hx : isSpace x = false) (hdot : x ≠ '.') :
    tail1 n (x :: rest) = false := by
  cases n with
  | zero => simpa [tail1] using tail2_nonspace x rest hx
  | succ n =>
    rw [tail1]
    · simp [tail2_nonspace x rest hx]
    · intro r1 he; cases he; exact hdot rfl

theorem tail1_tail (n : Nat) (tl : Str) (ht : TailOk tl) : tail1 n tl = true := by
  cases n <;> simp [tail1, tailOk_tail2 tl ht]

/-- the optional `.sub` suffix -/
def dotSub : Option Str → Str
  | some sub => '.' :: sub
  | none => []

theorem tail1_dotSub (n : Nat) (sub : Option Str) (tl : Str) (ht : TailOk tl)
    (hs : ∀ s, sub = some s → s ≠ [] ∧ ∀ c ∈ s, isDigit c = true) (hn : 1 ≤ n) :
    tail1 n (dotSub sub ++ tl) = true := by
  cases sub with
  | none => simpa [dotSub] using tail1_tail n tl ht
  | some s =>
    obtain ⟨hne, hd⟩ := hs s rfl
    have hstop : ∀ x, tl.head? = some x → isDigit x = false := by
      intro x hx
      rcases ht with rfl | ⟨⟨t, rfl⟩, _⟩
      · simp at hx
      · simp at hx; subst hx; decide
    obtain ⟨m, rfl⟩ : ∃ m, n = m + 1 := ⟨n - 1, by omega⟩
    simp only [dotSub, List.cons_append]
    rw [tail1]
    simp only [takeWhile_append_stop _ _ _ hd hstop, dropWhile_append_stop _ _ _ hd hstop, tail1_tail m tl ht]
    cases s with
    | nil => exact absurd rfl hne
    | cons a b => simp

theorem lazyNum_mid (mid rem : Str) (hm : ∀ c ∈ mid, isSpace c = false ∧ c ≠ '.')
    (hrem : rem = [] ∨ tail1 rem.length rem = true) (acc : Str) :
    lazyNum acc (mid ++ rem) = acc ++ mid := by
  induction mid generalizing acc with
  | nil =>
    simp only [List.nil_append, List.append_nil]
    cases rem with
    | nil => rfl
    | cons c r =>
      rcases hrem with h | h
      · cases h
      · have h' : tail1 (r.length + 1) (c :: r) = true := by simpa using h
        simp [lazyNum, h']
  | cons x mid ih =>
    have hx := hm x (by simp)
    simp only [List.cons_append]
    rw [lazyNum, tail1_false _ x _ hx.1 hx.2]
    simp only [Bool.false_eq_true, if_false]
    rw [ih (fun c hc => hm c (by simp [hc]))]; simp

/-- **`interface_number`** of `interface <prefix><digits><mid>[.<sub>][ <class words>]`: the number
word without the trailing subinterface, `digits ++ mid` (e.g. `2/0` for `2/0.100`, `1/0:3` for
`1/0:3.7`), where `mid` has no whitespace and no dot and does not start with a digit. -/
theorem interfaceNumber_hdr (p ds mid tl : Str) (sub : Option Str) (hp : p ≠ [])
    (hpc : ∀ c ∈ p, isAlphaHyphen c = true) (hds : ds ≠ []) (hdd : ∀ c ∈ ds, isDigit c = true)
    (hm : ∀ c ∈ mid, isSpace c = false ∧ c ≠ '.') (hmh : ∀ c, mid.head? = some c → isDigit c = false)
    (hs : ∀ s, sub = some s → s ≠ [] ∧ ∀ c ∈ s, isDigit c = true) (ht : TailOk tl) :
    interfaceNumber (kInterface ++ ' ' :: p ++ (ds ++ (mid ++ (dotSub sub ++ tl)))) = some (ds ++ mid) := by
  obtain ⟨c, p', rfl⟩ : ∃ c p', p = c :: p' := by cases p with | nil => exact absurd rfl hp | cons c p' => exact ⟨c, p', rfl⟩
  obtain ⟨d0, ds', rfl⟩ : ∃ d0 ds', ds = d0 :: ds' := by cases ds with | nil => exact absurd rfl hds | cons a b => exact ⟨a, b, rfl⟩
  have hc : isSpace c = false := alphaHyphen_not_space c (hpc c (by simp))
  have hd0 : isDigit d0 = true := hdd d0 (by simp)
  have hd0a : isAlphaHyphen d0 = false := by
    unfold isDigit at hd0; unfold isAlphaHyphen
    simp only [Bool.and_eq_true, decide_eq_true_eq] at hd0
    have : d0 ≠ '-' := by intro e; subst e; simp at hd0
    simp [this]; omega
  have hint : isIntf (kInterface ++ ' ' :: (c :: p') ++ (d0 :: ds' ++ (mid ++ (dotSub sub ++ tl)))) = some true := by
    have := isIntf_hdr c p' hc (d0 :: ds' ++ (mid ++ (dotSub sub ++ tl)))
    simpa using this
  have hsp : isSpace ' ' = true := by decide
  have haft : afterInterface (kInterface ++ ' ' :: (c :: p') ++ (d0 :: ds' ++ (mid ++ (dotSub sub ++ tl)))) =
      some ((c :: p') ++ (d0 :: ds' ++ (mid ++ (dotSub sub ++ tl)))) := by
    simp [afterInterface, kInterface_chars, List.isPrefixOf, hsp, List.dropWhile, hc]
  have hrest : ∀ x, (d0 :: ds' ++ (mid ++ (dotSub sub ++ tl))).head? = some x → isAlphaHyphen x = false := by
    intro x hx; simp at hx; subst hx; exact hd0a
  have hnp : numberPart (kInterface ++ ' ' :: (c :: p') ++ (d0 :: ds' ++ (mid ++ (dotSub sub ++ tl)))) =
      some (d0 :: ds' ++ (mid ++ (dotSub sub ++ tl))) := by
    unfold numberPart
    rw [haft]
    simp only
    rw [takeWhile_append_stop _ _ _ hpc hrest, dropWhile_append_stop _ _ _ hpc hrest]
    have : isSpace d0 = false := Range.isSpace_of_isDigit d0 hd0
    simp [List.dropWhile, this, hd0]
  have hstop : ∀ x, (mid ++ (dotSub sub ++ tl)).head? = some x → isDigit x = false := by
    intro x hx
    cases mid with
    | cons m ms => simp at hx; subst hx; exact hmh m rfl
    | nil =>
      cases sub with
      | some s => simp [dotSub] at hx; subst hx; decide
      | none =>
        rcases ht with rfl | ⟨⟨t, rfl⟩, _⟩
        · simp [dotSub] at hx
        · simp [dotSub] at hx; subst hx; decide
  have hrem : (dotSub sub ++ tl) = [] ∨ tail1 (dotSub sub ++ tl).length (dotSub sub ++ tl) = true := by
    by_cases he : (dotSub sub ++ tl) = []
    · exact Or.inl he
    · right
      apply tail1_dotSub _ sub tl ht hs
      cases h : (dotSub sub ++ tl) with
      | nil => exact absurd h he
      | cons a b => simp
  unfold interfaceNumber
  rw [hint, hnp]
  simp only
  rw [takeWhile_append_stop _ _ _ hdd hstop, dropWhile_append_stop _ _ _ hdd hstop,
    lazyNum_mid mid _ hm hrem]

end Ccp.Ios
