import Ccp.Proofs.EditLinks
import Ccp.Proofs.TreeKeep
/-!
Parent links after an edit, second part (C06 deepening): the *exact* frame condition of the
indentation rule (`specParent`, C02) for the insertion of one line at an arbitrary position —
which old lines change parent (`capturedBy`), and that all others keep theirs — with the
corollaries for a line placed next to a line of the same indent and for a child-level line
placed directly below a childless line.  Core Lean only.
-/
namespace Ccp.Tree
open Ccp.Py

/-- the index shift caused by inserting one line at position `c` -/
def shiftAt (c p : Nat) : Nat := if p < c then p else p + 1

theorem shiftAfter_eq_shiftAt (e p : Nat) : shiftAfter e p = shiftAt (e + 1) p := by
  unfold shiftAfter shiftAt
  by_cases h : p ≤ e
  · rw [if_pos h, if_pos (by omega)]
  · rw [if_neg h, if_neg (by omega)]

/-- **who is captured by a line `x` inserted at position `c`**: the old line `j` (`c ≤ j`) is
attached (not a root by the comment rule), `x` is a configuration line indented less than
`j`, and `j`'s parent lies above the insertion point or `j` found no parent at all -/
def capturedBy (infos : List Info) (x : Info) (c j : Nat) : Bool :=
  match infos[j]? with
  | some l =>
    x.isCfg && decide (x.indent < l.indent) && !commentUnderDeeper infos j &&
      (decide (specParent infos j < c) || decide (specParent infos j = j))
  | none => false

/-- the comment-under-a-deeper-line status of an old line behind the insertion point is
undisturbed unless it is a comment directly behind the new line -/
theorem commentUnderDeeper_insert (infos : List Info) (x : Info) (c : Nat) (hc : c ≤ infos.length)
    (j : Nat) (l : Info) (hcj : c ≤ j) (hl : infos[j]? = some l) (hcm : ¬ (j = c ∧ l.isCmt = true)) :
    commentUnderDeeper (infos.take c ++ x :: infos.drop c) (j + 1) = commentUnderDeeper infos j := by
  obtain ⟨_, _, _, _, hpost⟩ := Ccp.Edit.inserted_frame infos c x hc
  have hnl : (infos.take c ++ x :: infos.drop c)[j + 1]? = some l := by rw [hpost j hcj, hl]
  by_cases hcmt : l.isCmt = true
  · have hne : j ≠ c := fun h => hcm ⟨h, hcmt⟩
    obtain ⟨j', rfl⟩ : ∃ j', j = j' + 1 := ⟨j - 1, by omega⟩
    unfold commentUnderDeeper
    simp only [hnl, hl]
    rw [hpost j' (by omega)]
  · have hc' : l.isCmt = false := by simpa using hcmt
    unfold commentUnderDeeper
    cases j with
    | zero => simp [hnl, hc']
    | succ j' => simp [hnl, hl, hc']

/-- **Insertion of one line, exact frame condition (specification level).**  `x` is put at
position `c` of `infos`.  A line above `c` keeps its parent.  A line `j` at or below `c` —
other than a comment directly behind the new line, whose attachment depends on the line
above it — gets the new line as parent when it is captured (`capturedBy`), and otherwise
keeps its parent, shifted by one where that lies at or below `c`. -/
theorem specParent_insert (infos : List Info) (x : Info) (c : Nat) (hc : c ≤ infos.length) :
    (∀ j, j < c → specParent (infos.take c ++ x :: infos.drop c) j = specParent infos j) ∧
    (∀ j l, c ≤ j → infos[j]? = some l → ¬ (j = c ∧ l.isCmt = true) →
      specParent (infos.take c ++ x :: infos.drop c) (j + 1)
        = if capturedBy infos x c j = true then c else shiftAt c (specParent infos j)) := by
  have hf := Ccp.Edit.inserted_frame infos c x hc
  obtain ⟨_, hxat, _, hpre, hpost⟩ := hf
  refine ⟨fun j hj => specParent_congr _ infos j (fun m hm => hpre m (by omega)), ?_⟩
  intro j l hcj hl hcm
  have hnl : (infos.take c ++ x :: infos.drop c)[j + 1]? = some l := by rw [hpost j hcj, hl]
  have hcud := commentUnderDeeper_insert infos x c hc j l hcj hl hcm
  have hold : specParent infos j = if l.indent = 0 ∨ commentUnderDeeper infos j = true then j
      else (nearestShallower infos l.indent j).getD j := by
    unfold specParent; rw [hl]
  have hnew : specParent (infos.take c ++ x :: infos.drop c) (j + 1)
      = if l.indent = 0 ∨ commentUnderDeeper infos j = true then j + 1
        else (nearestShallower (infos.take c ++ x :: infos.drop c) l.indent (j + 1)).getD (j + 1) := by
    unfold specParent; rw [hnl]; simp only [hcud]
  have hcap : capturedBy infos x c j = (x.isCfg && decide (x.indent < l.indent) && !commentUnderDeeper infos j &&
      (decide (specParent infos j < c) || decide (specParent infos j = j))) := by
    unfold capturedBy; rw [hl]
  rw [hnew, hcap, hold]
  by_cases hroot : l.indent = 0 ∨ commentUnderDeeper infos j = true
  · simp only [hroot, if_true]
    have : (x.isCfg && decide (x.indent < l.indent) && !commentUnderDeeper infos j) = false := by
      rcases hroot with h | h
      · simp [h]
      · simp [h]
    simp only [this, Bool.false_and, Bool.false_eq_true, if_false, shiftAt]
    rw [if_neg (by omega)]
  · simp only [hroot, if_false]
    have hcf : commentUnderDeeper infos j = false := by
      cases h : commentUnderDeeper infos j
      · rfl
      · exact absurd (Or.inr h) hroot
    obtain ⟨d, rfl⟩ : ∃ d, j = c + d := ⟨j - c, by omega⟩
    rw [nearestShallower_insert infos x c hc l.indent d]
    cases hn : nearestShallower infos l.indent (c + d) with
    | none =>
      simp only [Option.getD_none]
      by_cases hq : x.isCfg = true ∧ x.indent < l.indent
      · simp [hq.1, hq.2, hcf]
      · have : (x.isCfg && decide (x.indent < l.indent)) = false := by
          cases h1 : x.isCfg
          · rfl
          · simp only [h1, true_and] at hq; simp [hq]
        simp only [hq, if_false, Option.getD_none, this, Bool.false_and, Bool.false_eq_true, shiftAt]
        rw [if_neg (by omega)]
    | some p =>
      have hp := ((nearestShallower_eq_some infos l.indent (c + d) p).mp hn).1
      simp only [Option.getD_some]
      by_cases hcp : c ≤ p
      · simp only [hcp, if_true, Option.getD_some]
        have h1 : decide (p < c) = false := by simp; omega
        have h2 : decide (p = c + d) = false := by simp; omega
        simp only [h1, h2, Bool.or_false, Bool.and_false, Bool.false_eq_true, if_false, shiftAt]
        rw [if_neg (by omega)]
      · simp only [hcp, if_false]
        have h1 : decide (p < c) = true := by simp; omega
        by_cases hq : x.isCfg = true ∧ x.indent < l.indent
        · simp [hq.1, hq.2, hcf, h1]
        · have : (x.isCfg && decide (x.indent < l.indent)) = false := by
            cases h1 : x.isCfg
            · rfl
            · simp only [h1, true_and] at hq; simp [hq]
          simp only [hq, if_false, Option.getD_some, this, Bool.false_and, Bool.false_eq_true, shiftAt]
          rw [if_pos (by omega)]

/-- the new line itself gets the parent it would get as the last line of the first `c` lines -/
theorem specParent_insert_new (infos : List Info) (x : Info) (c : Nat) (hc : c ≤ infos.length) :
    specParent (infos.take c ++ x :: infos.drop c) c = specParent (infos.take c ++ [x]) c := by
  apply specParent_congr
  intro m hm
  have hl : (infos.take c).length = c := by simp; omega
  by_cases hmc : m < c
  · rw [List.getElem?_append_left (by omega), List.getElem?_append_left (by omega)]
  · have : m = c := by omega
    subst this
    rw [List.getElem?_append_right (by omega), List.getElem?_append_right (by omega)]
    simp [hl]

/-- **captured lines, without reference to the old parents**: `j` (at or below `c`) is
captured by `x` exactly when `x` is a configuration line indented less than `j`, `j` is not a
comment left unattached under a deeper line, and no configuration line between the
insertion point and `j` is indented less than `j` — the lines of the stretch directly behind
the new line that are deeper than it and were attached above it (or nowhere). -/
theorem capturedBy_iff (infos : List Info) (x : Info) (c j : Nat) (l : Info)
    (hl : infos[j]? = some l) :
    capturedBy infos x c j = true ↔
      x.isCfg = true ∧ x.indent < l.indent ∧ commentUnderDeeper infos j = false ∧
      ∀ m lm, c ≤ m → m < j → infos[m]? = some lm → lm.isCfg = true → l.indent ≤ lm.indent := by
  have hcap : capturedBy infos x c j = (x.isCfg && decide (x.indent < l.indent) && !commentUnderDeeper infos j &&
      (decide (specParent infos j < c) || decide (specParent infos j = j))) := by
    unfold capturedBy; rw [hl]
  rw [hcap]
  simp only [Bool.and_eq_true, Bool.or_eq_true, decide_eq_true_eq, Bool.not_eq_true']
  constructor
  · rintro ⟨⟨⟨h1, h2⟩, h3⟩, h4⟩
    refine ⟨h1, h2, h3, ?_⟩
    have hroot : ¬ (l.indent = 0 ∨ commentUnderDeeper infos j = true) := by
      rintro (h | h)
      · omega
      · rw [h3] at h; cases h
    have hsp : specParent infos j = (nearestShallower infos l.indent j).getD j := by
      unfold specParent; rw [hl]; simp only [hroot, if_false]
    intro m lm hcm hmj hlm hcfg
    apply Classical.byContradiction
    intro hlt
    cases hn : nearestShallower infos l.indent j with
    | none =>
      exact (nearestShallower_eq_none infos l.indent j).mp hn m lm hmj hlm ⟨hcfg, by omega⟩
    | some p =>
      rw [hsp, hn] at h4
      simp only [Option.getD_some] at h4
      obtain ⟨hp1, _, hp3⟩ := (nearestShallower_eq_some infos l.indent j p).mp hn
      rcases h4 with h4 | h4
      · exact hp3 m lm (by omega) hmj hlm ⟨hcfg, by omega⟩
      · omega
  · rintro ⟨h1, h2, h3, h4⟩
    refine ⟨⟨⟨h1, h2⟩, h3⟩, ?_⟩
    have hroot : ¬ (l.indent = 0 ∨ commentUnderDeeper infos j = true) := by
      rintro (h | h)
      · omega
      · rw [h3] at h; cases h
    have hsp : specParent infos j = (nearestShallower infos l.indent j).getD j := by
      unfold specParent; rw [hl]; simp only [hroot, if_false]
    rw [hsp]
    cases hn : nearestShallower infos l.indent j with
    | none => right; rfl
    | some p =>
      left
      simp only [Option.getD_some]
      obtain ⟨hp1, ⟨lp, hp2, hp3, hp4⟩, _⟩ := (nearestShallower_eq_some infos l.indent j p).mp hn
      apply Classical.byContradiction
      intro hge
      have := h4 p lp (by omega) hp1 hp2 hp3
      omega

theorem specParent_le (infos : List Info) (j : Nat) : specParent infos j ≤ j := by
  unfold specParent
  split
  · exact Nat.le_refl _
  · split
    · exact Nat.le_refl _
    · rename_i l _ _
      cases hn : nearestShallower infos l.indent j with
      | none => exact Nat.le_refl _
      | some p =>
        have := ((nearestShallower_eq_some infos l.indent j p).mp hn).1
        simp only [Option.getD_some]; omega

/-- a line that is its own `specParent`'s child is attached: not a root by either rule, and
its parent is the nearest shallower configuration line -/
theorem specParent_ne_self {infos : List Info} {j p : Nat} {l : Info} (hl : infos[j]? = some l)
    (hp : specParent infos j = p) (hne : p ≠ j) :
    l.indent ≠ 0 ∧ commentUnderDeeper infos j = false ∧ nearestShallower infos l.indent j = some p := by
  have hold : specParent infos j = if l.indent = 0 ∨ commentUnderDeeper infos j = true then j
      else (nearestShallower infos l.indent j).getD j := by
    unfold specParent; rw [hl]
  rw [hold] at hp
  by_cases hroot : l.indent = 0 ∨ commentUnderDeeper infos j = true
  · rw [if_pos hroot] at hp; exact absurd hp.symm hne
  · rw [if_neg hroot] at hp
    refine ⟨fun h => hroot (.inl h), ?_, ?_⟩
    · cases h : commentUnderDeeper infos j
      · rfl
      · exact absurd (Or.inr h) hroot
    · cases hn : nearestShallower infos l.indent j with
      | none => rw [hn] at hp; exact absurd hp.symm hne
      | some q => rw [hn] at hp; simp only [Option.getD_some] at hp; rw [hp]

/-- **a line placed directly below a configuration line `h` that is not indented deeper than
it** (`c = h + 1`) captures exactly the children of `h` that are deeper than the new line -/
theorem capturedBy_below (infos : List Info) (x : Info) (h j : Nat) (lh l : Info)
    (hh : infos[h]? = some lh) (hcfg : lh.isCfg = true) (hle : lh.indent ≤ x.indent)
    (hj : h + 1 ≤ j) (hl : infos[j]? = some l) :
    capturedBy infos x (h + 1) j = true ↔ x.isCfg = true ∧ x.indent < l.indent ∧ specParent infos j = h := by
  have hcap : capturedBy infos x (h + 1) j = (x.isCfg && decide (x.indent < l.indent) && !commentUnderDeeper infos j &&
      (decide (specParent infos j < h + 1) || decide (specParent infos j = j))) := by
    unfold capturedBy; rw [hl]
  rw [hcap]
  simp only [Bool.and_eq_true, Bool.or_eq_true, decide_eq_true_eq, Bool.not_eq_true']
  constructor
  · rintro ⟨⟨⟨h1, h2⟩, h3⟩, h4⟩
    refine ⟨h1, h2, ?_⟩
    have hroot : ¬ (l.indent = 0 ∨ commentUnderDeeper infos j = true) := by
      rintro (h | h)
      · omega
      · rw [h3] at h; cases h
    have hsp : specParent infos j = (nearestShallower infos l.indent j).getD j := by
      unfold specParent; rw [hl]; simp only [hroot, if_false]
    cases hn : nearestShallower infos l.indent j with
    | none =>
      exact absurd ⟨hcfg, by omega⟩ ((nearestShallower_eq_none infos l.indent j).mp hn h lh (by omega) hh)
    | some p =>
      rw [hsp, hn] at h4 ⊢
      simp only [Option.getD_some] at h4 ⊢
      obtain ⟨hp1, _, hp3⟩ := (nearestShallower_eq_some infos l.indent j p).mp hn
      have hhp : h ≤ p := by
        apply Classical.byContradiction; intro hlt
        exact hp3 h lh (by omega) (by omega) hh ⟨hcfg, by omega⟩
      omega
  · rintro ⟨h1, h2, h3⟩
    obtain ⟨_, g2, _⟩ := specParent_ne_self hl h3 (by omega)
    exact ⟨⟨⟨h1, h2⟩, g2⟩, .inl (by omega)⟩

/-- **a line placed directly above a configuration line that is not indented deeper than it**
captures nothing -/
theorem capturedBy_above (infos : List Info) (x : Info) (c j : Nat) (lc : Info)
    (hcl : infos[c]? = some lc) (hcfg : lc.isCfg = true) (hle : lc.indent ≤ x.indent) (hj : c ≤ j) :
    capturedBy infos x c j = false := by
  cases hl : infos[j]? with
  | none => unfold capturedBy; rw [hl]
  | some l =>
    cases hcap : capturedBy infos x c j with
    | false => rfl
    | true =>
      exfalso
      obtain ⟨_, h2, _, h4⟩ := (capturedBy_iff infos x c j l hl).mp hcap
      by_cases hjc : j = c
      · subst hjc; rw [hcl] at hl; cases hl; omega
      · have := h4 c lc (Nat.le_refl _) (by omega) hcl hcfg
        omega

/-- the parent of a line placed directly below a shallower configuration line `h` is `h` -/
theorem specParent_insert_new_child (infos : List Info) (x : Info) (h : Nat) (lh : Info)
    (hh : infos[h]? = some lh) (hcfg : lh.isCfg = true) (hlt : lh.indent < x.indent) :
    specParent (infos.take (h + 1) ++ x :: infos.drop (h + 1)) (h + 1) = h := by
  have hlen : h < infos.length := (List.getElem?_eq_some_iff.mp hh).1
  obtain ⟨_, hxat, _, hpre, _⟩ := Ccp.Edit.inserted_frame infos (h + 1) x (by omega)
  have hnh : (infos.take (h + 1) ++ x :: infos.drop (h + 1))[h]? = some lh := by rw [hpre h (by omega), hh]
  unfold specParent
  rw [hxat]
  have hcud : commentUnderDeeper (infos.take (h + 1) ++ x :: infos.drop (h + 1)) (h + 1) = false := by
    unfold commentUnderDeeper
    simp only [hxat, hnh]
    have : decide (lh.indent > x.indent) = false := by simp; omega
    simp [this]
  have h0 : ¬ x.indent = 0 := by omega
  simp only [hcud, h0, false_or, Bool.false_eq_true, if_false]
  have : nearestShallower (infos.take (h + 1) ++ x :: infos.drop (h + 1)) x.indent (h + 1) = some h := by
    conv => lhs; unfold nearestShallower
    simp only [hnh, hcfg, hlt, and_self, if_true]
  rw [this]; rfl

/-- the parent of a non-comment line placed directly below a configuration line `h` of the
same indent is the parent of `h` (it becomes a root when `h` is one) -/
theorem specParent_insert_new_sibling_below (infos : List Info) (x : Info) (h : Nat) (lh : Info)
    (hh : infos[h]? = some lh) (hcm : lh.isCmt = false) (hxc : x.isCmt = false) (heq : x.indent = lh.indent) :
    specParent (infos.take (h + 1) ++ x :: infos.drop (h + 1)) (h + 1)
      = if specParent infos h = h then h + 1 else specParent infos h := by
  have hlen : h < infos.length := (List.getElem?_eq_some_iff.mp hh).1
  obtain ⟨_, hxat, _, hpre, _⟩ := Ccp.Edit.inserted_frame infos (h + 1) x (by omega)
  have hnh : (infos.take (h + 1) ++ x :: infos.drop (h + 1))[h]? = some lh := by rw [hpre h (by omega), hh]
  have hcud : commentUnderDeeper (infos.take (h + 1) ++ x :: infos.drop (h + 1)) (h + 1) = false := by
    unfold commentUnderDeeper; simp [hxat, hxc]
  have hcud' : commentUnderDeeper infos h = false := by
    unfold commentUnderDeeper; cases h <;> simp [hh, hcm]
  have hold : specParent infos h = if lh.indent = 0 then h else (nearestShallower infos lh.indent h).getD h := by
    unfold specParent; rw [hh]; simp [hcud']
  have hns : nearestShallower (infos.take (h + 1) ++ x :: infos.drop (h + 1)) x.indent (h + 1)
      = nearestShallower infos lh.indent h := by
    conv => lhs; unfold nearestShallower
    have : ¬ (lh.isCfg = true ∧ lh.indent < x.indent) := by omega
    simp only [hnh, this, if_false]
    rw [heq]
    exact nearestShallower_congr _ _ _ _ (fun m hm => hpre m (by omega))
  have hnew : specParent (infos.take (h + 1) ++ x :: infos.drop (h + 1)) (h + 1)
      = if lh.indent = 0 then h + 1 else (nearestShallower infos lh.indent h).getD (h + 1) := by
    rw [heq] at hns
    unfold specParent; rw [hxat]; simp [hcud, hns, heq]
  rw [hnew, hold]
  by_cases h0 : lh.indent = 0
  · simp [h0]
  · simp only [h0, if_false]
    cases hn : nearestShallower infos lh.indent h with
    | none => simp
    | some p =>
      have := ((nearestShallower_eq_some infos lh.indent h p).mp hn).1
      simp only [Option.getD_some]
      rw [if_neg (by omega)]

/-- the parent of a non-comment line placed directly above a line `c` of the same indent
that is not a comment either is the parent of `c` (a root when `c` is one) -/
theorem specParent_insert_new_sibling_above (infos : List Info) (x : Info) (c : Nat) (lc : Info)
    (hcl : infos[c]? = some lc) (hcm : lc.isCmt = false) (hxc : x.isCmt = false) (heq : x.indent = lc.indent) :
    specParent (infos.take c ++ x :: infos.drop c) c = specParent infos c := by
  have hlen : c < infos.length := (List.getElem?_eq_some_iff.mp hcl).1
  obtain ⟨_, hxat, _, hpre, _⟩ := Ccp.Edit.inserted_frame infos c x (by omega)
  have hcud : commentUnderDeeper (infos.take c ++ x :: infos.drop c) c = false := by
    unfold commentUnderDeeper; cases c <;> simp [hxat, hxc]
  have hcud' : commentUnderDeeper infos c = false := by
    unfold commentUnderDeeper; cases c <;> simp [hcl, hcm]
  have hns : nearestShallower (infos.take c ++ x :: infos.drop c) x.indent c = nearestShallower infos lc.indent c := by
    rw [heq]; exact nearestShallower_congr _ _ _ _ (fun m hm => hpre m hm)
  rw [heq] at hns
  unfold specParent
  rw [hxat, hcl]
  simp [hcud, hcud', hns, heq]

/-- **the new line is the only child of a childless target.**  `i` is a configuration line
without children, `x` is indented deeper than `i` and put directly below it: in the new list
the only line whose parent is `i` is the new one. -/
theorem specParent_insert_only_child (infos : List Info) (x : Info) (i : Nat) (li : Info)
    (hi : infos[i]? = some li) (hcfg : li.isCfg = true) (hlt : li.indent < x.indent)
    (hkl : ∀ j, i < j → j < infos.length → specParent infos j ≠ i) :
    ∀ q, q ≠ i → q < infos.length + 1 →
      specParent (infos.take (i + 1) ++ x :: infos.drop (i + 1)) q = i → q = i + 1 := by
  have hlen : i < infos.length := (List.getElem?_eq_some_iff.mp hi).1
  obtain ⟨_, hxat, _, hpre, hpost⟩ := Ccp.Edit.inserted_frame infos (i + 1) x (by omega)
  obtain ⟨f1, f2⟩ := specParent_insert infos x (i + 1) (by omega)
  intro q hqi hql hsp
  by_cases hq1 : q < i + 1
  · rw [f1 q hq1] at hsp
    have := specParent_le infos q
    omega
  · by_cases hq2 : q = i + 1
    · exact hq2
    · exfalso
      obtain ⟨j, rfl⟩ : ∃ j, q = j + 1 := ⟨q - 1, by omega⟩
      have hjl : j < infos.length := by omega
      have hl : infos[j]? = some infos[j] := List.getElem?_eq_getElem hjl
      by_cases hex : j = i + 1 ∧ infos[j].isCmt = true
      · -- a comment directly behind the new line
        obtain ⟨rfl, hcmt⟩ := hex
        have hnl : (infos.take (i + 1) ++ x :: infos.drop (i + 1))[i + 1 + 1]? = some infos[i + 1] := by
          rw [hpost (i + 1) (Nat.le_refl _), hl]
        obtain ⟨g1, g2, g3⟩ := specParent_ne_self hnl hsp (by omega)
        -- not under a deeper line: the new line is not deeper than the comment
        have hxle : x.indent ≤ infos[i + 1].indent := by
          unfold commentUnderDeeper at g2
          simp only [hnl, hxat, hcmt, Bool.true_and, decide_eq_false_iff_not] at g2
          omega
        -- then the comment was a child of `i` in the old list
        apply hkl (i + 1) (by omega) hjl
        unfold specParent
        rw [hl]
        have hc' : commentUnderDeeper infos (i + 1) = false := by
          unfold commentUnderDeeper
          simp only [hl, hi, hcmt, Bool.true_and, decide_eq_false_iff_not]
          omega
        have : nearestShallower infos infos[i + 1].indent (i + 1) = some i := by
          conv => lhs; unfold nearestShallower
          have : li.isCfg = true ∧ li.indent < infos[i + 1].indent := ⟨hcfg, by omega⟩
          simp only [hi, this, and_self, if_true]
        simp only [hc', this, Option.getD_some, Bool.false_eq_true, or_false]
        rw [if_neg (by omega)]
      · rw [f2 j _ (by omega) hl hex] at hsp
        split at hsp
        · omega
        · unfold shiftAt at hsp
          split at hsp
          · exact hkl j (by omega) hjl hsp
          · omega

/-- **a line placed directly behind a closed block `[i, e]` headed by a shallower configuration
line `i`** (no line behind `e` has its parent inside the block) captures nothing -/
theorem capturedBy_closed (infos : List Info) (x : Info) (i e j : Nat) (li : Info)
    (hi : infos[i]? = some li) (hcfg : li.isCfg = true) (hlt : li.indent ≤ x.indent) (hie : i ≤ e)
    (H3 : ∀ j, e < j → j < infos.length → ¬ (i ≤ specParent infos j ∧ specParent infos j ≤ e))
    (hj : e < j) : capturedBy infos x (e + 1) j = false := by
  cases hl : infos[j]? with
  | none => unfold capturedBy; rw [hl]
  | some l =>
    cases hcap : capturedBy infos x (e + 1) j with
    | false => rfl
    | true =>
      exfalso
      have hjl : j < infos.length := (List.getElem?_eq_some_iff.mp hl).1
      have hc : capturedBy infos x (e + 1) j = (x.isCfg && decide (x.indent < l.indent) && !commentUnderDeeper infos j &&
          (decide (specParent infos j < e + 1) || decide (specParent infos j = j))) := by
        unfold capturedBy; rw [hl]
      rw [hc] at hcap
      simp only [Bool.and_eq_true, Bool.or_eq_true, decide_eq_true_eq, Bool.not_eq_true'] at hcap
      obtain ⟨⟨⟨_, h2⟩, h3⟩, h4⟩ := hcap
      have hroot : ¬ (l.indent = 0 ∨ commentUnderDeeper infos j = true) := by
        rintro (h | h)
        · omega
        · rw [h3] at h; cases h
      have hsp : specParent infos j = (nearestShallower infos l.indent j).getD j := by
        unfold specParent; rw [hl]; simp only [hroot, if_false]
      cases hn : nearestShallower infos l.indent j with
      | none =>
        exact (nearestShallower_eq_none infos l.indent j).mp hn i li (by omega) hi ⟨hcfg, by omega⟩
      | some p =>
        rw [hsp, hn] at h4
        simp only [Option.getD_some] at h4
        obtain ⟨hp1, _, hp3⟩ := (nearestShallower_eq_some infos l.indent j p).mp hn
        have hip : i ≤ p := by
          apply Classical.byContradiction; intro hlt'
          exact hp3 i li (by omega) (by omega) hi ⟨hcfg, by omega⟩
        apply H3 j hj hjl
        rw [hsp, hn]
        simp only [Option.getD_some]
        omega

/-- the parent of a non-comment line placed directly behind a block `[i, e]` headed by a
shallower configuration line lies inside the block -/
theorem specParent_insert_new_inside (infos : List Info) (x : Info) (i e : Nat) (li : Info)
    (hi : infos[i]? = some li) (hcfg : li.isCfg = true) (hlt : li.indent < x.indent) (hie : i ≤ e)
    (he : e < infos.length) (hxc : x.isCmt = false) :
    i ≤ specParent (infos.take (e + 1) ++ x :: infos.drop (e + 1)) (e + 1) ∧
    specParent (infos.take (e + 1) ++ x :: infos.drop (e + 1)) (e + 1) ≤ e := by
  obtain ⟨_, hxat, _, hpre, _⟩ := Ccp.Edit.inserted_frame infos (e + 1) x (by omega)
  have hcud : commentUnderDeeper (infos.take (e + 1) ++ x :: infos.drop (e + 1)) (e + 1) = false := by
    unfold commentUnderDeeper; simp [hxat, hxc]
  have h0 : ¬ x.indent = 0 := by omega
  have hsp : specParent (infos.take (e + 1) ++ x :: infos.drop (e + 1)) (e + 1)
      = (nearestShallower infos x.indent (e + 1)).getD (e + 1) := by
    unfold specParent
    rw [hxat]
    simp only [hcud, h0, false_or, Bool.false_eq_true, if_false]
    rw [nearestShallower_congr _ infos x.indent (e + 1) (fun m hm => hpre m hm)]
  rw [hsp]
  cases hn : nearestShallower infos x.indent (e + 1) with
  | none =>
    exact absurd ⟨hcfg, hlt⟩ ((nearestShallower_eq_none infos x.indent (e + 1)).mp hn i li (by omega) hi)
  | some p =>
    obtain ⟨hp1, _, hp3⟩ := (nearestShallower_eq_some infos x.indent (e + 1) p).mp hn
    simp only [Option.getD_some]
    refine ⟨?_, by omega⟩
    apply Classical.byContradiction; intro hlt'
    exact hp3 i li (by omega) (by omega) hi ⟨hcfg, hlt⟩

/-- the span of a family is closed: no line behind the last descendant of `i` has its
parent inside `[i, familyEndpoint i]` -/
theorem specTree_family_closed {t : T} {infos : List Info} (h : SpecTree t infos) (i : Nat) (li : Info)
    (hli : infos[i]? = some li) (hlicfg : li.isCfg = true) :
    ∀ j, familyEndpoint t i < j → j < infos.length →
      ¬ (i ≤ specParent infos j ∧ specParent infos j ≤ familyEndpoint t i) := by
  have hf := h.1
  have hmax := familyEndpoint_max hf i
  have hlen := h.2.1
  intro j hej hjl ⟨hp1, hp2⟩
  have hjs : j < t.size := by omega
  have hpar := h.2.2.1 j hjs
  rw [← hpar] at hp1 hp2
  have hne : parentOf t j ≠ j := by omega
  obtain ⟨lp, lj, h1, h2, h3, h4, h5, _⟩ := specTree_parent h hjs hne
  have hij : i ∈ ancestors t j := by
    rw [ancestors_of_lt h3]
    by_cases hpi : parentOf t j = i
    · simp [hpi]
    · have hie : i ∈ ancestors t (familyEndpoint t i) := by
        rcases List.mem_cons.mp hmax.1 with heq | hm
        · omega
        · exact (mem_allChildren hf).mp hm
      exact List.mem_cons_of_mem _ (specTree_between h hli hlicfg hie _ lp (by omega) hp2 h1 h4)
  have := hmax.2 j (List.mem_cons_of_mem _ ((mem_allChildren hf).mpr hij))
  omega

end Ccp.Tree

/-! ## lift to `parse`, with or without `ignore_blank_lines` -/

namespace Ccp.Tree
open Ccp.Py

/-- the same options with `ignore_blank_lines` off -/
def noIg (cfg : Cfg) : Cfg := { cfg with ignoreBlank := false }

theorem noIg_of_false (cfg : Cfg) (h : cfg.ignoreBlank = false) : noIg cfg = cfg := by
  cases cfg; simp only [noIg] at *; subst h; rfl

theorem link_noIg (cfg : Cfg) (ls : List Str) : link (noIg cfg) ls = link cfg ls := rfl

theorem plain_noIg (cfg : Cfg) (ls : List Str) : Plain (noIg cfg) ls ↔ Plain cfg ls := Iff.rfl

/-- **`ignore_blank_lines` on a config without banner / macro starts**: the parse is the
parse, with the option off, of the non-blank lines -/
theorem parse_ignore_plain (cfg : Cfg) (ls : List Str) (hi : cfg.ignoreBlank = true) (hp : Plain cfg ls) :
    parse cfg ls = parse (noIg cfg) (ls.filter nonBlank) := by
  rw [Ccp.Edit.parse_eq_bootstrap, Ccp.Edit.parse_eq_bootstrap, Ccp.Edit.bootstrap_noignore (noIg cfg) _ rfl, link_noIg]
  obtain ⟨ls', h1, _⟩ := Ccp.Edit.bootstrap_eq_link cfg ls
  have h2 : (bootstrap cfg ls).texts = ls.filter nonBlank := by
    rw [bootstrap_texts_eq_scan cfg hi ls, keptScan_plain cfg ls hp.1 hp.2]
  rw [h1, link_texts_ll] at h2
  rw [h1, h2]

/-- … so when no line is blank the option makes no difference -/
theorem parse_noIg (cfg : Cfg) (ls : List Str) (hp : Plain cfg ls)
    (hnb : cfg.ignoreBlank = true → ∀ x ∈ ls, nonBlank x = true) : parse cfg ls = parse (noIg cfg) ls := by
  cases hi : cfg.ignoreBlank with
  | false => rw [noIg_of_false cfg hi]
  | true =>
    rw [parse_ignore_plain cfg ls hi hp]
    congr 1
    exact List.filter_eq_self.mpr (hnb hi)

theorem parse_parentOf' (cfg : Cfg) (ls : List Str) (hp : Plain cfg ls)
    (hnb : cfg.ignoreBlank = true → ∀ x ∈ ls, nonBlank x = true)
    (j : Nat) (hj : j < ls.length) : parentOf (parse cfg ls) j = specParent (ls.map (info cfg)) j := by
  rw [parse_noIg cfg ls hp hnb]
  exact parse_parentOf (noIg cfg) ls hp rfl j hj

theorem parse_texts' (cfg : Cfg) (ls : List Str) (hp : Plain cfg ls)
    (hnb : cfg.ignoreBlank = true → ∀ x ∈ ls, nonBlank x = true) : (parse cfg ls).texts = ls := by
  rw [parse_noIg cfg ls hp hnb, parse_plain (noIg cfg) ls hp rfl]

theorem parse_specTree' (cfg : Cfg) (ls : List Str) (hp : Plain cfg ls)
    (hnb : cfg.ignoreBlank = true → ∀ x ∈ ls, nonBlank x = true) :
    SpecTree (parse cfg ls) (ls.map (info cfg)) := by
  rw [parse_noIg cfg ls hp hnb]
  exact parse_specTree (noIg cfg) ls hp rfl

theorem nonBlank_insert (ls : List Str) (k : Nat) (txt : Str) (h : ∀ x ∈ ls, nonBlank x = true)
    (ht : nonBlank txt = true) : ∀ x ∈ ls.take k ++ txt :: ls.drop k, nonBlank x = true := by
  intro x hx
  rcases List.mem_append.mp hx with h' | h'
  · exact h x (List.mem_of_mem_take h')
  · rcases List.mem_cons.mp h' with rfl | h'
    · exact ht
    · exact h x (List.mem_of_mem_drop h')

theorem info_getD (cfg : Cfg) (ls : List Str) (j : Nat) (hj : j < ls.length) :
    (ls.map (info cfg))[j]? = some (info cfg (ls.getD j [])) := by
  simp [List.getElem?_map, List.getD_eq_getElem?_getD, List.getElem?_eq_getElem hj]

/-- **`parse` after the insertion of one line at position `c`** (no banner / macro starts;
blank lines kept, or no blank line around): the exact frame condition for the parents. -/
theorem parse_insert_frame (cfg : Cfg) (ls : List Str) (c : Nat) (txt : Str) (hc : c ≤ ls.length)
    (hp : Plain cfg ls) (hb : isBannerStart txt = false) (hm : cfg.ios = true → isMacroStart txt = false)
    (hnb : cfg.ignoreBlank = true → (∀ x ∈ ls, nonBlank x = true) ∧ nonBlank txt = true) :
    let t := parse cfg ls
    let t' := parse cfg (ls.take c ++ txt :: ls.drop c)
    t'.texts = ls.take c ++ txt :: ls.drop c ∧
    (∀ q, q < ls.length + 1 → parentOf t' q
      = specParent ((ls.map (info cfg)).take c ++ info cfg txt :: (ls.map (info cfg)).drop c) q) ∧
    (∀ j, j < ls.length → parentOf t j = specParent (ls.map (info cfg)) j) ∧
    (∀ j, j < c → parentOf t' j = parentOf t j) ∧
    (∀ j, c ≤ j → j < ls.length → ¬ (j = c ∧ isComment cfg (ls.getD j []) = true) →
      parentOf t' (j + 1)
        = if capturedBy (ls.map (info cfg)) (info cfg txt) c j = true then c else shiftAt c (parentOf t j)) := by
  intro t t'
  have hp' := plain_insert cfg ls c txt hp hb hm
  have hnb1 : cfg.ignoreBlank = true → ∀ x ∈ ls, nonBlank x = true := fun h => (hnb h).1
  have hnb2 : cfg.ignoreBlank = true → ∀ x ∈ ls.take c ++ txt :: ls.drop c, nonBlank x = true :=
    fun h => nonBlank_insert ls c txt (hnb h).1 (hnb h).2
  have hnl : (ls.take c ++ txt :: ls.drop c).length = ls.length + 1 := by simp; omega
  have hnew : (ls.map (info cfg)).take c ++ info cfg txt :: (ls.map (info cfg)).drop c
      = (ls.take c ++ txt :: ls.drop c).map (info cfg) := by simp [List.map_take, List.map_drop]
  have hpo : ∀ k, k < ls.length + 1 → parentOf t' k
      = specParent ((ls.map (info cfg)).take c ++ info cfg txt :: (ls.map (info cfg)).drop c) k := by
    intro k hk
    rw [hnew]; exact parse_parentOf' cfg _ hp' hnb2 k (by omega)
  have hlen : (ls.map (info cfg)).length = ls.length := by simp
  obtain ⟨f1, f2⟩ := specParent_insert (ls.map (info cfg)) (info cfg txt) c (by omega)
  refine ⟨parse_texts' cfg _ hp' hnb2, hpo, fun j hj => parse_parentOf' cfg ls hp hnb1 j hj, ?_, ?_⟩
  · intro j hj
    rw [hpo j (by omega), f1 j hj, parse_parentOf' cfg ls hp hnb1 j (by omega)]
  · intro j hcj hjl hcm
    rw [hpo (j + 1) (by omega), f2 j _ hcj (info_getD cfg ls j hjl) hcm, parse_parentOf' cfg ls hp hnb1 j hjl]

/-- `parse_delete` with or without `ignore_blank_lines` (no blank line around) -/
theorem parse_delete' (cfg : Cfg) (ls : List Str) (i : Nat)
    (hp : Plain cfg ls) (hnb : cfg.ignoreBlank = true → ∀ x ∈ ls, nonBlank x = true) :
    let t := parse cfg ls
    let dead := Ccp.Edit.descendantsAndSelf t i
    let keep : Nat → Bool := fun j => !dead.contains j
    let t' := parse cfg (Ccp.Edit.eraseAll ls dead)
    t'.texts = Ccp.Edit.eraseAll ls dead ∧
    ∀ j, j < ls.length → keep j = true →
      t'.texts[rank keep j]? = ls[j]? ∧
      (keep (parentOf t j) = true) ∧
      (¬ (isComment cfg (ls.getD j []) = true ∧ ∃ j', j = j' + 1 ∧ keep j' = false) →
        parentOf t' (rank keep j) = rank keep (parentOf t j)) := by
  have e1 := parse_noIg cfg ls hp hnb
  have e2 : ∀ dead, parse cfg (Ccp.Edit.eraseAll ls dead) = parse (noIg cfg) (Ccp.Edit.eraseAll ls dead) :=
    fun dead => parse_noIg cfg _ (plain_sublist cfg (Ccp.Edit.eraseAll_sublist ls dead) hp)
      (fun hi x hx => hnb hi x ((Ccp.Edit.eraseAll_sublist ls dead).subset hx))
  have := parse_delete (noIg cfg) ls i hp rfl
  simp only at this
  rw [← e1] at this
  rw [← e2] at this
  exact this

end Ccp.Tree

/-! ## lift to the edit state machine -/

namespace Ccp.Edit
open Ccp.Py Ccp.Tree

theorem nonBlank_eq (x : Str) : nonBlank x = !isBlank x := rfl

/-- a committed state over a config without banner / macro starts holds no blank line when
`ignore_blank_lines` is on -/
theorem fresh_nonblank (s : S) (hd : s.dirty = false) (hinv : FreshInv s) (hp : Plain s.cfg s.texts)
    (hi : s.cfg.ignoreBlank = true) : ∀ x ∈ s.texts, nonBlank x = true := by
  have h := fresh_texts_fixed s hd hinv
  rw [bootstrap_texts_eq_scan _ hi, keptScan_plain _ _ hp.1 hp.2] at h
  exact List.filter_eq_self.mp h.symm

/-- texts and tree after an auto-commit over a config without banner / macro starts and (with
`ignore_blank_lines`) without blank lines -/
theorem auto_commit_plain (s : S) (ha : s.auto = true) (its : List Item) (st : Bool)
    (hp : Plain s.cfg (its.map Item.text))
    (hnb : s.cfg.ignoreBlank = true → ∀ x ∈ its.map Item.text, nonBlank x = true) :
    (autoCommit { s with items := its, stale := st, dirty := true }).texts = its.map Item.text ∧
    (autoCommit { s with items := its, stale := st, dirty := true }).tree = parse s.cfg (its.map Item.text) := by
  refine ⟨?_, auto_tree_after s ha its st⟩
  rw [autoCommit_on { s with items := its, stale := st, dirty := true } ha, commit_texts]
  show (bootstrap s.cfg (its.map Item.text)).texts = _
  rw [← parse_eq_bootstrap, parse_texts' s.cfg _ hp hnb]

theorem items_insert_texts (s : S) (c : Nat) (txt : Str) :
    (s.items.take c ++ fresh txt :: s.items.drop c).map Item.text = s.texts.take c ++ txt :: s.texts.drop c := by
  simp [S.texts, List.map_take, List.map_drop, fresh]

/-- **one line inserted at position `c` of a committed state, then the auto-commit**: texts,
the new line's parent, and the exact frame condition for the parents of the old lines. -/
theorem auto_insert_frame (s : S) (c : Nat) (txt : Str) (st : Bool)
    (hd : s.dirty = false) (hinv : FreshInv s) (ha : s.auto = true) (hp : Plain s.cfg s.texts)
    (hc : c ≤ s.texts.length)
    (hb : isBannerStart txt = false) (hm : s.cfg.ios = true → isMacroStart txt = false)
    (hnb : s.cfg.ignoreBlank = true → isBlank txt = false) :
    let s' := autoCommit { s with items := s.items.take c ++ fresh txt :: s.items.drop c, stale := st, dirty := true }
    s'.texts = s.texts.take c ++ txt :: s.texts.drop c ∧ s'.tree.texts = s'.texts ∧
    (∀ q, q < s.texts.length + 1 → parentOf s'.tree q
      = specParent ((s.texts.map (info s.cfg)).take c ++ info s.cfg txt :: (s.texts.map (info s.cfg)).drop c) q) ∧
    (∀ j, j < s.texts.length → parentOf s.tree j = specParent (s.texts.map (info s.cfg)) j) ∧
    (∀ j, j < c → parentOf s'.tree j = parentOf s.tree j) ∧
    (∀ j, c ≤ j → j < s.texts.length → ¬ (j = c ∧ isComment s.cfg (s.texts.getD j []) = true) →
      parentOf s'.tree (j + 1)
        = if capturedBy (s.texts.map (info s.cfg)) (info s.cfg txt) c j = true then c
          else shiftAt c (parentOf s.tree j)) := by
  intro s'
  obtain ⟨htree, _, _⟩ := hinv hd
  have hnb' : s.cfg.ignoreBlank = true → (∀ x ∈ s.texts, nonBlank x = true) ∧ nonBlank txt = true :=
    fun hi => ⟨fresh_nonblank s hd hinv hp hi, by rw [nonBlank_eq, hnb hi]; rfl⟩
  have hmain := parse_insert_frame s.cfg s.texts c txt hc hp hb hm hnb'
  simp only at hmain
  rw [← htree] at hmain
  have hit := items_insert_texts s c txt
  obtain ⟨h1, h2⟩ := auto_commit_plain s ha (s.items.take c ++ fresh txt :: s.items.drop c) st
    (by rw [hit]; exact plain_insert s.cfg s.texts c txt hp hb hm)
    (by rw [hit]; exact fun hi => nonBlank_insert s.texts c txt (hnb' hi).1 (hnb' hi).2)
  rw [hit] at h1 h2
  refine ⟨h1, ?_, ?_, hmain.2.2.1, ?_, ?_⟩
  · show s'.tree.texts = s'.texts
    rw [h2, h1]; exact hmain.1
  · intro q hq
    show parentOf s'.tree q = _
    rw [h2]; exact hmain.2.1 q hq
  · intro j hj
    show parentOf s'.tree j = _
    rw [h2]; exact hmain.2.2.2.1 j hj
  · intro j h3 h4 h5
    show parentOf s'.tree (j + 1) = _
    rw [h2]; exact hmain.2.2.2.2 j h3 h4 h5

/-- **the parent frame of a one-line insertion**: `s'` is `s` with the line `txt` added at
position `c`; the lines above `c` keep their parents; an old line `j` at or below `c` (new
position `j + 1`) — other than a comment directly behind the new line — gets the new line as
parent when it is captured (`capturedBy`, read by `capturedBy_iff`), and otherwise keeps its
parent, index-shifted by `shiftAt c` -/
def InsertFrame (s s' : S) (c : Nat) (txt : Str) : Prop :=
  s'.texts = s.texts.take c ++ txt :: s.texts.drop c ∧
  (∀ j, j < c → parentOf s'.tree j = parentOf s.tree j) ∧
  (∀ j, c ≤ j → j < s.texts.length → ¬ (j = c ∧ isComment s.cfg (s.texts.getD j []) = true) →
    parentOf s'.tree (j + 1)
      = if capturedBy (s.texts.map (info s.cfg)) (info s.cfg txt) c j = true then c
        else shiftAt c (parentOf s.tree j))

/-- the hypotheses under which the parent links are those of the indentation rule: a state
without uncommitted change satisfying C07's invariant, auto-commit on, no banner / macro
start in the config -/
structure PlainCommitted (s : S) : Prop where
  clean : s.dirty = false
  fresh : FreshInv s
  auto : s.auto = true
  plain : Plain s.cfg s.texts

/-- a payload that keeps the config plain and survives the commit: no banner start, no macro
start under syntax ios, not blank under `ignore_blank_lines` -/
def PlainPayload (s : S) (txt : Str) : Prop :=
  isBannerStart txt = false ∧ (s.cfg.ios = true → isMacroStart txt = false) ∧
  (s.cfg.ignoreBlank = true → isBlank txt = false)

theorem insertFrame_of_step (s : S) (c : Nat) (txt : Str) (st : Bool) (s' : S) (h : PlainCommitted s)
    (hx : PlainPayload s txt) (hc : c ≤ s.texts.length)
    (hs : s' = autoCommit { s with items := s.items.take c ++ fresh txt :: s.items.drop c, stale := st, dirty := true }) :
    InsertFrame s s' c txt := by
  obtain ⟨f1, _, _, _, f5, f6⟩ := auto_insert_frame s c txt st h.clean h.fresh h.auto h.plain hc hx.1 hx.2.1 hx.2.2
  rw [hs]
  exact ⟨f1, f5, f6⟩

/-! ### `last_parent_linenums[0]` of a childless target is the target -/

theorem lpl_go_notin (t : T) (w self si : Nat) (l : List Nat) (acc : Option Nat)
    (h : ∀ j ∈ l, inLineage t self j = false) : lastParentLinenum0.go t w self si l acc = some acc := by
  induction l generalizing acc with
  | nil => rfl
  | cons j js ih =>
    unfold lastParentLinenum0.go
    rw [h j (List.mem_cons_self ..)]
    exact ih acc (fun k hk => h k (List.mem_cons_of_mem _ hk))

theorem lpl_go_append (t : T) (w self si : Nat) (l1 l2 : List Nat) (acc : Option Nat) :
    lastParentLinenum0.go t w self si (l1 ++ l2) acc
      = (lastParentLinenum0.go t w self si l1 acc).bind (lastParentLinenum0.go t w self si l2) := by
  induction l1 generalizing acc with
  | nil => rfl
  | cons j js ih =>
    simp only [List.cons_append]
    unfold lastParentLinenum0.go
    split
    · split
      · rfl
      · exact ih _
    · exact ih _

/-- lines related to a childless line through `lineage` are the line itself and its ancestors -/
theorem inLineage_childless {t : T} (hf : Forest t) {i j : Nat} (hk : children t i = [])
    (h : inLineage t i j = true) : j ≤ i := by
  unfold inLineage at h
  rw [lineage_eq hf j] at h
  have h' : i ∈ allParents t j ++ [j] ++ allChildren t j := by simpa using h
  rcases List.mem_append.mp h' with h' | h'
  · rcases List.mem_append.mp h' with h' | h'
    · -- `i` would be an ancestor of `j`, but it has no children
      have hanc := (mem_allParents hf).mp h'
      obtain ⟨c, hc1, hc2, _⟩ := ancestors_child hanc
      have hcs : c < t.size := by
        rcases ‹c = j ∨ c ∈ ancestors t j› with rfl | hc
        · exact ancestors_lt_size hf hanc
        · exact Nat.lt_trans (ancestors_lt hc) (ancestors_lt_size hf hc)
      have : c ∈ children t i := mem_children.mpr ⟨hcs, hc1, by omega⟩
      rw [hk] at this; cases this
    · simp at h'; omega
  · have := ancestors_lt ((mem_allChildren hf).mp h'); omega

theorem lastParentLinenum0_childless {t : T} (hf : Forest t) (w i lp : Nat) (hi : i < t.size)
    (hk : children t i = []) (h : lastParentLinenum0 t w i = some lp) : lp = i := by
  unfold lastParentLinenum0 at h
  dsimp only at h
  have hr : List.range t.size = List.range i ++ (i :: (List.range (t.size - (i + 1))).map (i + 1 + ·)) := by
    have h1 : t.size = (i + 1) + (t.size - (i + 1)) := by omega
    conv => lhs; rw [h1, List.range_add, List.range_succ]
    simp
  rw [hr, lpl_go_append] at h
  cases h1 : lastParentLinenum0.go t w i (indentOf t i) (List.range i) none with
  | none => rw [h1] at h; cases h
  | some a =>
    rw [h1] at h
    simp only [Option.bind_some] at h
    unfold lastParentLinenum0.go at h
    have hself : inLineage t i i = true := by
      unfold inLineage
      rw [lineage_eq hf i]; simp
    rw [hself] at h
    simp only [if_true] at h
    split at h
    · cases h
    · rename_i k hk'
      have := cfi_self w t i k hk'
      subst this
      rw [lpl_go_notin] at h
      · simp at h; exact h.symm
      · intro j hj
        simp only [List.mem_map, List.mem_range] at hj
        obtain ⟨d, _, rfl⟩ := hj
        cases hin : inLineage t i (i + 1 + d) with
        | false => rfl
        | true => have := inLineage_childless hf hk hin; omega

end Ccp.Edit

/-! ### a line placed next to a configuration line of the same indent -/

namespace Ccp.Edit
open Ccp.Py Ccp.Tree

theorem isCmt_of_cfg (cfg : Cfg) (t : Str) (h : isConfigLine cfg t = true) : isComment cfg t = false := by
  simp only [isConfigLine, Bool.and_eq_true, Bool.not_eq_true'] at h
  exact h.2

/-- **a line placed directly above a configuration line that is not indented deeper than it**
changes no parent at all; when both are at the same indent and the new line is not a comment,
it gets the parent of the line it was placed above (it is a root when that one is) -/
theorem insert_above_cfg (s : S) (c : Nat) (txt : Str) (st : Bool) (s' : S) (h : PlainCommitted s)
    (hx : PlainPayload s txt) (hc : c < s.texts.length)
    (hs : s' = autoCommit { s with items := s.items.take c ++ fresh txt :: s.items.drop c, stale := st, dirty := true })
    (hcfg : isConfigLine s.cfg (s.texts.getD c []) = true) (hle : indent (s.texts.getD c []) ≤ indent txt) :
    (∀ j, j < c → parentOf s'.tree j = parentOf s.tree j) ∧
    (∀ j, c ≤ j → j < s.texts.length → parentOf s'.tree (j + 1) = shiftAt c (parentOf s.tree j)) ∧
    (indent txt = indent (s.texts.getD c []) → isComment s.cfg txt = false →
      parentOf s'.tree c = parentOf s.tree c) := by
  obtain ⟨_, _, f3, f4, f5, f6⟩ := auto_insert_frame s c txt st h.clean h.fresh h.auto h.plain (by omega) hx.1 hx.2.1 hx.2.2
  rw [← hs] at f3 f5 f6
  have hlc := info_getD s.cfg s.texts c hc
  refine ⟨f5, ?_, ?_⟩
  · intro j hcj hjl
    rw [f6 j hcj hjl (by rintro ⟨rfl, hcm⟩; rw [isCmt_of_cfg _ _ hcfg] at hcm; cases hcm),
      capturedBy_above _ (info s.cfg txt) c j _ hlc hcfg hle hcj]
    simp
  · intro heq hxc
    rw [f3 c (by omega), f4 c hc]
    exact specParent_insert_new_sibling_above _ (info s.cfg txt) c _ hlc (isCmt_of_cfg _ _ hcfg) hxc heq

/-- **a configuration line placed directly below a configuration line `p` of the same
indent** takes over the children of `p` — they are exactly the lines that change parent —
and becomes a sibling of `p` (a root when `p` is one) -/
theorem insert_below_cfg_same (s : S) (p : Nat) (txt : Str) (st : Bool) (s' : S) (h : PlainCommitted s)
    (hx : PlainPayload s txt) (hp : p < s.texts.length)
    (hs : s' = autoCommit { s with items := s.items.take (p + 1) ++ fresh txt :: s.items.drop (p + 1),
                                   stale := st, dirty := true })
    (hcfg : isConfigLine s.cfg (s.texts.getD p []) = true) (heq : indent txt = indent (s.texts.getD p []))
    (hxc : isConfigLine s.cfg txt = true) :
    (∀ j, j ≤ p → parentOf s'.tree j = parentOf s.tree j) ∧
    (∀ j, p < j → j < s.texts.length → ¬ (j = p + 1 ∧ isComment s.cfg (s.texts.getD j []) = true) →
      parentOf s'.tree (j + 1) = if parentOf s.tree j = p then p + 1 else shiftAt (p + 1) (parentOf s.tree j)) ∧
    parentOf s'.tree (p + 1) = if parentOf s.tree p = p then p + 1 else parentOf s.tree p := by
  obtain ⟨_, _, f3, f4, f5, f6⟩ := auto_insert_frame s (p + 1) txt st h.clean h.fresh h.auto h.plain (by omega) hx.1 hx.2.1 hx.2.2
  rw [← hs] at f3 f5 f6
  have hlp := info_getD s.cfg s.texts p hp
  refine ⟨fun j hj => f5 j (by omega), ?_, ?_⟩
  · intro j hpj hjl hcm
    rw [f6 j (by omega) hjl hcm]
    have hlj := info_getD s.cfg s.texts j hjl
    have hiff := capturedBy_below _ (info s.cfg txt) p j _ _ hlp hcfg (Nat.le_of_eq heq.symm) (by omega) hlj
    by_cases hpar : parentOf s.tree j = p
    · have hsp : specParent (s.texts.map (info s.cfg)) j = p := by rw [← f4 j hjl]; exact hpar
      obtain ⟨_, _, g3⟩ := specParent_ne_self hlj hsp (by omega)
      obtain ⟨_, ⟨lp', e1, _, e3⟩, _⟩ := (nearestShallower_eq_some _ _ _ _).mp g3
      rw [hlp] at e1; cases e1
      have : capturedBy (s.texts.map (info s.cfg)) (info s.cfg txt) (p + 1) j = true :=
        hiff.mpr ⟨hxc, by show indent txt < _; rw [heq]; exact e3, hsp⟩
      rw [this, if_pos rfl, if_pos hpar]
    · have : capturedBy (s.texts.map (info s.cfg)) (info s.cfg txt) (p + 1) j = false := by
        cases hcap : capturedBy (s.texts.map (info s.cfg)) (info s.cfg txt) (p + 1) j with
        | false => rfl
        | true => exact absurd (by rw [f4 j hjl]; exact (hiff.mp hcap).2.2) hpar
      rw [this, if_neg hpar]; simp
  · rw [f3 (p + 1) (by omega), f4 p hp]
    exact specParent_insert_new_sibling_below _ (info s.cfg txt) p _ hlp (isCmt_of_cfg _ _ hcfg)
      (isCmt_of_cfg _ _ hxc) heq

end Ccp.Edit

/-! ### replace_text / re_sub -/

namespace Ccp.Edit
open Ccp.Py Ccp.Tree

theorem plain_set (cfg : Cfg) (ls : List Str) (p : Nat) (txt : Str) (hp : Plain cfg ls)
    (hb : isBannerStart txt = false) (hm : cfg.ios = true → isMacroStart txt = false) :
    Plain cfg (ls.set p txt) := by
  constructor
  · intro x hx
    rcases List.mem_or_eq_of_mem_set hx with h | rfl
    · exact hp.1 x h
    · exact hb
  · intro hios x hx
    rcases List.mem_or_eq_of_mem_set hx with h | rfl
    · exact hp.2 hios x h
    · exact hm hios

theorem nonBlank_set (ls : List Str) (p : Nat) (txt : Str) (h : ∀ x ∈ ls, nonBlank x = true)
    (ht : nonBlank txt = true) : ∀ x ∈ ls.set p txt, nonBlank x = true := by
  intro x hx
  rcases List.mem_or_eq_of_mem_set hx with h' | rfl
  · exact h x h'
  · exact ht

/-- **the text of line `p` replaced, then the auto-commit**: the lines above `p` keep their
parents whatever the new text is; when the new text has the indentation and the kind
(configuration line / comment / blank) of the old one, no line changes parent at all -/
theorem replace_parents (s : S) (p : Nat) (new : Str) (s' : S) (h : PlainCommitted s) (hx : PlainPayload s new)
    (hp : p < s.texts.length)
    (hs : s' = autoCommit { s with items := setText s.items p new, dirty := true }) :
    s'.texts = s.texts.set p new ∧
    (∀ j, j < p → parentOf s'.tree j = parentOf s.tree j) ∧
    (info s.cfg new = info s.cfg (s.texts.getD p []) → s'.tree.parents = s.tree.parents) := by
  obtain ⟨htree, _, _⟩ := h.fresh h.clean
  have hnb : s.cfg.ignoreBlank = true → ∀ x ∈ s.texts, nonBlank x = true := fresh_nonblank s h.clean h.fresh h.plain
  have hit : (setText s.items p new).map Item.text = s.texts.set p new := setText_texts s.items p new
  have hp' : Plain s.cfg (s.texts.set p new) := plain_set s.cfg s.texts p new h.plain hx.1 hx.2.1
  have hnb' : s.cfg.ignoreBlank = true → ∀ x ∈ s.texts.set p new, nonBlank x = true :=
    fun hi => nonBlank_set s.texts p new (hnb hi) (by rw [nonBlank_eq, hx.2.2 hi]; rfl)
  obtain ⟨h1, h2⟩ := auto_commit_plain s h.auto (setText s.items p new) s.stale (by rw [hit]; exact hp')
    (by rw [hit]; exact hnb')
  rw [hit] at h1 h2
  have hs' : s' = autoCommit { s with items := setText s.items p new, stale := s.stale, dirty := true } := hs
  rw [← hs'] at h1 h2
  have hlen : (s.texts.set p new).length = s.texts.length := by simp
  have hmap : (s.texts.set p new).map (info s.cfg) = (s.texts.map (info s.cfg)).set p (info s.cfg new) := by
    simp [List.map_set]
  refine ⟨h1, ?_, ?_⟩
  · intro j hj
    rw [h2, htree, parse_parentOf' s.cfg _ hp' hnb' j (by omega), parse_parentOf' s.cfg _ h.plain hnb j (by omega), hmap]
    apply specParent_congr
    intro m hm
    rw [List.getElem?_set_ne (by omega)]
  · intro hinfo
    have hsame : (s.texts.set p new).map (info s.cfg) = s.texts.map (info s.cfg) := by
      rw [hmap, hinfo]
      apply List.ext_getElem?
      intro m
      by_cases hm : m = p
      · subst hm
        rw [List.getElem?_set_self (by simpa using hp), info_getD s.cfg s.texts m hp]
      · rw [List.getElem?_set_ne (by omega)]
    rw [h2, htree, parse_noIg s.cfg _ hp' hnb', parse_noIg s.cfg _ h.plain hnb,
      parse_plain (noIg s.cfg) _ hp' rfl, parse_plain (noIg s.cfg) _ h.plain rfl]
    show linkByIndent (noIg s.cfg) (s.texts.set p new) = linkByIndent (noIg s.cfg) s.texts
    unfold linkByIndent
    show linkLoop St.init 0 ((s.texts.set p new).map (info s.cfg)) = linkLoop St.init 0 (s.texts.map (info s.cfg))
    rw [hsame]

end Ccp.Edit

/-! ### a blank payload under `ignore_blank_lines` -/

namespace Ccp.Edit
open Ccp.Py Ccp.Tree

/-- **a blank line inserted under `ignore_blank_lines` is dropped by the auto-commit**: texts
and tree are what they were -/
theorem auto_insert_blank_noop (s : S) (c : Nat) (txt : Str) (st : Bool) (h : PlainCommitted s)
    (hi : s.cfg.ignoreBlank = true) (hbl : isBlank txt = true)
    (hb : isBannerStart txt = false) (hm : s.cfg.ios = true → isMacroStart txt = false) :
    let s' := autoCommit { s with items := s.items.take c ++ fresh txt :: s.items.drop c, stale := st, dirty := true }
    s'.texts = s.texts ∧ s'.tree = s.tree := by
  intro s'
  obtain ⟨htree, _, _⟩ := h.fresh h.clean
  have hnb := fresh_nonblank s h.clean h.fresh h.plain hi
  have hit := items_insert_texts s c txt
  have hp' := plain_insert s.cfg s.texts c txt h.plain hb hm
  have hfil : (s.texts.take c ++ txt :: s.texts.drop c).filter nonBlank = s.texts := by
    have h1 : (s.texts.take c).filter nonBlank = s.texts.take c :=
      List.filter_eq_self.mpr (fun x hx => hnb x (List.mem_of_mem_take hx))
    have h2 : (s.texts.drop c).filter nonBlank = s.texts.drop c :=
      List.filter_eq_self.mpr (fun x hx => hnb x (List.mem_of_mem_drop hx))
    have h3 : nonBlank txt = false := by rw [nonBlank_eq, hbl]; rfl
    rw [List.filter_append, List.filter_cons, h3, h1, h2]
    simp
  have hparse : parse s.cfg (s.texts.take c ++ txt :: s.texts.drop c) = s.tree := by
    rw [parse_ignore_plain s.cfg _ hi hp', hfil, htree, parse_noIg s.cfg s.texts h.plain (fun _ => hnb)]
  have ht : s'.tree = s.tree := by
    show (autoCommit _).tree = _
    rw [auto_tree_after s h.auto, hit, hparse]
  refine ⟨?_, ht⟩
  show (autoCommit _).texts = _
  rw [autoCommit_on { s with items := s.items.take c ++ fresh txt :: s.items.drop c, stale := st, dirty := true } h.auto,
    commit_texts]
  show (bootstrap s.cfg ((s.items.take c ++ fresh txt :: s.items.drop c).map Item.text)).texts = _
  rw [hit, ← parse_eq_bootstrap, hparse, htree, parse_texts' s.cfg s.texts h.plain (fun _ => hnb)]

end Ccp.Edit

/-! ### the children of the target of a successful child-level append -/

namespace Ccp.Edit
open Ccp.Py Ccp.Tree

theorem cfi_some_mod (w si : Nat) (txt : Str) (a : Int) (h : cfi w si txt = some a) :
    w ≠ 0 ∧ indent txt % w = 0 := by
  unfold cfi at h
  dsimp only at h
  split at h
  · cases h
  · rename_i hw
    split at h
    · cases h
    · rename_i hm
      exact ⟨hw, by simpa using hm⟩

/-- a payload classified one level below a target whose indent is a multiple of the width is
indented exactly one width deeper -/
theorem cfi_one_eq (w si : Nat) (txt : Str) (h : cfi w si txt = some 1) (hs : si % w = 0) :
    indent txt = si + w := by
  have hlt := cfi_one_lt w si txt h
  obtain ⟨hw, hm⟩ := cfi_some_mod w si txt 1 h
  unfold cfi at h
  dsimp only at h
  rw [if_neg hw] at h
  have hm' : ¬ ((indent txt % w != 0) = true) := by simp [hm]
  rw [if_neg hm', if_neg (by omega)] at h
  injection h with h
  have hcast : ((indent txt : Int) - (si : Int)) = ((indent txt - si : Nat) : Int) := by omega
  rw [hcast] at h
  have hd : (indent txt - si) / w = 1 := by
    have : (((indent txt - si) / w : Nat) : Int) = 1 := h
    exact_mod_cast this
  have hmod : (indent txt - si) % w = 0 := by
    have := Nat.sub_mod_eq_zero_of_mod_eq (show indent txt % w = si % w by omega)
    exact this
  have := Nat.div_add_mod (indent txt - si) w
  rw [hd, hmod] at this
  omega

/-- a successful child-level append to a target with children classified the target's last
child and the target itself: both are indented on a multiple of the width -/
theorem appendIndex_child_level_cfi (t : T) (w self : Nat) (s : Str) (idx : Nat)
    (hk : children t self ≠ []) (h : appendIndex t w self s = .ok idx)
    (h0 : cfi w (indentOf t self) s ≠ some 0) :
    (∃ a, cfi w (indentOf t self) (t.texts.getD ((children t self).getLast?.getD self) []) = some a) ∧
    (∃ b, cfi w (indentOf t self) (t.texts.getD self []) = some b) := by
  unfold appendIndex at h
  dsimp only at h
  rw [if_neg (by simpa using hk)] at h
  split at h
  · rename_i c ifi hc hifi
    refine ⟨⟨c, hc⟩, ?_⟩
    split at h
    · rename_i hz; rw [hifi, hz] at h0; exact absurd rfl h0
    · split at h
      · cases h
      · rename_i selfc hselfc
        exact ⟨selfc, hselfc⟩
  · cases h

/-- **the hypothesis on the children of `appendToFamily_keeps_parents` is automatic**, for
every indent width: when a child-level append to a target with children succeeds, every
configuration-line child of the target is indented at least as deep as the payload (the code
classifies the last child and the target against the width, and the children of a line are
indented in non-increasing order) -/
theorem appendToFamily_children_deep (s : S) (i : Nat) (txt' : Str) (idx : Nat) (hc : PlainCommitted s)
    (hk : children s.tree i ≠ []) (h4 : appendIndex s.tree s.width i txt' = .ok idx)
    (h0 : cfi s.width (indentOf s.tree i) txt' ≠ some 0) :
    ∀ c, c ∈ children s.tree i → isConfigLine s.cfg (s.texts.getD c []) = true →
      indent txt' ≤ indent (s.texts.getD c []) := by
  intro c hcm hcc
  obtain ⟨htree, htexts, _⟩ := hc.fresh hc.clean
  have hnb : s.cfg.ignoreBlank = true → ∀ x ∈ s.texts, nonBlank x = true :=
    fresh_nonblank s hc.clean hc.fresh hc.plain
  have hst : SpecTree s.tree (s.texts.map (info s.cfg)) := by
    rw [htree]; exact parse_specTree' s.cfg s.texts hc.plain hnb
  obtain ⟨⟨a, ha⟩, ⟨b, hb⟩⟩ := appendIndex_child_level_cfi _ _ _ _ idx hk h4 h0
  have h1 := (appendIndex_child_level _ _ _ _ idx hk h4 h0).2
  rw [← htexts] at ha hb
  have hio : indentOf s.tree i = indent (s.texts.getD i []) := by rw [indentOf, ← htexts]
  obtain ⟨hw, hka⟩ := cfi_some_mod _ _ _ _ ha
  obtain ⟨_, hsi⟩ := cfi_some_mod _ _ _ _ hb
  have hx : indent txt' = indentOf s.tree i + s.width := cfi_one_eq _ _ _ h1 (by rw [hio]; exact hsi)
  -- the last child
  obtain ⟨k, hkl⟩ : ∃ k, (children s.tree i).getLast? = some k := by
    cases hl : (children s.tree i).getLast? with
    | none => exact absurd (List.getLast?_eq_none_iff.mp hl) hk
    | some k => exact ⟨k, rfl⟩
  rw [hkl] at hka
  simp only [Option.getD_some] at hka
  have hkm : k ∈ children s.tree i := List.mem_of_getLast? hkl
  have hck : c ≤ k := (getLast?_sorted_max (children_sorted s.tree i) hkl).2 c hcm
  have g : ∀ (j : Nat) (l : Info), (s.texts.map (info s.cfg))[j]? = some l → l = info s.cfg (s.texts.getD j []) := by
    intro j l hl
    have hj : j < s.texts.length := by simpa using (List.getElem?_eq_some_iff.mp hl).1
    rw [info_getD s.cfg s.texts j hj] at hl; cases hl; rfl
  -- the last child is deeper than the target, on a multiple of the width: at least one width deeper
  obtain ⟨hks, hpk, hki⟩ := mem_children.mp hkm
  obtain ⟨lp, lk, e1, e2, _, _, e5, e6⟩ := specTree_parent hst hks (by omega)
  rw [hpk] at e1 e6
  rw [g i lp e1, g k lk e2] at e5
  have e5' : indent (s.texts.getD i []) < indent (s.texts.getD k []) := e5
  have hkdeep : indentOf s.tree i + s.width ≤ indent (s.texts.getD k []) := by
    rw [hio]
    have hd := Nat.div_add_mod (indent (s.texts.getD k [])) s.width
    have hd' := Nat.div_add_mod (indent (s.texts.getD i [])) s.width
    rw [hka] at hd; rw [hsi] at hd'
    have : indent (s.texts.getD i []) / s.width < indent (s.texts.getD k []) / s.width := by
      apply Classical.byContradiction; intro hn
      have := Nat.mul_le_mul_left s.width (Nat.le_of_not_lt hn)
      omega
    have := Nat.mul_le_mul_left s.width (Nat.succ_le_of_lt this)
    rw [Nat.mul_succ] at this
    omega
  -- an earlier configuration-line child is at least as deep as the last one
  by_cases hckeq : c = k
  · subst hckeq; omega
  · obtain ⟨hcs, hpc, hci⟩ := mem_children.mp hcm
    have hcl := info_getD s.cfg s.texts c (by rw [← hst.2.1] at hcs; simpa using hcs)
    have hic : i < c := by have := parentOf_le_of_forest hst.1 c; omega
    have := ((nearestShallower_eq_some _ _ _ _).mp e6).2.2 c _ (by omega) (by omega) hcl
    rw [g k lk e2] at this
    have hnl : ¬ indent (s.texts.getD c []) < indent (s.texts.getD k []) := fun hh => this ⟨hcc, hh⟩
    omega

end Ccp.Edit
