import Ccp.Proofs.IosModels
import Ccp.Props.C02
import Ccp.Props.C03
import Ccp.Proofs.TreeForest
namespace Ccp.Ios
open Ccp.Py Ccp.Tree

/-! ## the tree of a flat stanza -/

/-- infos of a stanza: an unindented configuration line, then lines indented by one -/
def FlatInfos (infos : List Info) : Prop :=
  ∃ h ks, infos = h :: ks ∧ h.indent = 0 ∧ h.isCfg = true ∧ ∀ k ∈ ks, k.indent = 1

theorem nearest_flat (h : Info) (ks : List Info) (h0 : h.indent = 0) (hc : h.isCfg = true)
    (hk : ∀ k ∈ ks, k.indent = 1) (j : Nat) (hj : j ≤ ks.length) :
    nearestShallower (h :: ks) 1 (j + 1) = some 0 := by
  induction j with
  | zero => simp [nearestShallower, hc, h0]
  | succ j ih =>
    have hlt : j < ks.length := by omega
    have : (h :: ks)[j + 1]? = some ks[j] := by simp [hlt]
    rw [nearestShallower, this]
    have := hk ks[j] (List.getElem_mem hlt)
    simp [this, ih (by omega)]

theorem specParent_flat (h : Info) (ks : List Info) (h0 : h.indent = 0) (hc : h.isCfg = true)
    (hk : ∀ k ∈ ks, k.indent = 1) (i : Nat) (hi : i ≤ ks.length) : specParent (h :: ks) i = 0 := by
  cases i with
  | zero => simp [specParent, h0]
  | succ j =>
    have hlt : j < ks.length := by omega
    have hget : (h :: ks)[j + 1]? = some ks[j] := by simp [hlt]
    have h1 := hk ks[j] (List.getElem_mem hlt)
    have hprev : ∀ p, (h :: ks)[j]? = some p → ¬ p.indent > 1 := by
      intro p hp
      cases j with
      | zero => simp at hp; subst hp; omega
      | succ j' =>
        have hl' : j' < ks.length := by omega
        simp [hl'] at hp; subst hp
        have := hk ks[j'] (List.getElem_mem hl'); omega
    have hcud : commentUnderDeeper (h :: ks) (j + 1) = false := by
      unfold commentUnderDeeper
      rw [hget]; simp only
      cases hp : (h :: ks)[j]? with
      | none => simp
      | some p => simp [h1, hprev p hp]
    unfold specParent
    rw [hget]; simp only [h1, hcud]
    simp [nearest_flat h ks h0 hc hk j (by omega)]


theorem range_succ_filter (n : Nat) (p : Nat → Bool) (h0 : p 0 = false) (hs : ∀ i, i < n → p (i + 1) = true) :
    (List.range (n + 1)).filter p = (List.range n).map (· + 1) := by
  rw [List.range_succ_eq_map, List.filter_cons, h0]
  simp only [Bool.false_eq_true, if_false, List.filter_map]
  congr 1
  apply List.filter_eq_self.mpr
  intro i hi
  exact hs i (List.mem_range.mp hi)

theorem specChildren_flat (h : Info) (ks : List Info) (h0 : h.indent = 0) (hc : h.isCfg = true)
    (hk : ∀ k ∈ ks, k.indent = 1) :
    specChildren (h :: ks) 0 = (List.range ks.length).map (· + 1) ∧
    ∀ p, 0 < p → specChildren (h :: ks) p = [] := by
  constructor
  · unfold specChildren
    rw [List.length_cons]
    apply range_succ_filter
    · simp
    · intro i hi
      simp [specParent_flat h ks h0 hc hk (i + 1) (by omega)]
  · intro p hp
    unfold specChildren
    apply List.filter_eq_nil_iff.mpr
    intro i hi
    have hi' : i ≤ ks.length := by have := List.mem_range.mp hi; simp at this; omega
    simp [specParent_flat h ks h0 hc hk i hi']
    omega

theorem flatMap_single {α : Type} (l : List α) (f : α → List α) (h : ∀ c ∈ l, f c = [c]) : l.flatMap f = l := by
  induction l with
  | nil => rfl
  | cons x xs ih => simp [List.flatMap_cons, h x (by simp), ih (fun c hc => h c (by simp [hc]))]

/-- texts `1 … n` of `x :: xs` are `xs` -/
theorem map_getD_tail (x : Str) (xs : List Str) :
    ((List.range xs.length).map (· + 1)).map (fun j => (x :: xs).getD j []) = xs := by
  apply List.ext_getElem
  · simp
  · intro i h1 h2
    simp at h1
    simp [h1]

/-- **The family of a flat stanza.**  For any tree whose texts are `hdr :: kidTexts`, whose
line 0 is its own parent and whose child lists are: line 0 ↦ `1 … n`, every other line ↦ none,
the family record read by the accessors is: the header, its children, the order
header-then-children, and one singleton order per child. -/
theorem famOf_flat (t : T) (hdr : Str) (ks : List Str) (ht : t.texts = hdr :: ks)
    (hp0 : parentOf t 0 = 0)
    (hc0 : children t 0 = (List.range ks.length).map (· + 1))
    (hcs : ∀ p, 0 < p → children t p = []) :
    famOf t 0 = { self := hdr, kids := ks, order := hdr :: ks, secFams := ks.map (fun k => [k]) } := by
  have hsize : t.size = ks.length + 1 := by simp [T.size, ht]
  have hall : allChildren t 0 = (List.range ks.length).map (· + 1) := by
    unfold allChildren
    rw [hsize, allChildrenFuel, hc0]
    have hz : ∀ c ∈ (List.range ks.length).map (· + 1), allChildrenFuel t ks.length c = [] := by
      intro c hc
      obtain ⟨i, _, rfl⟩ := List.mem_map.mp hc
      cases ks.length with
      | zero => rfl
      | succ m => simp [allChildrenFuel, hcs (i + 1) (by omega)]
    have : ((List.range ks.length).map (· + 1)).flatMap (fun c => c :: allChildrenFuel t ks.length c)
        = (List.range ks.length).map (· + 1) := by
      exact flatMap_single _ _ (fun c hc => by rw [hz c hc])
    rw [this]
    apply sortKeep_id
    rw [List.pairwise_map]
    exact (List.pairwise_lt_range).imp (fun h => by omega)
  have htext : ∀ j, Typed.text t j = (hdr :: ks).getD j [] := fun j => by simp [Typed.text, ht]
  have hkids : ((List.range ks.length).map (· + 1)).map (Typed.text t) = ks := by
    rw [show Typed.text t = fun j => (hdr :: ks).getD j [] from funext htext]
    exact map_getD_tail hdr ks
  have hself : Typed.text t 0 = hdr := by simp [htext]
  unfold famOf
  simp only [Typed.order, if_true, hp0, hall, hc0, List.map_cons, hself, hkids]
  congr 1
  have hk2 : ks.map (fun k => [k]) = (((List.range ks.length).map (· + 1)).map (Typed.text t)).map (fun k => [k]) := by
    rw [hkids]
  rw [hk2, List.map_map, List.map_map, List.map_map]
  apply List.map_congr_left
  intro j hj
  simp [Function.comp, allChildren_nil_of_children_nil (hcs (j + 1) (by omega))]


/-! ### the rendered stanza as input of `Ccp.Tree.parse` -/

theorem lstrip_nonspace (c : Char) (r : Str) (hc : isSpace c = false) : lstrip (c :: r) = c :: r := by
  simp [lstrip, List.dropWhile, hc]

theorem info_unindented (cfg : Cfg) (c : Char) (r : Str) (hc : isSpace c = false)
    (hd : cfg.delims.contains c = false) :
    (info cfg (c :: r)).indent = 0 ∧ (info cfg (c :: r)).isCfg = true := by
  have hd' : ¬ c ∈ cfg.delims := by simpa using hd
  simp [info, indent, isConfigLine, isComment, lstrip_nonspace c r hc, hd']

theorem info_indent1 (cfg : Cfg) (c : Char) (r : Str) (hc : isSpace c = false) :
    (info cfg (' ' :: c :: r)).indent = 1 := by
  have h1 : lstrip (' ' :: c :: r) = c :: r := by
    have : isSpace ' ' = true := by decide
    simp [lstrip, List.dropWhile, this, hc]
  simp [info, indent, h1]

theorem join_head (w : Str) (ws : List Str) (hw : Word w) :
    ∃ c r, join [' '] (w :: ws) = c :: r ∧ isSpace c = false ∧ w.head? = some c := by
  obtain ⟨hne, hsp⟩ := hw
  cases w with
  | nil => exact absurd rfl hne
  | cons c w' =>
    cases ws with
    | nil => exact ⟨c, w', rfl, hsp c (by simp), rfl⟩
    | cons w2 ws2 => exact ⟨c, w' ++ [' '] ++ join [' '] (w2 :: ws2), by simp [join], hsp c (by simp), rfl⟩

theorem Item.words_cons (it : Item) (h : it.Valid) : ∃ w ws, it.words = w :: ws ∧ Word w := by
  have hne := wordsOf_ne_nil it h
  rw [wordsOf_render it h] at hne
  cases hw : it.words with
  | nil => exact absurd hw hne
  | cons w ws => exact ⟨w, ws, rfl, it.words_valid h w (by simp [hw])⟩

theorem render_shape (it : Item) (h : it.Valid) : ∃ c r, it.render = ' ' :: c :: r ∧ isSpace c = false := by
  obtain ⟨w, ws, hw, hword⟩ := it.words_cons h
  obtain ⟨c, r, hj, hc, _⟩ := join_head w ws hword
  exact ⟨c, r, by simp [Item.render, line, ind1, hw, hj], hc⟩

theorem hdr_shape (nm : List Str) : ∃ r, line [] (kInterface :: nm) = 'i' :: r := by
  obtain ⟨c, r, hj, _, hh⟩ := join_head kInterface nm (word_kw (by decide))
  have hk : kInterface.head? = some 'i' := by decide
  have : c = 'i' := by rw [hk] at hh; exact (Option.some.inj hh).symm
  exact ⟨r, by simp [line, hj, this]⟩

theorem isMacroStart_of_head (c : Char) (r : Str) (hc : c ≠ 'm') : isMacroStart (c :: r) = false := by
  simp [isMacroStart, List.take, hc]

/-- **`stanza_family`** — the tree builder puts exactly the rendered children under the
interface line.  Hypotheses: the header is `interface` + name words at column 0 and `i` is no
comment delimiter (so the header is a configuration line); every child is the rendering of a
valid item (one blank of indent, words joined by single blanks); no line is a banner start
(`banner <kw>` cannot occur — children are indented — but the unanchored
`aaa authentication fail-message` could, inside a description); blank lines are kept.  Then
the family record C05's order yields on line 0 of `Ccp.Tree.parse` is the flat family the
accessor theorems speak about. -/
theorem stanza_family (cfg : Cfg) (nm : List Str) (kids : List Item) (hv : ∀ it ∈ kids, it.Valid)
    (hd : cfg.delims.contains 'i' = false) (hi : cfg.ignoreBlank = false)
    (hb : ∀ x ∈ line [] (kInterface :: nm) :: kids.map Item.render, isBannerStart x = false) :
    famOf (parse cfg (line [] (kInterface :: nm) :: kids.map Item.render)) 0 =
      flatFam (line [] (kInterface :: nm)) kids := by
  obtain ⟨hr, hhdr⟩ := hdr_shape nm
  have hm : cfg.ios = true → ∀ x ∈ line [] (kInterface :: nm) :: kids.map Item.render, isMacroStart x = false := by
    intro _ x hx
    rcases List.mem_cons.mp hx with rfl | hx
    · rw [hhdr]; exact isMacroStart_of_head _ _ (by decide)
    · obtain ⟨it, hit, rfl⟩ := List.mem_map.mp hx
      obtain ⟨c, r, hs, _⟩ := render_shape it (hv it hit)
      rw [hs]; exact isMacroStart_of_head _ _ (by decide)
  obtain ⟨htexts, _, hch⟩ := C02.parse_links_eq_spec cfg _ hb hm hi
  have hinfo0 := info_unindented cfg 'i' hr (by decide) hd
  rw [← hhdr] at hinfo0
  have hk : ∀ k ∈ (kids.map Item.render).map (info cfg), k.indent = 1 := by
    intro k hk
    obtain ⟨s, hs, rfl⟩ := List.mem_map.mp hk
    obtain ⟨it, hit, rfl⟩ := List.mem_map.mp hs
    obtain ⟨c, r, hsh, hc⟩ := render_shape it (hv it hit)
    rw [hsh]; exact info_indent1 cfg c r hc
  have hsc := specChildren_flat (info cfg (line [] (kInterface :: nm))) ((kids.map Item.render).map (info cfg))
    hinfo0.1 hinfo0.2 hk
  simp only [List.map_cons] at hch
  have hlen : ((kids.map Item.render).map (info cfg)).length = (kids.map Item.render).length := by simp
  rw [hlen] at hsc
  have hpar0 : parentOf (parse cfg (line [] (kInterface :: nm) :: kids.map Item.render)) 0 = 0 := by
    have := C03.parse_forest cfg (line [] (kInterface :: nm) :: kids.map Item.render)
    exact Nat.le_zero.mp (this.2 0 (by simp [T.size, htexts]))
  have := famOf_flat _ _ _ htexts hpar0 (by rw [hch 0]; exact hsc.1) (fun p hp => by rw [hch p]; exact hsc.2 p hp)
  rw [this]
  simp [flatFam, List.map_map, Function.comp]

end Ccp.Ios
