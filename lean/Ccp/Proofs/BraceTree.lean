import Ccp.Proofs.Brace
import Ccp.Spec.Indent
import Ccp.Proofs.TreeLink
import Ccp.Proofs.TreeForest
/-!
C08 on the shared tree model (`Ccp.Model.Tree`, verified by C01–C03): on a list of
configuration lines the local indentation-parent rule of `Ccp.Brace.indentParents` is C02's
`specParent`, hence what pass 1 of the bootstrap (`linkByIndent`) computes.
-/
namespace Ccp.Brace
open Ccp.Py Ccp.Tree

/-! ### the local parent rule and C02's `specParent` -/

theorem lastSmaller_snoc_ge (x y : Nat) (a : List Nat) (h : ¬ y < x) :
    lastSmaller x (a ++ [y]) = lastSmaller x a :=
  lastSmaller_append_ge x a [y] (by intro z hz; simp at hz; omega)

theorem parentsFrom_getElem? : ∀ (ds pre : List Nat) (i : Nat) (d : Nat), ds[i]? = some d →
    (parentsFrom pre ds)[i]? = some (lastSmaller d (pre ++ ds.take i))
  | [], _, _, _, h => by simp at h
  | e :: ds, pre, 0, d, h => by
    have : e = d := by simpa using h
    simp [parentsFrom, this]
  | e :: ds, pre, i + 1, d, h => by
    have := parentsFrom_getElem? ds (pre ++ [e]) i d (by simpa using h)
    simpa [parentsFrom] using this

/-- when every line is a configuration line, C02's backwards search is the local rule -/
theorem nearestShallower_eq_lastSmaller (infos : List Info) (hcfg : ∀ l ∈ infos, l.isCfg = true) (k : Nat) :
    ∀ n, n ≤ infos.length → nearestShallower infos k n = lastSmaller k ((infos.take n).map (·.indent))
  | 0, _ => by simp [nearestShallower, lastSmaller]
  | j + 1, hn => by
    have hj : j < infos.length := by omega
    have ih := nearestShallower_eq_lastSmaller infos hcfg k j (by omega)
    have hl : infos[j]? = some infos[j] := List.getElem?_eq_getElem hj
    have hc : infos[j].isCfg = true := hcfg _ (List.getElem_mem hj)
    have htake : (infos.take (j + 1)).map (·.indent) = (infos.take j).map (·.indent) ++ [infos[j].indent] := by
      simp only [List.take_add_one, hl, Option.toList, List.map_append, List.map_cons, List.map_nil]
    unfold nearestShallower
    rw [hl, htake]
    simp only [hc, true_and]
    by_cases hlt : infos[j].indent < k
    · rw [if_pos hlt, lastSmaller_snoc_lt _ _ _ hlt]; simp; omega
    · rw [if_neg hlt, lastSmaller_snoc_ge _ _ _ hlt, ih]

/-- **The two parent rules coincide** on a list of configuration lines (no blank line, no
comment): C02's `specParent` of line `i` is the local rule's answer, a root being its own
parent. -/
theorem specParent_eq_local (infos : List Info) (hcfg : ∀ l ∈ infos, l.isCfg = true)
    (hcmt : ∀ l ∈ infos, l.isCmt = false) (i : Nat) (hi : i < infos.length) :
    ∃ q, (parentsFrom [] (infos.map (·.indent)))[i]? = some q ∧ specParent infos i = q.getD i := by
  have hl : infos[i]? = some infos[i] := List.getElem?_eq_getElem hi
  have hp := parentsFrom_getElem? (infos.map (·.indent)) [] i infos[i].indent (by simp [hl])
  refine ⟨_, hp, ?_⟩
  have hcu : commentUnderDeeper infos i = false := by
    unfold commentUnderDeeper
    cases i with
    | zero => rfl
    | succ j => simp [hl, hcmt _ (List.getElem_mem hi)]
  unfold specParent
  rw [hl]
  simp only [hcu, Bool.false_eq_true, or_false, List.nil_append]
  rw [nearestShallower_eq_lastSmaller infos hcfg _ i (by omega), List.map_take]
  by_cases h0 : infos[i].indent = 0
  · have : ∀ l : List Nat, lastSmaller 0 l = none := by
      intro l; induction l with
      | nil => rfl
      | cons a l ih => simp [lastSmaller, ih]
    simp [h0, this]
  · simp [h0]

/-- roots are their own parent in the shared model -/
def selfRoots : Nat → List (Option Nat) → List Nat
  | _, [] => []
  | i, p :: ps => p.getD i :: selfRoots (i + 1) ps

theorem selfRoots_getElem? : ∀ (ps : List (Option Nat)) (b i : Nat) (q : Option Nat), ps[i]? = some q →
    (selfRoots b ps)[i]? = some (q.getD (b + i))
  | [], _, _, _, h => by simp at h
  | p :: ps, b, 0, q, h => by
    have : p = q := by simpa using h
    simp [selfRoots, this]
  | p :: ps, b, i + 1, q, h => by
    have := selfRoots_getElem? ps (b + 1) i q (by simpa using h)
    simp only [selfRoots, List.getElem?_cons_succ, this]
    congr 2; omega

theorem selfRoots_length : ∀ (ps : List (Option Nat)) (b : Nat), (selfRoots b ps).length = ps.length
  | [], _ => rfl
  | _ :: ps, b => by simp [selfRoots, selfRoots_length ps (b + 1)]

theorem parentsFrom_length : ∀ (ds pre : List Nat), (parentsFrom pre ds).length = ds.length
  | [], _ => rfl
  | _ :: ds, pre => by simp [parentsFrom, parentsFrom_length ds]

/-- pass 1 of the shared bootstrap on lines that are all configuration lines -/
theorem linkByIndent_eq_local (cfg : Cfg) (ls : List Str)
    (hcfg : ∀ l ∈ ls, isConfigLine cfg l = true) :
    linkByIndent cfg ls = selfRoots 0 (indentParents ls) := by
  have hcmt : ∀ l ∈ ls, isComment cfg l = false := by
    intro l hl
    have := hcfg l hl
    simp only [isConfigLine, Bool.and_eq_true, Bool.not_eq_true'] at this
    exact this.2
  apply List.ext_getElem?
  intro i
  rw [linkByIndent_eq_map]
  by_cases hi : i < ls.length
  · obtain ⟨q, hq, hs⟩ := specParent_eq_local (ls.map (info cfg))
      (by intro l hl; obtain ⟨x, hx, rfl⟩ := List.mem_map.mp hl; exact hcfg x hx)
      (by intro l hl; obtain ⟨x, hx, rfl⟩ := List.mem_map.mp hl; exact hcmt x hx) i (by simpa using hi)
    have hq' : (indentParents ls)[i]? = some q := by
      unfold indentParents
      have : (ls.map (info cfg)).map (·.indent) = ls.map indent := by simp [info]
      rw [← this]; exact hq
    rw [selfRoots_getElem? _ 0 i q hq']
    simp [hi, hs]
  · have h1 : (indentParents ls).length = ls.length := by simp [indentParents, parentsFrom_length]
    rw [List.getElem?_eq_none (by simp; omega), List.getElem?_eq_none (by rw [selfRoots_length, h1]; omega)]


theorem lstrip_line {t : Str} (ht : TextOk t) (n : Nat) : lstrip (List.replicate n ' ' ++ t) = t := by
  obtain ⟨c, t', rfl, hc, -, -⟩ := ht.head
  induction n with
  | zero => simpa using lstrip_cons_printable t' hc
  | succ n ih =>
    have hs : isSpace ' ' = true := by decide
    simpa [lstrip, List.replicate_succ, hs] using ih

mutual
theorem flattenStmt_lines : ∀ (s : Stmt) (d : Nat), StmtOk s →
    ∀ l ∈ flattenStmt d s, ∃ n t, l = List.replicate n ' ' ++ t ∧ TextOk t
  | .node ws cs, d, hs => by
    have hws : WordsOk ws := by unfold StmtOk at hs; exact hs.1
    have hcs : ListOk cs := by unfold StmtOk at hs; exact hs.2
    intro l hl
    simp only [flattenStmt, List.mem_cons] at hl
    rcases hl with rfl | hl
    · exact ⟨_, _, rfl, words_textOk hws⟩
    · exact flattenList_lines cs (d + 1) hcs l hl
theorem flattenList_lines : ∀ (ss : List Stmt) (d : Nat), ListOk ss →
    ∀ l ∈ flattenList d ss, ∃ n t, l = List.replicate n ' ' ++ t ∧ TextOk t
  | [], _, _ => by simp [flattenList]
  | s :: ss, d, hs => by
    have hs1 : StmtOk s := by unfold ListOk at hs; exact hs.1
    have hs2 : ListOk ss := by unfold ListOk at hs; exact hs.2
    intro l hl
    simp only [flattenList, List.mem_append] at hl
    rcases hl with hl | hl
    · exact flattenStmt_lines s d hs1 l hl
    · exact flattenList_lines ss d hs2 l hl
end

theorem flatten_isConfigLine (cfg : Cfg) (T : List Stmt) (hT : ListOk T)
    (hc : ∀ l ∈ flatten T, isComment cfg l = false) : ∀ l ∈ flatten T, isConfigLine cfg l = true := by
  intro l hl
  obtain ⟨n, t, rfl, ht⟩ := flattenList_lines T 0 hT l hl
  obtain ⟨c, t', rfl, -⟩ := ht.head
  simp [isConfigLine, hc _ hl, lstrip_line ht n]


/-- the tree of a brace-syntax parse satisfies the shared model's invariant, whatever was converted -/
theorem junosParse_inv (lines : List Str) (t : T) (h : junosParse lines = .ok t) :
    ∃ out, junosToIos lines = .ok out ∧ t.texts = out ∧ Inv out.length t := by
  unfold junosParse at h
  cases ho : junosToIos lines with
  | error e => simp [ho] at h
  | ok out =>
    simp only [ho] at h
    injection h with h
    subst h
    exact ⟨out, rfl, rfl, rfl, linkByIndent_length _ _, linkByIndent_below _ _⟩

end Ccp.Brace
