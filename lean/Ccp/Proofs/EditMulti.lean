import Ccp.Proofs.EditFrame
/-!
Parent links after a list-level `insert_before` / `insert_after` (C06 deepening): the new
list holds the old lines at the positions marked by `insertMarks`; removing the inserted
copies gives back the old list (`sel_insertAtMatches`), so `specParent_sel` applies *in
reverse*: an old line whose new parent is an old line has the image of its old parent as its
new parent.  For copies placed above configuration lines that are not indented deeper than
the payload, no old line is adopted by a copy.  Core Lean only.
-/
namespace Ccp.Tree
open Ccp.Py

/-- which positions of `insertAtMatches after x l row` (with `n = l.length`) hold old lines -/
def insertMarks (after : Bool) : Nat → List Bool → List Bool
  | 0, _ => []
  | _ + 1, [] => []
  | n + 1, b :: bs =>
    if b then (if after then true :: false :: insertMarks after n bs else false :: true :: insertMarks after n bs)
    else true :: insertMarks after n bs

/-- positions beyond the marks hold old lines (the unmatched tail) -/
def markFn (m : List Bool) (q : Nat) : Bool := m.getD q true

theorem markFn_cons_succ (b : Bool) (m : List Bool) (q : Nat) : markFn (b :: m) (q + 1) = markFn m q := by
  simp [markFn]

theorem markFn_cons_zero (b : Bool) (m : List Bool) : markFn (b :: m) 0 = b := by simp [markFn]

theorem sel_shift (keep : Nat → Bool) (c : Nat) (l : List α) :
    sel keep (c + 1) l = sel (fun q => keep (q + 1)) c l := by
  induction l generalizing c with
  | nil => rfl
  | cons a as ih => simp only [sel, ih (c + 1)]

theorem sel_all (c : Nat) (l : List α) : sel (fun _ => true) c l = l := by
  induction l generalizing c with
  | nil => rfl
  | cons a as ih => simp [sel, ih]

theorem sel_markFn_cons (b : Bool) (m : List Bool) (a : α) (l : List α) :
    sel (markFn (b :: m)) 0 (a :: l) = if b then a :: sel (markFn m) 0 l else sel (markFn m) 0 l := by
  have : (fun q => markFn (b :: m) (q + 1)) = markFn m := by funext q; exact markFn_cons_succ b m q
  simp only [sel, markFn_cons_zero, sel_shift, this]

/-- removing the inserted copies gives back the old list -/
theorem sel_insertAtMatches (after : Bool) (x : α) (l : List α) (row : List Bool) :
    sel (markFn (insertMarks after l.length row)) 0 (Ccp.Edit.insertAtMatches after x l row) = l := by
  induction l generalizing row with
  | nil => cases row <;> rfl
  | cons a as ih =>
    cases row with
    | nil =>
      have : markFn (insertMarks after (a :: as).length []) = fun _ => true := by
        funext q; simp [insertMarks, markFn]
      rw [this]; exact sel_all 0 _
    | cons b bs =>
      simp only [List.length_cons, insertMarks, Ccp.Edit.insertAtMatches]
      cases b
      · simp [sel_markFn_cons, ih bs]
      · cases after
        · simp [sel_markFn_cons, ih bs]
        · simp [sel_markFn_cons, ih bs]

/-- **copies placed above matched lines**: a position marked as a copy holds `x`, and the
position directly behind it holds a matched old line -/
theorem insertBefore_next (x : α) (Q : α → Prop) (l : List α) (row : List Bool)
    (hQ : ∀ i a, l[i]? = some a → row.getD i false = true → Q a) :
    ∀ P, markFn (insertMarks false l.length row) P = false →
      (Ccp.Edit.insertAtMatches false x l row)[P]? = some x ∧
      markFn (insertMarks false l.length row) (P + 1) = true ∧
      ∃ a, (Ccp.Edit.insertAtMatches false x l row)[P + 1]? = some a ∧ Q a := by
  induction l generalizing row with
  | nil => intro P hP; cases row <;> simp [insertMarks, markFn] at hP
  | cons a as ih =>
    intro P hP
    cases row with
    | nil => simp [insertMarks, markFn] at hP
    | cons b bs =>
      have hQ' : ∀ i a', as[i]? = some a' → bs.getD i false = true → Q a' := by
        intro i a' h1 h2
        exact hQ (i + 1) a' (by simpa using h1) (by simpa using h2)
      simp only [List.length_cons, insertMarks, Ccp.Edit.insertAtMatches] at hP ⊢
      cases b
      · simp only [Bool.false_eq_true, if_false] at hP ⊢
        cases P with
        | zero => simp [markFn] at hP
        | succ P =>
          rw [markFn_cons_succ] at hP
          obtain ⟨h1, h2, a', h3, h4⟩ := ih bs hQ' P hP
          exact ⟨by simpa using h1, by rw [markFn_cons_succ]; exact h2, a', by simpa using h3, h4⟩
      · simp only [if_true, Bool.false_eq_true, if_false] at hP ⊢
        cases P with
        | zero =>
          refine ⟨by simp, by simp [markFn], a, by simp, hQ 0 a (by simp) (by simp)⟩
        | succ P =>
          cases P with
          | zero => simp [markFn] at hP
          | succ P =>
            rw [markFn_cons_succ, markFn_cons_succ] at hP
            obtain ⟨h1, h2, a', h3, h4⟩ := ih bs hQ' P hP
            exact ⟨by simpa using h1, by rw [markFn_cons_succ, markFn_cons_succ]; exact h2, a',
              by simpa using h3, h4⟩

/-- **removal read backwards** (specification level): `keep` marks the old lines inside the
new list `N`.  An old line at new position `q` that is not a comment directly behind an
inserted line, and whose new parent is an old line (or itself), has — at its old position
`rank keep q` of the old list `sel keep 0 N` — the old position of its new parent as parent. -/
theorem specParent_unsel (keep : Nat → Bool) (N : List Info) (q : Nat) (hq : q < N.length)
    (hk : keep q = true)
    (hcm : ¬ (N[q].isCmt = true ∧ ∃ q', q = q' + 1 ∧ keep q' = false))
    (hpar : keep (specParent N q) = true) :
    specParent (sel keep 0 N) (rank keep q) = rank keep (specParent N q) := by
  have hcud : commentUnderDeeper (sel keep 0 N) (rank keep q) = commentUnderDeeper N q := by
    cases q with
    | zero => simp [rank, commentUnderDeeper]
    | succ q' =>
      apply commentUnderDeeper_sel keep N _ hq hk
      by_cases hc : N[q' + 1].isCmt = true
      · right
        refine ⟨q', rfl, ?_⟩
        cases hk' : keep q' with
        | true => rfl
        | false => exact absurd ⟨hc, q', rfl, hk'⟩ hcm
      · left; simpa using hc
  exact specParent_sel keep N q hq hk hcud (.inr hpar)

/-- **no old line is adopted by a copy placed above a configuration line that is not indented
deeper than the copy** -/
theorem no_adoption_before (x : Info) (infos : List Info) (row : List Bool)
    (hQ : ∀ i a, infos[i]? = some a → row.getD i false = true → a.isCfg = true ∧ a.indent ≤ x.indent)
    (q : Nat) (hq : q < (Ccp.Edit.insertAtMatches false x infos row).length)
    (hk : markFn (insertMarks false infos.length row) q = true) :
    markFn (insertMarks false infos.length row)
      (specParent (Ccp.Edit.insertAtMatches false x infos row) q) = true := by
  generalize hN : Ccp.Edit.insertAtMatches false x infos row = N at hq ⊢
  cases hP : markFn (insertMarks false infos.length row) (specParent N q) with
  | true => rfl
  | false =>
    exfalso
    have hne : specParent N q ≠ q := by intro h; rw [h, hk] at hP; cases hP
    have hl : N[q]? = some N[q] := List.getElem?_eq_getElem hq
    obtain ⟨_, _, g3⟩ := specParent_ne_self hl rfl hne
    obtain ⟨hp1, ⟨lP, e1, e2, e3⟩, hp3⟩ := (nearestShallower_eq_some N _ q _).mp g3
    obtain ⟨n1, _, a, n3, n4, n5⟩ := insertBefore_next x (fun a => a.isCfg = true ∧ a.indent ≤ x.indent) infos row hQ _ hP
    rw [hN] at n1 n3
    rw [n1] at e1; cases e1
    by_cases hnext : specParent N q + 1 = q
    · rw [hnext, hl] at n3; cases n3; omega
    · exact hp3 (specParent N q + 1) a (by omega) (by omega) n3 ⟨n4, by omega⟩

end Ccp.Tree

namespace Ccp.Edit
open Ccp.Py Ccp.Tree

theorem mem_insertAtMatches {α} (after : Bool) (x : α) (l : List α) (row : List Bool) (y : α)
    (h : y ∈ insertAtMatches after x l row) : y = x ∨ y ∈ l := by
  induction l generalizing row with
  | nil => cases row <;> simp [insertAtMatches] at h
  | cons a as ih =>
    cases row with
    | nil => right; simpa [insertAtMatches] using h
    | cons b bs =>
      have tail : y ∈ insertAtMatches after x as bs → y = x ∨ y ∈ a :: as := fun h' =>
        (ih bs h').imp id (List.mem_cons_of_mem _)
      simp only [insertAtMatches] at h
      cases b
      · simp only [Bool.false_eq_true, if_false, List.mem_cons] at h
        rcases h with h | h
        · right; rw [h]; exact List.mem_cons_self ..
        · exact tail h
      · cases after
        · simp only [if_true, Bool.false_eq_true, if_false, List.mem_cons] at h
          rcases h with h | h | h
          · left; exact h
          · right; rw [h]; exact List.mem_cons_self ..
          · exact tail h
        · simp only [if_true, List.mem_cons] at h
          rcases h with h | h | h
          · right; rw [h]; exact List.mem_cons_self ..
          · left; exact h
          · exact tail h

/-- **the parent frame of a list-level insert**: `keep` marks the positions of the new list
that hold old lines; removing the others gives back the old texts; an old line at new
position `q` was at `rank keep q`; unless it is a comment directly behind an inserted copy,
or its new parent is an inserted copy, its old parent is the old position of its new parent -/
def MultiFrame (s s' : S) (after : Bool) (row : List Bool) (txt : Str) : Prop :=
  let keep := markFn (insertMarks after s.texts.length row)
  s'.texts = insertAtMatches after txt s.texts row ∧
  sel keep 0 s'.texts = s.texts ∧
  ∀ q, q < s'.texts.length → keep q = true →
    rank keep q < s.texts.length ∧ s.texts[rank keep q]? = s'.texts[q]? ∧
    (¬ (isComment s.cfg (s'.texts.getD q []) = true ∧ ∃ q', q = q' + 1 ∧ keep q' = false) →
      keep (parentOf s'.tree q) = true →
      parentOf s.tree (rank keep q) = rank keep (parentOf s'.tree q))

/-- what `multiFrame_of_step` and the same-indent corollary share -/
theorem multi_insert_spec (s : S) (after : Bool) (row : List Bool) (txt : Str) (s' : S) (h : PlainCommitted s)
    (hx : PlainPayload s txt)
    (hs : s' = autoCommit { s with items := insertAtMatches after (fresh txt) s.items row, dirty := true }) :
    let keep := markFn (insertMarks after s.texts.length row)
    let N := insertAtMatches after (info s.cfg txt) (s.texts.map (info s.cfg)) row
    s'.texts = insertAtMatches after txt s.texts row ∧
    sel keep 0 s'.texts = s.texts ∧
    sel keep 0 N = s.texts.map (info s.cfg) ∧ N.length = s'.texts.length ∧
    (∀ q, q < s'.texts.length → parentOf s'.tree q = specParent N q) ∧
    (∀ j, j < s.texts.length → parentOf s.tree j = specParent (s.texts.map (info s.cfg)) j) ∧
    (∀ q (hq : q < N.length), N[q] = info s.cfg (s'.texts.getD q [])) := by
  intro keep N
  obtain ⟨htree, _, _⟩ := h.fresh h.clean
  have hnb : s.cfg.ignoreBlank = true → ∀ x ∈ s.texts, nonBlank x = true := fresh_nonblank s h.clean h.fresh h.plain
  have hit : (insertAtMatches after (fresh txt) s.items row).map Item.text = insertAtMatches after txt s.texts row := by
    rw [insertAtMatches_map, fresh_text, items_map_text]
  have hp' : Plain s.cfg (insertAtMatches after txt s.texts row) := by
    constructor
    · intro y hy
      rcases mem_insertAtMatches after txt s.texts row y hy with rfl | hy
      · exact hx.1
      · exact h.plain.1 y hy
    · intro hios y hy
      rcases mem_insertAtMatches after txt s.texts row y hy with rfl | hy
      · exact hx.2.1 hios
      · exact h.plain.2 hios y hy
  have hnb' : s.cfg.ignoreBlank = true → ∀ y ∈ insertAtMatches after txt s.texts row, nonBlank y = true := by
    intro hi y hy
    rcases mem_insertAtMatches after txt s.texts row y hy with rfl | hy
    · rw [nonBlank_eq, hx.2.2 hi]; rfl
    · exact hnb hi y hy
  obtain ⟨h1, h2⟩ := auto_commit_plain s h.auto (insertAtMatches after (fresh txt) s.items row) s.stale
    (by rw [hit]; exact hp') (by rw [hit]; exact hnb')
  rw [hit] at h1 h2
  have hs' : s' = autoCommit
      { s with items := insertAtMatches after (fresh txt) s.items row, stale := s.stale, dirty := true } := hs
  rw [← hs'] at h1 h2
  have hNmap : (insertAtMatches after txt s.texts row).map (info s.cfg) = N := insertAtMatches_map _ _ _ _ _
  have hNlen : N.length = s'.texts.length := by rw [h1, ← hNmap]; simp
  refine ⟨h1, ?_, ?_, hNlen, ?_, ?_, ?_⟩
  · rw [h1]; exact sel_insertAtMatches after txt s.texts row
  · have := sel_insertAtMatches after (info s.cfg txt) (s.texts.map (info s.cfg)) row
    simpa using this
  · intro q hq
    rw [h2, parse_parentOf' s.cfg _ hp' hnb' q (by rw [← h1]; exact hq), hNmap]
  · intro j hj
    rw [htree]; exact parse_parentOf' s.cfg s.texts h.plain hnb j hj
  · intro q hq
    have hq' : q < s'.texts.length := by omega
    have : N[q]? = some (info s.cfg (s'.texts.getD q [])) := by
      rw [← hNmap, ← h1]; exact info_getD s.cfg s'.texts q hq'
    rw [List.getElem?_eq_getElem hq] at this
    exact Option.some.inj this

theorem multiFrame_of_step (s : S) (after : Bool) (row : List Bool) (txt : Str) (s' : S) (h : PlainCommitted s)
    (hx : PlainPayload s txt)
    (hs : s' = autoCommit { s with items := insertAtMatches after (fresh txt) s.items row, dirty := true }) :
    MultiFrame s s' after row txt := by
  obtain ⟨g1, g2, g3, g4, g5, g6, g7⟩ := multi_insert_spec s after row txt s' h hx hs
  refine ⟨g1, g2, ?_⟩
  intro q hq hk
  have hget := sel_getElem? (markFn (insertMarks after s.texts.length row)) s'.texts q hq hk
  rw [g2] at hget
  have hr : rank (markFn (insertMarks after s.texts.length row)) q < s.texts.length := by
    have : s.texts[rank (markFn (insertMarks after s.texts.length row)) q]? = some s'.texts[q] := by
      rw [hget, List.getElem?_eq_getElem hq]
    exact (List.getElem?_eq_some_iff.mp this).1
  refine ⟨hr, hget, ?_⟩
  intro hcm hpar
  rw [g5 q hq] at hpar ⊢
  have := specParent_unsel _ _ q (by omega) hk (by rw [g7 q (by omega)]; exact hcm) hpar
  rw [g3] at this
  rw [g6 _ hr]; exact this

/-- **copies placed above configuration lines that are not indented deeper than the payload**:
every old line's new parent is an old line, and its old parent is that line's old position -/
theorem multi_insert_before_same (s : S) (row : List Bool) (txt : Str) (s' : S) (h : PlainCommitted s)
    (hx : PlainPayload s txt)
    (hs : s' = autoCommit { s with items := insertAtMatches false (fresh txt) s.items row, dirty := true })
    (hQ : ∀ i, i < s.texts.length → row.getD i false = true →
      isConfigLine s.cfg (s.texts.getD i []) = true ∧ indent (s.texts.getD i []) ≤ indent txt) :
    let keep := markFn (insertMarks false s.texts.length row)
    ∀ q, q < s'.texts.length → keep q = true →
      keep (parentOf s'.tree q) = true ∧ parentOf s.tree (rank keep q) = rank keep (parentOf s'.tree q) := by
  intro keep q hq hk
  obtain ⟨g1, g2, g3, g4, g5, g6, g7⟩ := multi_insert_spec s false row txt s' h hx hs
  obtain ⟨_, _, f3⟩ := multiFrame_of_step s false row txt s' h hx hs
  have hQ' : ∀ i a, (s.texts.map (info s.cfg))[i]? = some a → row.getD i false = true →
      a.isCfg = true ∧ a.indent ≤ (info s.cfg txt).indent := by
    intro i a ha hr
    have hi : i < s.texts.length := by simpa using (List.getElem?_eq_some_iff.mp ha).1
    rw [info_getD s.cfg s.texts i hi] at ha
    cases ha
    exact hQ i hi hr
  have hlen : (s.texts.map (info s.cfg)).length = s.texts.length := by simp
  have hkeep : keep (parentOf s'.tree q) = true := by
    rw [g5 q hq]
    have := no_adoption_before (info s.cfg txt) (s.texts.map (info s.cfg)) row hQ' q (by omega) (by rw [hlen]; exact hk)
    rw [hlen] at this; exact this
  refine ⟨hkeep, (f3 q hq hk).2.2 ?_ hkeep⟩
  -- a line directly behind a copy is a matched line, hence a configuration line, not a comment
  rintro ⟨hc, q', rfl, hk'⟩
  obtain ⟨_, _, a, n3, n4, _⟩ := insertBefore_next (info s.cfg txt)
    (fun a => a.isCfg = true ∧ a.indent ≤ (info s.cfg txt).indent) (s.texts.map (info s.cfg)) row hQ' q'
    (by rw [hlen]; exact hk')
  have hq2 : q' + 1 < (insertAtMatches false (info s.cfg txt) (s.texts.map (info s.cfg)) row).length := by omega
  rw [List.getElem?_eq_getElem hq2, g7 (q' + 1) hq2] at n3
  cases n3
  have : isComment s.cfg (s'.texts.getD (q' + 1) []) = false := isCmt_of_cfg _ _ n4
  rw [this] at hc; cases hc

end Ccp.Edit
