import Ccp.Proofs.EditPrefix
/-!
One line inserted into a config *with* banner / macro families (C06 deepening).  The
insertion point `c` is not inside a family body (`ClosedAt`: every banner / macro start above
`c` finds its terminator above `c`) and the new line starts no family.  Then passes 2 and 3 do
to the new list what they do to the old one, the writes below `c` shifted by one
(`S`, a shifted simulation of the walks), so an old line below `c` either keeps its parent
(shifted) or is adopted by the new line in pass 1 — exactly when `capturedBy` says so.
Core Lean only.
-/
namespace Ccp.Tree
open Ccp.Py

/-- every banner start above `c` that opens a multi-line banner finds its delimiter above `c`;
under syntax ios every macro start above `c` finds its `@` above `c` -/
def ClosedAt (cfg : Cfg) (ls : List Str) (c : Nat) : Prop :=
  (∀ p x d, p < c → ls[p]? = some x → isBannerStart x = true → bannerDelim x = some d → ¬ countChar d x ≥ 2 →
    ∃ m y, p < m ∧ m < c ∧ ls[m]? = some y ∧ (strip y).contains d = true) ∧
  (cfg.ios = true → ∀ p x, p < c → ls[p]? = some x → isMacroStart x = true →
    ∃ m y, p < m ∧ m < c ∧ ls[m]? = some y ∧ (rstrip y == ['@']) = true)

/-! ### a walk that meets its terminator does not see what follows -/

theorem bannerWalk_stop (d : Char) (p : Nat) (r1 C : List Str) (h : ∃ y ∈ r1, (strip y).contains d = true) :
    ∀ (idx : Nat) (t : T), bannerWalk d p idx (r1 ++ C) t = bannerWalk d p idx r1 t := by
  induction r1 with
  | nil => obtain ⟨y, hy, _⟩ := h; cases hy
  | cons x r ih =>
    intro idx t
    simp only [List.cons_append]
    unfold bannerWalk
    split
    · rfl
    · rename_i hx
      obtain ⟨y, hy, hyd⟩ := h
      rcases List.mem_cons.mp hy with rfl | hy
      · exact absurd hyd hx
      · exact ih ⟨y, hy, hyd⟩ _ _

theorem macroWalk_stop (p : Nat) (r1 C : List Str) (h : ∃ y ∈ r1, (rstrip y == ['@']) = true) :
    ∀ (idx : Nat) (t : T), macroWalk p idx (r1 ++ C) t = macroWalk p idx r1 t := by
  induction r1 with
  | nil => obtain ⟨y, hy, _⟩ := h; cases hy
  | cons x r ih =>
    intro idx t
    simp only [List.cons_append]
    unfold macroWalk
    dsimp only
    split
    · rfl
    · rename_i hx
      obtain ⟨y, hy, hyd⟩ := h
      rcases List.mem_cons.mp hy with rfl | hy
      · exact absurd hyd hx
      · exact ih ⟨y, hy, hyd⟩ _ _

/-! ### a walk over `r1` from `idx` writes below `idx + |r1|` only -/

/-- `t` and `t0` have the same parent entries from `n` on, the same texts and sizes -/
def SameFrom (n : Nat) (t t0 : T) : Prop :=
  (∀ j, n ≤ j → t.parents[j]? = t0.parents[j]?) ∧ t.texts = t0.texts ∧ t.parents.length = t0.parents.length ∧
  t.keep.length = t0.keep.length

theorem sameFrom_refl (n : Nat) (t : T) : SameFrom n t t := ⟨fun _ _ => rfl, rfl, rfl, rfl⟩

theorem sameFrom_trans {n : Nat} {a b c : T} (h1 : SameFrom n a b) (h2 : SameFrom n b c) : SameFrom n a c :=
  ⟨fun j hj => (h1.1 j hj).trans (h2.1 j hj), h1.2.1.trans h2.2.1, h1.2.2.1.trans h2.2.2.1, h1.2.2.2.trans h2.2.2.2⟩

theorem sameFrom_reparent (n : Nat) (t : T) (p c : Nat) (hc : c < n) : SameFrom n (reparent t p c) t := by
  refine ⟨fun j hj => ?_, rfl, by simp [reparent], rfl⟩
  simp only [reparent]
  rw [List.getElem?_set_ne (by omega)]

theorem sameFrom_setKeep (n : Nat) (t : T) (i : Nat) : SameFrom n (setKeep t i) t :=
  ⟨fun _ _ => rfl, rfl, rfl, by simp [setKeep]⟩

theorem bannerWalk_low (d : Char) (p n : Nat) (r1 : List Str) :
    ∀ (idx : Nat) (t : T), idx + r1.length ≤ n → SameFrom n (bannerWalk d p idx r1 t) t := by
  induction r1 with
  | nil => intro _ t _; exact sameFrom_refl n t
  | cons x r ih =>
    intro idx t hi
    simp only [List.length_cons] at hi
    unfold bannerWalk
    split
    · exact sameFrom_reparent n t p idx (by omega)
    · exact sameFrom_trans (ih (idx + 1) _ (by omega))
        (sameFrom_trans (sameFrom_setKeep n _ idx) (sameFrom_reparent n t p idx (by omega)))

theorem macroWalk_low (p n : Nat) (r1 : List Str) :
    ∀ (idx : Nat) (t : T), idx + r1.length ≤ n → SameFrom n (macroWalk p idx r1 t) t := by
  induction r1 with
  | nil => intro _ t _; exact sameFrom_refl n t
  | cons x r ih =>
    intro idx t hi
    simp only [List.length_cons] at hi
    unfold macroWalk
    have h' : SameFrom n (reparent (setKeep t idx) p idx) t :=
      sameFrom_trans (sameFrom_reparent n _ p idx (by omega)) (sameFrom_setKeep n t idx)
    dsimp only
    split
    · exact h'
    · exact sameFrom_trans (ih (idx + 1) _ (by omega)) h'

/-- elements of `A` behind position `p` -/
theorem mem_drop_of_getElem? {α} (A : List α) (p m : Nat) (y : α) (hpm : p < m) (h : A[m]? = some y) :
    y ∈ A.drop (p + 1) := by
  rw [List.mem_iff_getElem?]
  refine ⟨m - (p + 1), ?_⟩
  rw [List.getElem?_drop]
  have : p + 1 + (m - (p + 1)) = m := by omega
  rw [this]; exact h

/-- **the starts above a closed insertion point** leave the parent entries from `n` on alone:
processing the first `|A|` lines of `A ++ C` amounts to a change below `n` followed by the
processing of `C` -/
theorem markBannersFrom_closed (cfg : Cfg) (A C : List Str) (hcl : ClosedAt cfg (A ++ C) A.length) (r1 : List Str) :
    ∀ (i : Nat) (t : T), i + r1.length = A.length → r1 = A.drop i → t.texts = A ++ C →
      ∃ tm, markBannersFrom i (r1 ++ C) t = markBannersFrom A.length C tm ∧ SameFrom A.length tm t := by
  induction r1 with
  | nil =>
    intro i t hi _ _
    simp only [List.length_nil, Nat.add_zero] at hi
    exact ⟨t, by rw [hi]; rfl, sameFrom_refl _ t⟩
  | cons y r ih =>
    intro i t hi hr ht
    simp only [List.length_cons] at hi
    simp only [List.cons_append]
    have hunf : markBannersFrom i (y :: (r ++ C)) t
        = markBannersFrom (i + 1) (r ++ C) (if isBannerStart y = true then markBanner t i y else t) := rfl
    rw [hunf]
    have hr' : r = A.drop (i + 1) := by
      have := congrArg List.tail hr
      simpa using this
    have hy : (A ++ C)[i]? = some y := by
      rw [List.getElem?_append_left (by omega)]
      have := congrArg List.head? hr
      simp only [List.head?_cons, List.head?_drop] at this
      exact this.symm
    have hstep : SameFrom A.length (if isBannerStart y = true then markBanner t i y else t) t := by
      split
      · rename_i hs
        unfold markBanner
        split
        · exact sameFrom_setKeep _ t i
        · rename_i d hd
          split
          · exact sameFrom_setKeep _ t i
          · rename_i hcnt
            obtain ⟨m, z, hpm, hmc, hz, hzd⟩ := hcl.1 i y d (by omega) hy hs hd hcnt
            rw [List.getElem?_append_left hmc] at hz
            have hmem : z ∈ A.drop (i + 1) := mem_drop_of_getElem? A i m z hpm hz
            have e1 : (setKeep t i).texts.drop (i + 1) = A.drop (i + 1) ++ C := by
              show t.texts.drop (i + 1) = _
              rw [ht, List.drop_append_of_le_length (by omega)]
            show SameFrom A.length (bannerWalk d i (i + 1) ((setKeep t i).texts.drop (i + 1)) (setKeep t i)) t
            rw [e1, bannerWalk_stop d i _ C ⟨z, hmem, hzd⟩]
            exact sameFrom_trans (bannerWalk_low d i A.length _ (i + 1) _ (by simp; omega)) (sameFrom_setKeep _ t i)
      · exact sameFrom_refl _ t
    obtain ⟨tm, e, hs⟩ := ih (i + 1) _ (by omega) hr' (by rw [hstep.2.1]; exact ht)
    exact ⟨tm, e, sameFrom_trans hs hstep⟩

theorem markMacrosFrom_closed (cfg : Cfg) (hios : cfg.ios = true) (A C : List Str)
    (hcl : ClosedAt cfg (A ++ C) A.length) (r1 : List Str) :
    ∀ (i : Nat) (t : T), i + r1.length = A.length → r1 = A.drop i → t.texts = A ++ C →
      ∃ tm, markMacrosFrom i (r1 ++ C) t = markMacrosFrom A.length C tm ∧ SameFrom A.length tm t := by
  induction r1 with
  | nil =>
    intro i t hi _ _
    simp only [List.length_nil, Nat.add_zero] at hi
    exact ⟨t, by rw [hi]; rfl, sameFrom_refl _ t⟩
  | cons y r ih =>
    intro i t hi hr ht
    simp only [List.length_cons] at hi
    simp only [List.cons_append]
    have hunf : markMacrosFrom i (y :: (r ++ C)) t
        = markMacrosFrom (i + 1) (r ++ C)
            (if isMacroStart y = true then macroWalk i (i + 1) (t.texts.drop (i + 1)) (setKeep t i) else t) := rfl
    rw [hunf]
    have hr' : r = A.drop (i + 1) := by
      have := congrArg List.tail hr
      simpa using this
    have hy : (A ++ C)[i]? = some y := by
      rw [List.getElem?_append_left (by omega)]
      have := congrArg List.head? hr
      simp only [List.head?_cons, List.head?_drop] at this
      exact this.symm
    have hstep : SameFrom A.length
        (if isMacroStart y = true then macroWalk i (i + 1) (t.texts.drop (i + 1)) (setKeep t i) else t) t := by
      split
      · rename_i hs
        obtain ⟨m, z, hpm, hmc, hz, hzd⟩ := hcl.2 hios i y (by omega) hy hs
        rw [List.getElem?_append_left hmc] at hz
        have hmem : z ∈ A.drop (i + 1) := mem_drop_of_getElem? A i m z hpm hz
        have e1 : t.texts.drop (i + 1) = A.drop (i + 1) ++ C := by
          rw [ht, List.drop_append_of_le_length (by omega)]
        rw [e1, macroWalk_stop i _ C ⟨z, hmem, hzd⟩]
        exact sameFrom_trans (macroWalk_low i A.length _ (i + 1) _ (by simp; omega)) (sameFrom_setKeep _ t i)
      · exact sameFrom_refl _ t
    obtain ⟨tm, e, hs⟩ := ih (i + 1) _ (by omega) hr' (by rw [hstep.2.1]; exact ht)
    exact ⟨tm, e, sameFrom_trans hs hstep⟩

/-! ### the walks below the insertion point, shifted by one -/

/-- how an entry of the new tree at `j + 1` relates to the entry of the old tree at `j`: both
are still the pass-1 values, or both were written by the same walk (start `q` below `n`) -/
def G (n : Nat) (P1 P2 : List Nat) (j : Nat) (a b : Option Nat) : Prop :=
  (a = P2[j + 1]? ∧ b = P1[j]?) ∨ (∃ q, n ≤ q ∧ a = some (q + 1) ∧ b = some q)

/-- the shifted simulation: `t2` (new list) is `t1` (old list) with one more line at `n` -/
def S (n : Nat) (P1 P2 : List Nat) (t1 t2 : T) : Prop :=
  t2.parents.length = t1.parents.length + 1 ∧ t2.parents[n]? = P2[n]? ∧
  ∀ j, n ≤ j → G n P1 P2 j t2.parents[j + 1]? t1.parents[j]?

theorem S_of_sameFrom {n : Nat} {P1 P2 : List Nat} {t1 t2 t1' t2' : T} (h : S n P1 P2 t1 t2)
    (h1 : SameFrom n t1' t1) (h2 : SameFrom n t2' t2) : S n P1 P2 t1' t2' := by
  refine ⟨by rw [h1.2.2.1, h2.2.2.1]; exact h.1, by rw [h2.1 n (Nat.le_refl _)]; exact h.2.1, fun j hj => ?_⟩
  rw [h1.1 j hj, h2.1 (j + 1) (by omega)]
  exact h.2.2 j hj

theorem S_reparent {n : Nat} {P1 P2 : List Nat} {t1 t2 : T} (h : S n P1 P2 t1 t2) (p idx : Nat)
    (hp : n ≤ p) (hpi : p < idx) (hi : idx < t1.parents.length) :
    S n P1 P2 (reparent t1 p idx) (reparent t2 (p + 1) (idx + 1)) := by
  obtain ⟨hl, hn, hg⟩ := h
  refine ⟨by simp [reparent, hl], ?_, fun j hj => ?_⟩
  · simp only [reparent]
    rw [List.getElem?_set_ne (by omega)]; exact hn
  · simp only [reparent]
    by_cases hji : j = idx
    · subst hji
      rw [List.getElem?_set_self (by omega), List.getElem?_set_self hi]
      exact .inr ⟨p, hp, rfl, rfl⟩
    · rw [List.getElem?_set_ne (by omega), List.getElem?_set_ne (by omega)]
      exact hg j hj

theorem S_setKeep {n : Nat} {P1 P2 : List Nat} {t1 t2 : T} (h : S n P1 P2 t1 t2) (i j : Nat) :
    S n P1 P2 (setKeep t1 i) (setKeep t2 j) := h

theorem bannerWalk_shift (d : Char) (n : Nat) (P1 P2 : List Nat) (p : Nat) (hp : n ≤ p) (rest : List Str) :
    ∀ (idx : Nat) (t1 t2 : T), p < idx → idx + rest.length = t1.parents.length → S n P1 P2 t1 t2 →
      S n P1 P2 (bannerWalk d p idx rest t1) (bannerWalk d (p + 1) (idx + 1) rest t2) := by
  induction rest with
  | nil => intro _ _ _ _ _ h; exact h
  | cons x r ih =>
    intro idx t1 t2 hpi hlen h
    simp only [List.length_cons] at hlen
    unfold bannerWalk
    split
    · exact S_reparent h p idx hp hpi (by omega)
    · exact ih (idx + 1) _ _ (by omega) (by simp [setKeep, reparent]; omega)
        (S_setKeep (S_reparent h p idx hp hpi (by omega)) idx (idx + 1))

theorem macroWalk_shift (n : Nat) (P1 P2 : List Nat) (p : Nat) (hp : n ≤ p) (rest : List Str) :
    ∀ (idx : Nat) (t1 t2 : T), p < idx → idx + rest.length = t1.parents.length → S n P1 P2 t1 t2 →
      S n P1 P2 (macroWalk p idx rest t1) (macroWalk (p + 1) (idx + 1) rest t2) := by
  induction rest with
  | nil => intro _ _ _ _ _ h; exact h
  | cons x r ih =>
    intro idx t1 t2 hpi hlen h
    simp only [List.length_cons] at hlen
    unfold macroWalk
    have h' : S n P1 P2 (reparent (setKeep t1 idx) p idx) (reparent (setKeep t2 (idx + 1)) (p + 1) (idx + 1)) :=
      S_reparent (S_setKeep h idx (idx + 1)) p idx hp hpi (by simp [setKeep]; omega)
    dsimp only
    split
    · exact h'
    · exact ih (idx + 1) _ _ (by omega) (by simp [setKeep, reparent]; omega) h'

theorem markBannersFrom_shift (n : Nat) (P1 P2 : List Nat) (r : List Str) :
    ∀ (i : Nat) (t1 t2 : T), n ≤ i → t1.WF → t1.texts.drop i = r → t2.texts.drop (i + 1) = r → S n P1 P2 t1 t2 →
      S n P1 P2 (markBannersFrom i r t1) (markBannersFrom (i + 1) r t2) := by
  induction r with
  | nil => intro _ _ _ _ _ _ _ h; exact h
  | cons y r' ih =>
    intro i t1 t2 hi hwf h1 h2 h
    have hil : i < t1.texts.length := by
      apply Classical.byContradiction; intro hn
      rw [List.drop_eq_nil_of_le (by omega)] at h1; cases h1
    have d1 : t1.texts.drop (i + 1) = r' := by rw [← List.tail_drop, h1]; rfl
    have d2 : t2.texts.drop (i + 1 + 1) = r' := by rw [← List.tail_drop, h2]; rfl
    have hunf1 : markBannersFrom i (y :: r') t1
        = markBannersFrom (i + 1) r' (if isBannerStart y = true then markBanner t1 i y else t1) := rfl
    have hunf2 : markBannersFrom (i + 1) (y :: r') t2
        = markBannersFrom (i + 1 + 1) r' (if isBannerStart y = true then markBanner t2 (i + 1) y else t2) := rfl
    rw [hunf1, hunf2]
    by_cases hs : isBannerStart y = true
    · simp only [hs, if_true]
      apply ih (i + 1) _ _ (by omega) (markBanner_wf _ _ _ hwf)
        (by rw [markBanner_texts]; exact d1) (by rw [markBanner_texts]; exact d2)
      unfold markBanner
      split
      · exact S_setKeep h i (i + 1)
      · split
        · exact S_setKeep h i (i + 1)
        · rename_i d _ _
          show S n P1 P2 (bannerWalk d i (i + 1) (t1.texts.drop (i + 1)) (setKeep t1 i))
            (bannerWalk d (i + 1) (i + 1 + 1) (t2.texts.drop (i + 1 + 1)) (setKeep t2 (i + 1)))
          rw [d1, d2]
          refine bannerWalk_shift d n P1 P2 i hi r' (i + 1) _ _ (by omega) ?_ (S_setKeep h i (i + 1))
          show i + 1 + r'.length = t1.parents.length
          rw [hwf.1, ← d1]; simp; omega
    · simp only [hs]
      exact ih (i + 1) _ _ (by omega) hwf d1 d2 h

theorem markMacrosFrom_shift (n : Nat) (P1 P2 : List Nat) (r : List Str) :
    ∀ (i : Nat) (t1 t2 : T), n ≤ i → t1.WF → t1.texts.drop i = r → t2.texts.drop (i + 1) = r → S n P1 P2 t1 t2 →
      S n P1 P2 (markMacrosFrom i r t1) (markMacrosFrom (i + 1) r t2) := by
  induction r with
  | nil => intro _ _ _ _ _ _ _ h; exact h
  | cons y r' ih =>
    intro i t1 t2 hi hwf h1 h2 h
    have hil : i < t1.texts.length := by
      apply Classical.byContradiction; intro hn
      rw [List.drop_eq_nil_of_le (by omega)] at h1; cases h1
    have d1 : t1.texts.drop (i + 1) = r' := by rw [← List.tail_drop, h1]; rfl
    have d2 : t2.texts.drop (i + 1 + 1) = r' := by rw [← List.tail_drop, h2]; rfl
    have hunf1 : markMacrosFrom i (y :: r') t1
        = markMacrosFrom (i + 1) r'
            (if isMacroStart y = true then macroWalk i (i + 1) (t1.texts.drop (i + 1)) (setKeep t1 i) else t1) := rfl
    have hunf2 : markMacrosFrom (i + 1) (y :: r') t2
        = markMacrosFrom (i + 1 + 1) r'
            (if isMacroStart y = true then macroWalk (i + 1) (i + 1 + 1) (t2.texts.drop (i + 1 + 1)) (setKeep t2 (i + 1))
             else t2) := rfl
    rw [hunf1, hunf2]
    by_cases hs : isMacroStart y = true
    · simp only [hs, if_true]
      apply ih (i + 1) _ _ (by omega) (macroWalk_wf _ _ _ _ (setKeep_wf _ _ hwf))
        (by rw [macroWalk_texts]; exact d1) (by rw [macroWalk_texts]; exact d2)
      rw [d1, d2]
      refine macroWalk_shift n P1 P2 i hi r' (i + 1) _ _ (by omega) ?_ (S_setKeep h i (i + 1))
      show i + 1 + r'.length = t1.parents.length
      rw [hwf.1, ← d1]; simp; omega
    · simp only [hs]
      exact ih (i + 1) _ _ (by omega) hwf d1 d2 h

/-! ### assembly -/

theorem closedAt_congr (cfg : Cfg) (A C C' : List Str) (h : ClosedAt cfg (A ++ C) A.length) :
    ClosedAt cfg (A ++ C') A.length := by
  constructor
  · intro p x d hp hx hs hd hc
    rw [List.getElem?_append_left hp] at hx
    obtain ⟨m, y, h1, h2, h3, h4⟩ := h.1 p x d hp (by rw [List.getElem?_append_left hp]; exact hx) hs hd hc
    rw [List.getElem?_append_left h2] at h3
    exact ⟨m, y, h1, h2, by rw [List.getElem?_append_left h2]; exact h3, h4⟩
  · intro hios p x hp hx hs
    rw [List.getElem?_append_left hp] at hx
    obtain ⟨m, y, h1, h2, h3, h4⟩ := h.2 hios p x hp (by rw [List.getElem?_append_left hp]; exact hx) hs
    rw [List.getElem?_append_left h2] at h3
    exact ⟨m, y, h1, h2, by rw [List.getElem?_append_left h2]; exact h3, h4⟩

theorem wf_of_sameFrom {n : Nat} {t t0 : T} (h : SameFrom n t t0) (hw : t0.WF) : t.WF :=
  ⟨by rw [h.2.2.1, h.2.1]; exact hw.1, by rw [h.2.2.2, h.2.1]; exact hw.2⟩

/-- **passes 1–3 on a config with one more line at a closed position**: the new tree is the
old one, shifted below the insertion point, up to the pass-1 values (`S`) -/
theorem link_insert_shift (cfg : Cfg) (A B : List Str) (x : Str)
    (hcl : ClosedAt cfg (A ++ B) A.length) (hxb : isBannerStart x = false)
    (hxm : cfg.ios = true → isMacroStart x = false) :
    S A.length (linkByIndent cfg (A ++ B)) (linkByIndent cfg (A ++ x :: B))
      (link cfg (A ++ B)) (link cfg (A ++ x :: B)) := by
  generalize hP1 : linkByIndent cfg (A ++ B) = P1
  generalize hP2 : linkByIndent cfg (A ++ x :: B) = P2
  have hcl' := closedAt_congr cfg A B (x :: B) hcl
  have hl1 : P1.length = (A ++ B).length := by rw [← hP1]; exact linkByIndent_length_ll cfg _
  have hl2 : P2.length = (A ++ x :: B).length := by rw [← hP2]; exact linkByIndent_length_ll cfg _
  -- the initial trees
  have hS0 : S A.length P1 P2
      { texts := A ++ B, parents := P1, keep := (A ++ B).map (fun _ => false) }
      { texts := A ++ x :: B, parents := P2, keep := (A ++ x :: B).map (fun _ => false) } :=
    ⟨by simp only [hl1, hl2]; simp; omega, rfl, fun j _ => .inl ⟨rfl, rfl⟩⟩
  have hw0 : T.WF { texts := A ++ B, parents := P1, keep := (A ++ B).map (fun _ => false) } :=
    ⟨hl1, by simp⟩
  -- banners
  obtain ⟨tm1, e1, s1⟩ := markBannersFrom_closed cfg A B hcl A 0
    { texts := A ++ B, parents := P1, keep := (A ++ B).map (fun _ => false) } (by simp) (by simp) rfl
  obtain ⟨tm2, e2, s2⟩ := markBannersFrom_closed cfg A (x :: B) hcl' A 0
    { texts := A ++ x :: B, parents := P2, keep := (A ++ x :: B).map (fun _ => false) } (by simp) (by simp) rfl
  have e2' : markBannersFrom A.length (x :: B) tm2 = markBannersFrom (A.length + 1) B tm2 := by
    show markBannersFrom (A.length + 1) B (if isBannerStart x = true then markBanner tm2 A.length x else tm2) = _
    rw [hxb]; rfl
  have hSb : S A.length P1 P2 (markBannersFrom A.length B tm1) (markBannersFrom (A.length + 1) B tm2) :=
    markBannersFrom_shift A.length P1 P2 B A.length tm1 tm2 (Nat.le_refl _) (wf_of_sameFrom s1 hw0)
      (by rw [s1.2.1]; simp) (by rw [s2.2.1]; simp) (S_of_sameFrom hS0 s1 s2)
  have hwb : (markBannersFrom A.length B tm1).WF := markBannersFrom_wf _ _ _ (wf_of_sameFrom s1 hw0)
  have htb1 : (markBannersFrom A.length B tm1).texts = A ++ B := by rw [markBannersFrom_texts, s1.2.1]
  have htb2 : (markBannersFrom (A.length + 1) B tm2).texts = A ++ x :: B := by rw [markBannersFrom_texts, s2.2.1]
  unfold link markBanners
  simp only [hP1, hP2]
  rw [e1, e2, e2']
  unfold markMacros
  by_cases hios : cfg.ios = true
  · simp only [hios, if_true]
    rw [htb1, htb2]
    obtain ⟨tn1, f1, u1⟩ := markMacrosFrom_closed cfg hios A B hcl A 0 _ (by simp) (by simp) htb1
    obtain ⟨tn2, f2, u2⟩ := markMacrosFrom_closed cfg hios A (x :: B) hcl' A 0 _ (by simp) (by simp) htb2
    have f2' : markMacrosFrom A.length (x :: B) tn2 = markMacrosFrom (A.length + 1) B tn2 := by
      show markMacrosFrom (A.length + 1) B
        (if isMacroStart x = true then macroWalk A.length (A.length + 1) (tn2.texts.drop (A.length + 1)) (setKeep tn2 A.length)
         else tn2) = _
      rw [hxm hios]; rfl
    rw [f1, f2, f2']
    exact markMacrosFrom_shift A.length P1 P2 B A.length tn1 tn2 (Nat.le_refl _) (wf_of_sameFrom u1 hwb)
      (by rw [u1.2.1, htb1]; simp) (by rw [u2.2.1, htb2]; simp) (S_of_sameFrom hSb u1 u2)
  · simp only [hios]
    exact hSb

theorem linkByIndent_getElem? (cfg : Cfg) (ls : List Str) (k : Nat) (hk : k < ls.length) :
    (linkByIndent cfg ls)[k]? = some (specParent (ls.map (info cfg)) k) := by
  rw [linkByIndent_eq_map]
  simp [hk]

/-- **one line inserted at a closed position of any config** (banner / macro families
included; the new line starts none): the new line has its pass-1 parent; an old line at or
below the insertion point — other than a comment directly behind the new line — keeps its
parent, shifted by one, or is adopted by the new line, which happens only when it is captured
in the sense of the indentation rule (`capturedBy`) -/
theorem link_insert_closed (cfg : Cfg) (A B : List Str) (x : Str)
    (hcl : ClosedAt cfg (A ++ B) A.length) (hxb : isBannerStart x = false)
    (hxm : cfg.ios = true → isMacroStart x = false) :
    parentOf (link cfg (A ++ x :: B)) A.length = specParent ((A ++ x :: B).map (info cfg)) A.length ∧
    ∀ j, A.length ≤ j → j < (A ++ B).length → ¬ (j = A.length ∧ isComment cfg ((A ++ B).getD j []) = true) →
      parentOf (link cfg (A ++ x :: B)) (j + 1) = shiftAt A.length (parentOf (link cfg (A ++ B)) j) ∨
      (capturedBy ((A ++ B).map (info cfg)) (info cfg x) A.length j = true ∧
        parentOf (link cfg (A ++ x :: B)) (j + 1) = A.length) := by
  obtain ⟨_, hn, hg⟩ := link_insert_shift cfg A B x hcl hxb hxm
  have hlen' : (A ++ x :: B).length = (A ++ B).length + 1 := by simp; omega
  constructor
  · unfold parentOf
    rw [List.getD_eq_getElem?_getD, hn, linkByIndent_getElem? cfg _ _ (by simp)]
    rfl
  · intro j hcj hjl hcm
    have hnew : (A ++ x :: B).map (info cfg)
        = ((A ++ B).map (info cfg)).take A.length ++ info cfg x :: ((A ++ B).map (info cfg)).drop A.length := by
      simp [List.map_append]
    obtain ⟨_, f2⟩ := specParent_insert ((A ++ B).map (info cfg)) (info cfg x) A.length (by simp)
    have hfr := f2 j _ hcj (info_getD cfg (A ++ B) j hjl) hcm
    rw [← hnew] at hfr
    unfold parentOf
    rw [List.getD_eq_getElem?_getD, List.getD_eq_getElem?_getD]
    rcases hg j hcj with ⟨ha, hb⟩ | ⟨q, hq, ha, hb⟩
    · rw [ha, hb, linkByIndent_getElem? cfg _ _ (by omega), linkByIndent_getElem? cfg _ _ hjl]
      simp only [Option.getD_some]
      rw [hfr]
      by_cases hcap : capturedBy ((A ++ B).map (info cfg)) (info cfg x) A.length j = true
      · right; exact ⟨hcap, by rw [if_pos hcap]⟩
      · left; rw [if_neg hcap]
    · left
      rw [ha, hb]
      simp only [Option.getD_some, shiftAt]
      rw [if_neg (by omega)]

end Ccp.Tree

namespace Ccp.Tree
open Ccp.Py

/-- executable form of `ClosedAt` (for concrete configs) -/
def closedAtB (cfg : Cfg) (ls : List Str) (c : Nat) : Bool :=
  (List.range c).all (fun p =>
    match ls[p]? with
    | none => true
    | some x =>
      (if isBannerStart x then
        (match bannerDelim x with
         | none => true
         | some d => decide (countChar d x ≥ 2) ||
            (List.range c).any (fun m => decide (p < m) &&
              (match ls[m]? with | some y => (strip y).contains d | none => false)))
       else true) &&
      (if cfg.ios && isMacroStart x then
        (List.range c).any (fun m => decide (p < m) &&
          (match ls[m]? with | some y => rstrip y == ['@'] | none => false))
       else true))

theorem closedAt_of_check (cfg : Cfg) (ls : List Str) (c : Nat) (h : closedAtB cfg ls c = true) :
    ClosedAt cfg ls c := by
  unfold closedAtB at h
  rw [List.all_eq_true] at h
  constructor
  · intro p x d hp hx hs hd hc
    have := h p (List.mem_range.mpr hp)
    simp only [hx, hs, if_true, hd, Bool.and_eq_true, Bool.or_eq_true, decide_eq_true_eq] at this
    rcases this.1 with h1 | h1
    · exact absurd h1 hc
    · rw [List.any_eq_true] at h1
      obtain ⟨m, hm, hmm⟩ := h1
      simp only [Bool.and_eq_true, decide_eq_true_eq] at hmm
      cases hy : ls[m]? with
      | none => rw [hy] at hmm; cases hmm.2
      | some y => rw [hy] at hmm; exact ⟨m, y, hmm.1, List.mem_range.mp hm, hy, hmm.2⟩
  · intro hios p x hp hx hs
    have := h p (List.mem_range.mpr hp)
    simp only [hx, hios, hs, Bool.and_self, if_true, Bool.and_eq_true] at this
    have h1 := this.2
    rw [List.any_eq_true] at h1
    obtain ⟨m, hm, hmm⟩ := h1
    simp only [Bool.and_eq_true, decide_eq_true_eq] at hmm
    cases hy : ls[m]? with
    | none => rw [hy] at hmm; cases hmm.2
    | some y => rw [hy] at hmm; exact ⟨m, y, hmm.1, List.mem_range.mp hm, hy, hmm.2⟩

end Ccp.Tree

namespace Ccp.Edit
open Ccp.Py Ccp.Tree

/-- **the parent frame of a one-line insertion into any config** (banner / macro families
included): as `InsertFrame`, but an old line at or below `c` keeps its parent (shifted) *or*
is adopted by the new line, the latter only when it is captured in the sense of the
indentation rule -/
def InsertFrameW (s s' : S) (c : Nat) (txt : Str) : Prop :=
  s'.texts = s.texts.take c ++ txt :: s.texts.drop c ∧
  (∀ j, j < c → parentOf s'.tree j = parentOf s.tree j) ∧
  (∀ j, c ≤ j → j < s.texts.length → ¬ (j = c ∧ isComment s.cfg (s.texts.getD j []) = true) →
    parentOf s'.tree (j + 1) = shiftAt c (parentOf s.tree j) ∨
    (capturedBy (s.texts.map (info s.cfg)) (info s.cfg txt) c j = true ∧ parentOf s'.tree (j + 1) = c))

theorem insertFrameW_of_step (s : S) (c : Nat) (txt : Str) (st : Bool) (s' : S)
    (hd : s.dirty = false) (hinv : FreshInv s) (ha : s.auto = true) (hig : s.cfg.ignoreBlank = false)
    (hc : c ≤ s.texts.length) (hcl : ClosedAt s.cfg s.texts c)
    (hb : isBannerStart txt = false) (hm : s.cfg.ios = true → isMacroStart txt = false)
    (hs : s' = autoCommit { s with items := s.items.take c ++ fresh txt :: s.items.drop c, stale := st, dirty := true }) :
    InsertFrameW s s' c txt := by
  obtain ⟨htree, _, _⟩ := hinv hd
  have hit := items_insert_texts s c txt
  have htexts : s'.texts = s.texts.take c ++ txt :: s.texts.drop c := by
    rw [hs, edited_texts s (.inr hig), hit]
  have ht' : s'.tree = link s.cfg (s.texts.take c ++ txt :: s.texts.drop c) := by
    rw [hs, auto_tree_after s ha, hit, parse_eq_bootstrap, bootstrap_noignore _ _ hig]
  have ht : s.tree = link s.cfg (s.texts.take c ++ s.texts.drop c) := by
    rw [List.take_append_drop, htree, parse_eq_bootstrap, bootstrap_noignore _ _ hig]
  have hlen : (s.texts.take c).length = c := by simp; omega
  have hcl' : ClosedAt s.cfg (s.texts.take c ++ s.texts.drop c) (s.texts.take c).length := by
    rw [List.take_append_drop, hlen]; exact hcl
  obtain ⟨_, g2⟩ := link_insert_closed s.cfg (s.texts.take c) (s.texts.drop c) txt hcl' hb hm
  rw [hlen, List.take_append_drop] at g2
  refine ⟨htexts, ?_, ?_⟩
  · intro j hj
    rw [ht', ht]
    exact link_parent_prefix s.cfg (s.texts.take c) _ _ j (by omega)
  · intro j h1 h2 h3
    rw [ht', htree, parse_eq_bootstrap, bootstrap_noignore _ _ hig]
    exact g2 j h1 h2 h3

end Ccp.Edit
