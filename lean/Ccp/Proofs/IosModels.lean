import Ccp.Model.IosModels
namespace Ccp.Ios
end Ccp.Ios
