import Ccp.Model.IosModels
import Ccp.Proofs.RangeCompress
namespace Ccp.Ios
open Ccp.Py Ccp.Tree

def Word (w : Str) : Prop := w ≠ [] ∧ ∀ c ∈ w, isSpace c = false
def toksOf : List Str → List Tok
  | [] => []
  | [w] => [(w, [])]
  | w :: w2 :: ws => (w, [' ']) :: toksOf (w2 :: ws)
def line (ind : Str) (ws : List Str) : Str := ind ++ join [' '] ws
theorem lex_cons_nonspace (c : Char) (cs : Str) (hc : isSpace c = false) :
    lex (c :: cs) = consWord [c] (lex cs) := by
  rw [lex]; simp [hc]

theorem consWord_consWord (c : Char) (w : Str) (r : Str × List Tok) :
    consWord [c] (consWord w r) = consWord (c :: w) r := by
  obtain ⟨g, ts⟩ := r
  cases g <;> cases ts <;> simp [consWord]

theorem lex_word_append (w : Str) (hw : Word w) (rest : Str) :
    lex (w ++ rest) = consWord w (lex rest) := by
  obtain ⟨hne, hsp⟩ := hw
  induction w with
  | nil => exact absurd rfl hne
  | cons c w ih =>
    have hc : isSpace c = false := hsp c (by simp)
    cases w with
    | nil => simpa using lex_cons_nonspace c rest hc
    | cons c2 w2 =>
      have ih' := ih (by simp) (fun x hx => hsp x (by simp [hx]))
      rw [List.cons_append, lex_cons_nonspace c _ hc, ih', consWord_consWord]

theorem lex_join (ws : List Str) (hws : ∀ w ∈ ws, Word w) : lex (join [' '] ws) = ([], toksOf ws) := by
  induction ws with
  | nil => rfl
  | cons w ws ih =>
    cases ws with
    | nil =>
      have := lex_word_append w (hws w (by simp)) []
      simpa [join, toksOf, lex, consWord] using this
    | cons w2 ws2 =>
      have ih' := ih (fun x hx => hws x (by simp [hx]))
      have hsp : isSpace ' ' = true := by decide
      have h1 : lex (' ' :: join [' '] (w2 :: ws2)) = ([' '], toksOf (w2 :: ws2)) := by
        rw [lex]; simp [hsp, ih']
      have := lex_word_append w (hws w (by simp)) (' ' :: join [' '] (w2 :: ws2))
      rw [h1] at this
      simpa [join, toksOf, consWord] using this

theorem lex_line (ind : Str) (ws : List Str) (hind : ∀ c ∈ ind, isSpace c = true)
    (hws : ∀ w ∈ ws, Word w) : lex (line ind ws) = (ind, toksOf ws) := by
  induction ind with
  | nil => simpa [line] using lex_join ws hws
  | cons c ind ih =>
    have ih' := ih (fun x hx => hind x (by simp [hx]))
    have hc := hind c (by simp)
    simp only [line, List.cons_append] at ih' ⊢
    rw [lex]; simp [hc, ih']


/-! ## the description grammar -/

/-- one child command of an interface stanza -/
inductive Item
  | descr (ws : List Str)
  | addr (a m : Str)
  | addrKw (kw : Str)
  | secondary (a m : Str)
  | vrf (name : Str)
  | ipVrf (name : Str)
  | mtu (n : Nat)
  | ipMtu (n : Nat)
  | shutdown (w : Str)
  | switchport
  | mode (m : Str)
  | accessVlan (n : Nat)
  | nativeVlan (n : Nat)
  | allowed (v : Str)
  | channelGroup (n : Nat) (rest : List Str)
  | other (ws : List Str)
deriving DecidableEq

def Item.words : Item → List Str
  | .descr ws => kDescription :: ws
  | .addr a m => [kIp, kAddress, a, m]
  | .addrKw kw => [kIp, kAddress, kw]
  | .secondary a m => [kIp, kAddress, a, m, kSecondary]
  | .ipVrf n => [kIp, kVrf, kForwarding, n]
  | .vrf n => [kVrf, kForwarding, n]
  | .mtu n => [kMtu, toDec n]
  | .ipMtu n => [kIp, kMtu, toDec n]
  | .shutdown w => [w]
  | .switchport => [kSwitchport]
  | .mode m => [kSwitchport, kMode, m]
  | .accessVlan n => [kSwitchport, kAccess, kVlan, toDec n]
  | .nativeVlan n => [kSwitchport, kTrunk, kNative, kVlan, toDec n]
  | .allowed v => [kSwitchport, kTrunk, kAllowed, kVlan, v]
  | .channelGroup n rest => kChannelGroup :: toDec n :: rest
  | .other ws => ws

def keywords : List Str := [kDescription, kMtu, kVrf, kSwitchport, kChannelGroup, kInterface]

/-- second words that make an `ip …` line one of the described commands -/
def ipSecond : List Str := [kAddress, kMtu, kVrf, kIp]

/-- side conditions on the values of an item -/
def Item.Valid : Item → Prop
  | .descr ws => ws ≠ [] ∧ ∀ w ∈ ws, Word w
  | .addr a m => Word a ∧ Word m ∧ isQuadShape a = true ∧ isQuadShape m = true
  | .addrKw kw => kw = kDhcp ∨ kw = kNegotiated
  | .secondary a m => Word a ∧ Word m
  | .vrf n => Word n
  | .ipVrf n => Word n
  | .shutdown w => w = "shutdown".toList ∨ w = kShut
  | .mode m => m = kAccess ∨ m = kTrunk
  | .allowed v => Word v
  | .channelGroup _ rest => ∀ w ∈ rest, Word w
  | .other ws => (∀ w ∈ ws, Word w) ∧ ∃ w rest, ws = w :: rest ∧ w ∉ keywords ∧ kShut.isPrefixOf w = false ∧
      (w = kIp → ∃ w2 r2, rest = w2 :: r2 ∧ w2 ∉ ipSecond)
  | _ => True

def ind1 : Str := [' ']
def Item.render (it : Item) : Str := line ind1 it.words

theorem word_toDec (n : Nat) : Word (toDec n) :=
  ⟨Range.toDec_ne_nil n, fun c hc => Range.isSpace_of_isDigit c (Range.toDec_digits n c hc)⟩

theorem word_kw {k : Str} (h : (!k.isEmpty && k.all (fun c => !isSpace c)) = true) : Word k := by
  simp only [Bool.and_eq_true, Bool.not_eq_true', List.all_eq_true] at h
  exact ⟨by intro e; simp [e] at h, fun c hc => by simpa using h.2 c hc⟩

theorem Item.words_valid (it : Item) (h : it.Valid) : ∀ w ∈ it.words, Word w := by
  cases it <;> simp only [Item.words, Item.Valid] at h ⊢
  case descr ws => intro w hw; rcases List.mem_cons.mp hw with rfl | hw; exact word_kw (by decide); exact h.2 w hw
  case other ws => exact h.1
  case channelGroup n rest =>
    simp only [List.forall_mem_cons]
    exact ⟨word_kw (by decide), word_toDec n, h⟩
  case shutdown w => rcases h with rfl | rfl <;> simp [List.forall_mem_cons] <;> exact word_kw (by decide)
  case mode m => rcases h with rfl | rfl <;> simp only [List.forall_mem_cons] <;>
    exact ⟨word_kw (by decide), word_kw (by decide), word_kw (by decide), by simp⟩
  case addrKw m => rcases h with rfl | rfl <;> simp only [List.forall_mem_cons] <;>
    exact ⟨word_kw (by decide), word_kw (by decide), word_kw (by decide), by simp⟩
  all_goals
    simp only [List.forall_mem_cons, List.not_mem_nil, false_imp_iff, implies_true, and_true]
    first
      | exact ⟨word_kw (by decide), word_kw (by decide), h.1, h.2.1⟩
      | exact ⟨word_kw (by decide), word_kw (by decide), h.1, h.2, word_kw (by decide)⟩
      | exact ⟨word_kw (by decide), word_toDec _⟩
      | exact ⟨word_kw (by decide), word_kw (by decide), word_toDec _⟩
      | exact word_kw (by decide)
      | exact ⟨word_kw (by decide), word_kw (by decide), word_kw (by decide), word_toDec _⟩
      | exact ⟨word_kw (by decide), word_kw (by decide), word_kw (by decide), word_kw (by decide), word_toDec _⟩
      | exact ⟨word_kw (by decide), word_kw (by decide), word_kw (by decide), word_kw (by decide), h⟩
      | exact ⟨word_kw (by decide), word_kw (by decide), h⟩
      | exact ⟨word_kw (by decide), word_kw (by decide), word_kw (by decide), h⟩

theorem lex_render (it : Item) (h : it.Valid) : lex it.render = (ind1, toksOf it.words) :=
  lex_line ind1 it.words (by decide) (it.words_valid h)


theorem toksOf_cons (w : Str) (ws : List Str) :
    toksOf (w :: ws) = (w, if ws.isEmpty then [] else [' ']) :: toksOf ws := by
  cases ws <;> simp [toksOf]

theorem unlex_toksOf (ws : List Str) : unlex (toksOf ws) = join [' '] ws := by
  induction ws with
  | nil => rfl
  | cons w ws ih =>
    cases ws with
    | nil => simp [toksOf, unlex, join]
    | cons w2 ws2 =>
      simp only [unlex] at ih
      simp [toksOf, unlex, join, ih]

/-- first word of a token list -/
def head1 (ts : List Tok) : Option Str := ts.head?.map (·.1)

theorem head1_toksOf (ws : List Str) : head1 (toksOf ws) = ws.head? := by
  cases ws with
  | nil => rfl
  | cons w ws => simp [toksOf_cons, head1]

theorem map_fst_toksOf (ws : List Str) : (toksOf ws).map (·.1) = ws := by
  induction ws with
  | nil => rfl
  | cons w ws ih => simp [toksOf_cons, ih]

theorem wordsOf_render (it : Item) (h : it.Valid) : wordsOf it.render = it.words := by
  unfold wordsOf; rw [lex_render it h]; exact map_fst_toksOf _

/-- a pattern that can only match a line whose first word satisfies `K` does not match an item
whose first word does not -/
theorem none_of_key {α : Type} {p : Str → Option α} {K : Str → Prop}
    (hkey : ∀ s v, p s = some v → ∃ w, head1 (lex s).2 = some w ∧ K w)
    (it : Item) (h : it.Valid) (hne : ∀ w, it.words.head? = some w → ¬ K w) : p it.render = none := by
  cases hp : p it.render with
  | none => rfl
  | some v =>
    obtain ⟨w, hw, hk⟩ := hkey _ _ hp
    rw [lex_render it h, head1_toksOf] at hw
    exact absurd hk (hne w hw)

theorem pDescr_key (s : Str) (v : Str) (h : pDescr s = some v) :
    ∃ w, head1 (lex s).2 = some w ∧ w = kDescription := by
  unfold pDescr at h; split at h <;> simp_all [head1]
theorem pMtu_key (s : Str) (v : Str) (h : pMtu s = some v) :
    ∃ w, head1 (lex s).2 = some w ∧ w = kMtu := by
  unfold pMtu at h; split at h <;> simp_all [head1]
theorem pIpMtu_key (s : Str) (v : Str) (h : pIpMtu s = some v) :
    ∃ w, head1 (lex s).2 = some w ∧ w = kIp := by
  unfold pIpMtu at h; split at h <;> simp_all [head1]
theorem pShut_key (s : Str) (v : Str) (h : pShut s = some v) :
    ∃ w, head1 (lex s).2 = some w ∧ kShut.isPrefixOf w = true := by
  unfold pShut at h; split at h <;> simp_all [head1]
  exact h.2 ▸ h.1
theorem addrWords_key (s : Str) (v : Str × Str) (h : addrWords s = some v) :
    ∃ w, head1 (lex s).2 = some w ∧ w = kIp := by
  unfold addrWords at h; simp only at h; split at h; · cases h
  split at h <;> simp_all [head1]
theorem pAddr_key (s : Str) (v : Str) (h : pAddr s = some v) :
    ∃ w, head1 (lex s).2 = some w ∧ w = kIp := by
  unfold pAddr at h; split at h
  · exact addrWords_key s _ ‹_›
  · cases h
theorem pMask_key (s : Str) (v : Str) (h : pMask s = some v) :
    ∃ w, head1 (lex s).2 = some w ∧ w = kIp := by
  unfold pMask at h; split at h
  · exact addrWords_key s _ ‹_›
  · cases h
theorem pAddrObj_key (s : Str) (v : Str × Str) (h : pAddrObj s = some v) :
    ∃ w, head1 (lex s).2 = some w ∧ w = kIp := by
  unfold pAddrObj at h; split at h
  · exact addrWords_key s _ ‹_›
  · cases h
theorem pAddrKw_key (kw : Str) (s : Str) (v : Str) (h : pAddrKw kw s = some v) :
    ∃ w, head1 (lex s).2 = some w ∧ w = kIp := by
  unfold pAddrKw at h; simp only at h; split at h; · cases h
  split at h <;> simp_all [head1]
theorem pSecondary_key (s : Str) (v : Str × Str) (h : pSecondary s = some v) :
    ∃ w, head1 (lex s).2 = some w ∧ w = kIp := by
  unfold pSecondary at h; split at h <;> simp_all [head1]
theorem pChan_key (s : Str) (v : Str) (h : pChan s = some v) :
    ∃ w, head1 (lex s).2 = some w ∧ w = kChannelGroup := by
  unfold pChan at h; split at h <;> simp_all [head1]
theorem pVrf_key (s : Str) (v : Str) (h : pVrf s = some v) :
    ∃ w, head1 (lex s).2 = some w ∧ (w = kIp ∨ w = kVrf) := by
  unfold pVrf at h
  cases hl : (lex s).2 with
  | nil => simp [hl] at h
  | cons t ts =>
    refine ⟨t.1, by simp [head1], ?_⟩
    by_cases ht : t.1 = kIp
    · exact Or.inl ht
    · right
      rw [hl, List.dropWhile_cons_of_neg (by simpa using ht)] at h
      split at h <;> simp_all

theorem wordsOf_get1 (s : Str) (t1 t2 : Tok) (ts : List Tok) (h : (lex s).2 = t1 :: t2 :: ts) :
    (wordsOf s)[1]? = some t2.1 := by simp [wordsOf, h]

theorem pIpMtu_key2 (s : Str) (v : Str) (h : pIpMtu s = some v) :
    ∃ w2, (wordsOf s)[1]? = some w2 ∧ w2 ∈ ipSecond := by
  unfold pIpMtu at h; split at h
  · rename_i heq; refine ⟨_, wordsOf_get1 s _ _ _ heq, ?_⟩; simp_all [ipSecond]
  · cases h
theorem addrWords_key2 (s : Str) (v : Str × Str) (h : addrWords s = some v) :
    ∃ w2, (wordsOf s)[1]? = some w2 ∧ w2 ∈ ipSecond := by
  unfold addrWords at h; simp only at h; split at h; · cases h
  split at h
  · rename_i heq; refine ⟨_, wordsOf_get1 s _ _ _ heq, ?_⟩; simp_all [ipSecond]
  · cases h
theorem pAddrKw_key2 (kw : Str) (s : Str) (v : Str) (h : pAddrKw kw s = some v) :
    ∃ w2, (wordsOf s)[1]? = some w2 ∧ w2 ∈ ipSecond := by
  unfold pAddrKw at h; simp only at h; split at h; · cases h
  split at h
  · rename_i heq; refine ⟨_, wordsOf_get1 s _ _ _ heq, ?_⟩; simp_all [ipSecond]
  · cases h
theorem pSecondary_key2 (s : Str) (v : Str × Str) (h : pSecondary s = some v) :
    ∃ w2, (wordsOf s)[1]? = some w2 ∧ w2 ∈ ipSecond := by
  unfold pSecondary at h; split at h
  · rename_i heq; refine ⟨_, wordsOf_get1 s _ _ _ heq, ?_⟩; simp_all [ipSecond]
  · cases h
theorem pVrf_key2 (s : Str) (v : Str) (h : pVrf s = some v) (hip : ∃ w, head1 (lex s).2 = some w ∧ w = kIp) :
    ∃ w2, (wordsOf s)[1]? = some w2 ∧ w2 ∈ ipSecond := by
  unfold pVrf at h
  obtain ⟨w, hw, rfl⟩ := hip
  cases hl : (lex s).2 with
  | nil => simp [hl, head1] at hw
  | cons t ts =>
    have ht : t.1 = kIp := by simpa [hl, head1] using hw
    rw [hl, List.dropWhile_cons_of_pos (by simpa using ht)] at h
    cases ts with
    | nil => simp at h
    | cons t2 ts2 =>
      refine ⟨t2.1, wordsOf_get1 s t t2 ts2 hl, ?_⟩
      by_cases h2 : t2.1 = kIp
      · simp [ipSecond, h2]
      · rw [List.dropWhile_cons_of_neg (by simpa using h2)] at h
        split at h <;> simp_all [ipSecond]

/-- the first word of an unrelated line is no keyword (an `ip …` line: no described second word) -/
theorem other_head {ws : List Str} (h : (Item.other ws).Valid) (w : Str) (hw : ws.head? = some w) :
    w ≠ kDescription ∧ (w = kIp → ∃ w2, ws[1]? = some w2 ∧ w2 ∉ ipSecond) ∧ w ≠ kMtu ∧ w ≠ kVrf ∧
    w ≠ kSwitchport ∧ w ≠ kChannelGroup ∧ kShut.isPrefixOf w = false := by
  obtain ⟨_, w', rest, rfl, hk, hs, hip⟩ := h
  simp at hw; subst hw
  simp [keywords] at hk
  refine ⟨hk.1, ?_, hk.2.1, hk.2.2.1, hk.2.2.2.1, hk.2.2.2.2.1, hs⟩
  intro e
  obtain ⟨w2, r2, rfl, h2⟩ := hip e
  exact ⟨w2, by simp, h2⟩

/-- an unrelated line is not matched by a pattern that needs the first word `ip` and a second
word among `address` / `mtu` / `vrf` / `ip` -/
theorem other_none_ip {α : Type} {p : Str → Option α}
    (hkey : ∀ s v, p s = some v → ∃ w, head1 (lex s).2 = some w ∧ w = kIp)
    (hkey2 : ∀ s v, p s = some v → ∃ w2, (wordsOf s)[1]? = some w2 ∧ w2 ∈ ipSecond)
    (ws : List Str) (h : (Item.other ws).Valid) : p (Item.other ws).render = none := by
  cases hp : p (Item.other ws).render with
  | none => rfl
  | some v =>
    obtain ⟨w, hw, hk⟩ := hkey _ _ hp
    rw [lex_render _ h, head1_toksOf] at hw
    obtain ⟨w2', hw2', hn⟩ := (other_head h w hw).2.1 hk
    obtain ⟨w2, hw2, hin⟩ := hkey2 _ _ hp
    rw [wordsOf_render _ h] at hw2
    simp only [Item.words] at hw2
    rw [hw2'] at hw2; cases hw2
    exact absurd hin hn

theorem allDigits_toDec (n : Nat) : allDigits (toDec n) = true := by
  have h1 := Range.toDec_ne_nil n
  have h2 := Range.toDec_digits n
  simp only [allDigits, Bool.and_eq_true, Bool.not_eq_true', List.all_eq_true]
  exact ⟨by cases h : toDec n <;> simp_all, h2⟩

theorem takeWhile_all {α : Type} (p : α → Bool) (l : List α) (h : ∀ x ∈ l, p x = true) : l.takeWhile p = l := by
  induction l with
  | nil => rfl
  | cons x xs ih => simp [List.takeWhile, h x (by simp), ih (fun y hy => h y (by simp [hy]))]

theorem takeWhile_toDec (n : Nat) : (toDec n).takeWhile isDigit = toDec n :=
  takeWhile_all _ _ (Range.toDec_digits n)

/-- discharge `∀ w, it.words.head? = some w → ¬ K w` for an item with a keyword head -/
macro "khead" : tactic =>
  `(tactic| (intro w hw; simp [Item.words] at hw; subst hw; simp (config := {decide := true})))

def specDescr : Item → Option Str
  | .descr ws => some (join [' '] ws)
  | _ => none
def specMtu : Item → Option Str
  | .mtu n => some (toDec n)
  | _ => none
def specIpMtu : Item → Option Str
  | .ipMtu n => some (toDec n)
  | _ => none
def specShut : Item → Option Str
  | .shutdown w => some w
  | _ => none
def specVrf : Item → Option Str
  | .vrf n => some n
  | .ipVrf n => some n
  | _ => none
def specAddr : Item → Option Str
  | .addr a _ => some a
  | _ => none
def specMask : Item → Option Str
  | .addr _ m => some m
  | _ => none
def specAddrObj : Item → Option (Str × Str)
  | .addr a m => some (a, m)
  | _ => none
def specAddrKw (kw : Str) : Item → Option Str
  | .addrKw k => if k = kw then some k else none
  | _ => none
def specSecondary : Item → Option (Str × Str)
  | .secondary a m => some (a, m)
  | _ => none
def specChan : Item → Option Str
  | .channelGroup n _ => some (toDec n)
  | _ => none

theorem pDescr_render (it : Item) (h : it.Valid) : pDescr it.render = specDescr it := by
  cases it
  case channelGroup n rest => exact none_of_key pDescr_key _ h (by khead)
  case other ws => exact none_of_key pDescr_key _ h (fun w hw => (other_head h w hw).1)
  case descr ws =>
    unfold pDescr; rw [lex_render _ h]
    obtain ⟨hne, _⟩ := h
    cases ws with
    | nil => exact absurd rfl hne
    | cons w ws =>
      have : toksOf (w :: ws) = (w, if ws.isEmpty then [] else [' ']) :: toksOf ws := toksOf_cons w ws
      simp only [Item.words, toksOf, specDescr]
      rw [this]; simp only [if_true]; rw [← this, unlex_toksOf]
  all_goals (unfold pDescr; rw [lex_render _ h]; simp (config := {decide := true}) [Item.words, toksOf, specDescr])

theorem pMtu_render (it : Item) (h : it.Valid) : pMtu it.render = specMtu it := by
  cases it
  case channelGroup n rest => exact none_of_key pMtu_key _ h (by khead)
  case other ws => exact none_of_key pMtu_key _ h (fun w hw => (other_head h w hw).2.2.1)
  case descr ws => exact none_of_key pMtu_key _ h (by khead)
  all_goals (unfold pMtu; rw [lex_render _ h]; simp (config := {decide := true}) [Item.words, toksOf, specMtu, allDigits_toDec])

theorem pIpMtu_render (it : Item) (h : it.Valid) : pIpMtu it.render = specIpMtu it := by
  cases it
  case channelGroup n rest => exact none_of_key pIpMtu_key _ h (by khead)
  case other ws => exact other_none_ip pIpMtu_key pIpMtu_key2 ws h
  case descr ws => exact none_of_key pIpMtu_key _ h (by khead)
  all_goals (unfold pIpMtu; rw [lex_render _ h]; simp (config := {decide := true}) [Item.words, toksOf, specIpMtu, allDigits_toDec])

theorem pShut_render (it : Item) (h : it.Valid) : pShut it.render = specShut it := by
  cases it
  case channelGroup n rest => exact none_of_key pShut_key _ h (by khead)
  case other ws => exact none_of_key pShut_key _ h (fun w hw => by simp [(other_head h w hw).2.2.2.2.2.2])
  case descr ws => exact none_of_key pShut_key _ h (by khead)
  case shutdown w =>
    unfold pShut; rw [lex_render _ h]
    rcases h with rfl | rfl <;> simp (config := {decide := true}) [Item.words, toksOf, specShut]
  all_goals (unfold pShut; rw [lex_render _ h]; simp (config := {decide := true}) [Item.words, toksOf, specShut])

theorem pVrf_render (it : Item) (h : it.Valid) : pVrf it.render = specVrf it := by
  cases it
  case channelGroup n rest => exact none_of_key pVrf_key _ h (by khead)
  case other ws =>
    cases hp : pVrf (Item.other ws).render with
    | none => simp [specVrf]
    | some v =>
      exfalso
      obtain ⟨w, hw, hk⟩ := pVrf_key _ _ hp
      have hw' := hw
      rw [lex_render _ h, head1_toksOf] at hw'
      have oh := other_head h w hw'
      rcases hk with hk | hk
      · obtain ⟨w2', hw2', hn⟩ := oh.2.1 hk
        obtain ⟨w2, hw2, hin⟩ := pVrf_key2 _ _ hp ⟨w, hw, hk⟩
        rw [wordsOf_render _ h] at hw2
        simp only [Item.words] at hw2
        rw [hw2'] at hw2; cases hw2
        exact hn hin
      · exact oh.2.2.2.1 hk
  case descr ws => exact none_of_key pVrf_key _ h (by khead)
  case shutdown w =>
    unfold pVrf; rw [lex_render _ h]
    rcases h with rfl | rfl <;> simp (config := {decide := true}) [Item.words, toksOf, specVrf, List.dropWhile]
  all_goals (unfold pVrf; rw [lex_render _ h]; simp (config := {decide := true}) [Item.words, toksOf, specVrf, List.dropWhile])

theorem addrWords_render (it : Item) (h : it.Valid) :
    addrWords it.render = (match it with | .addr a m => some (a, m) | _ => none) := by
  cases it
  case channelGroup n rest => exact none_of_key addrWords_key _ h (by khead)
  case other ws => exact other_none_ip addrWords_key addrWords_key2 ws h
  case descr ws => exact none_of_key addrWords_key _ h (by khead)
  all_goals (unfold addrWords; rw [lex_render _ h]; simp (config := {decide := true}) [Item.words, toksOf, ind1])

theorem pAddr_render (it : Item) (h : it.Valid) : pAddr it.render = specAddr it := by
  unfold pAddr; rw [addrWords_render it h]
  cases it <;> simp [specAddr]
  case addr a m => simp [h.2.2.1, h.2.2.2]

theorem pMask_render (it : Item) (h : it.Valid) : pMask it.render = specMask it := by
  unfold pMask; rw [addrWords_render it h]
  cases it <;> simp [specMask]
  case addr a m => simp [h.2.2.1, h.2.2.2]

theorem pAddrObj_render (it : Item) (h : it.Valid) : pAddrObj it.render = specAddrObj it := by
  unfold pAddrObj; rw [addrWords_render it h]
  cases it <;> simp [specAddrObj]
  case addr a m => simp [h.2.2.2]

theorem pAddrKw_render (kw : Str) (it : Item) (h : it.Valid) : pAddrKw kw it.render = specAddrKw kw it := by
  cases it
  case channelGroup n rest => exact none_of_key (pAddrKw_key kw) _ h (by khead)
  case other ws => exact other_none_ip (pAddrKw_key kw) (pAddrKw_key2 kw) ws h
  case descr ws => exact none_of_key (pAddrKw_key kw) _ h (by khead)
  all_goals (unfold pAddrKw; rw [lex_render _ h]; simp (config := {decide := true}) [Item.words, toksOf, specAddrKw, ind1])

theorem pSecondary_render (it : Item) (h : it.Valid) : pSecondary it.render = specSecondary it := by
  cases it
  case channelGroup n rest => exact none_of_key pSecondary_key _ h (by khead)
  case other ws => exact other_none_ip pSecondary_key pSecondary_key2 ws h
  case descr ws => exact none_of_key pSecondary_key _ h (by khead)
  all_goals (unfold pSecondary; rw [lex_render _ h]; simp (config := {decide := true}) [Item.words, toksOf, specSecondary])

theorem pChan_render (it : Item) (h : it.Valid) : pChan it.render = specChan it := by
  cases it
  case other ws => exact none_of_key pChan_key _ h (fun w hw => (other_head h w hw).2.2.2.2.2.1)
  case descr ws => exact none_of_key pChan_key _ h (by khead)
  case channelGroup n rest =>
    unfold pChan; rw [lex_render _ h]
    simp (config := {decide := true}) [Item.words, toksOf_cons, specChan, takeWhile_toDec, Range.toDec_ne_nil]
  all_goals (unfold pChan; rw [lex_render _ h]; simp (config := {decide := true}) [Item.words, toksOf, specChan])

/-! ## the structured description of a stanza -/

structure Desc where
  descr : Option (List Str)
  /-- static primary address and mask -/
  addr : Option (Str × Str)
  /-- `ip address dhcp` / `ip address negotiated` -/
  addrKw : Option Str
  secondaries : List (Str × Str)
  /-- `vrf forwarding X` -/
  vrf : Option Str
  /-- `ip vrf forwarding X` -/
  ipVrf : Option Str
  mtu : Option Nat
  ipMtu : Option Nat
  shutdown : Option Str
  switchport : Bool
  mode : Option Str
  accessVlan : Option Nat
  nativeVlan : Option Nat
  allowed : Option Str
  channelGroup : Option (Nat × List Str)

/-- the command lines of a description, in canonical order -/
def Desc.items (d : Desc) : List Item :=
  d.descr.toList.map .descr ++ d.addr.toList.map (fun p => .addr p.1 p.2) ++
  d.addrKw.toList.map .addrKw ++
  d.secondaries.map (fun p => .secondary p.1 p.2) ++ d.vrf.toList.map .vrf ++
  d.ipVrf.toList.map .ipVrf ++
  d.mtu.toList.map .mtu ++ d.ipMtu.toList.map .ipMtu ++ d.shutdown.toList.map .shutdown ++
  (if d.switchport then [Item.switchport] else []) ++ d.mode.toList.map .mode ++
  d.accessVlan.toList.map .accessVlan ++ d.nativeVlan.toList.map .nativeVlan ++
  d.allowed.toList.map .allowed ++ d.channelGroup.toList.map (fun c => .channelGroup c.1 c.2)

/-- the family of a flat stanza: header line, children at one level -/
def flatFam (hdr : Str) (kids : List Item) : Fam :=
  { self := hdr, kids := kids.map Item.render, order := hdr :: kids.map Item.render,
    secFams := kids.map (fun k => [k.render]) }

/-- a stanza of `d`: the children are any permutation of `d`'s command lines interleaved with
unrelated lines; every value is well formed -/
structure Stanza (d : Desc) (others kids : List Item) : Prop where
  perm : kids.Perm (d.items ++ others)
  unrelated : ∀ it ∈ others, ∃ ws, it = .other ws
  valid : ∀ it ∈ kids, it.Valid
  oneVrf : d.vrf = none ∨ d.ipVrf = none
  oneAddr : d.addr = none ∨ d.addrKw = none

/-! ### generic lemmas -/

theorem filterMap_optmap {α β : Type} (o : Option β) (K : β → Item) (f : Item → Option α) :
    (o.toList.map K).filterMap f = (o.bind (fun x => f (K x))).toList := by
  cases o with
  | none => rfl
  | some v => cases h : f (K v) <;> simp [List.filterMap, h]

theorem filterMap_listmap_none {α β : Type} (l : List β) (K : β → Item) (f : Item → Option α)
    (h : ∀ x, f (K x) = none) : (l.map K).filterMap f = [] := by
  induction l <;> simp_all

theorem filterMap_others {α : Type} (others : List Item) (ho : ∀ it ∈ others, ∃ ws, it = .other ws)
    (f : Item → Option α) (hf : ∀ ws, f (.other ws) = none) : others.filterMap f = [] := by
  induction others with
  | nil => rfl
  | cons x xs ih =>
    obtain ⟨ws, rfl⟩ := ho x (by simp)
    simp [hf, ih (fun it hit => ho it (by simp [hit]))]

theorem bind_none' {α β : Type} (o : Option β) : o.bind (fun _ => (none : Option α)) = none := by
  cases o <;> rfl

theorem findSome_eq_head_filterMap {α β : Type} (f : β → Option α) (l : List β) :
    l.findSome? f = (l.filterMap f).head? := by
  induction l with
  | nil => rfl
  | cons x xs ih =>
    cases h : f x with
    | none => rw [List.findSome?_cons, h, List.filterMap_cons_none h]; exact ih
    | some v => rw [List.findSome?_cons, h, List.filterMap_cons_some h]; rfl

/-- `findSome?` over a permutation, when the other list has at most one hit -/
theorem findSome_perm {α β : Type} (f : β → Option α) {l l' : List β} (hp : l.Perm l') (o : Option α)
    (h : l'.filterMap f = o.toList) : l.findSome? f = o := by
  have hp' := hp.filterMap f
  rw [h] at hp'
  rw [findSome_eq_head_filterMap]
  cases o with
  | none =>
    have : l.filterMap f = [] := List.Perm.eq_nil hp'
    rw [this]; rfl
  | some v =>
    have : l.filterMap f = [v] := List.perm_singleton.mp hp'
    rw [this]; rfl

theorem first_stanza {α : Type} (p : Str → Option α) (spec : Item → Option α)
    (hp : ∀ it : Item, it.Valid → p it.render = spec it) (hdr : Str) (hh : p hdr = none)
    (kids : List Item) (hv : ∀ it ∈ kids, it.Valid) :
    first p (hdr :: kids.map Item.render) = kids.findSome? spec := by
  unfold first
  rw [List.findSome?_cons, hh]
  induction kids with
  | nil => rfl
  | cons k ks ih =>
    have ih' := ih (fun it hit => hv it (by simp [hit]))
    simp only [List.map_cons, List.findSome?_cons, hp k (hv k (by simp))]
    cases spec k with
    | none => exact ih'
    | some v => rfl

/-- value of a `first`-style accessor pattern on a stanza -/
theorem first_of_stanza {α : Type} {d : Desc} {others kids : List Item} (st : Stanza d others kids)
    (p : Str → Option α) (spec : Item → Option α)
    (hp : ∀ it : Item, it.Valid → p it.render = spec it) (hdr : Str) (hh : p hdr = none)
    (o : Option α) (h : (d.items ++ others).filterMap spec = o.toList) :
    first p (flatFam hdr kids).order = o := by
  show first p (hdr :: kids.map Item.render) = o
  rw [first_stanza p spec hp hdr hh kids st.valid]
  exact findSome_perm spec st.perm o h


/-! ### the header line -/

/-- `interface <name words>` at column 0 -/
def Header (hdr : Str) : Prop := ∃ nm : List Str, (∀ w ∈ nm, Word w) ∧ hdr = line [] (kInterface :: nm)

theorem hdr_none {α : Type} {p : Str → Option α} {K : Str → Prop}
    (hkey : ∀ s v, p s = some v → ∃ w, head1 (lex s).2 = some w ∧ K w)
    (hdr : Str) (hh : Header hdr) (hK : ¬ K kInterface) : p hdr = none := by
  obtain ⟨nm, hnm, rfl⟩ := hh
  cases hp : p (line [] (kInterface :: nm)) with
  | none => rfl
  | some v =>
    obtain ⟨w, hw, hk⟩ := hkey _ _ hp
    rw [lex_line [] _ (by simp) (by
      intro x hx; rcases List.mem_cons.mp hx with rfl | hx
      · exact word_kw (by decide)
      · exact hnm x hx), head1_toksOf] at hw
    simp at hw; subst hw; exact absurd hk hK

section
variable {d : Desc} {others kids : List Item}

theorem fm_if {α : Type} (c : Bool) (x : Item) (f : Item → Option α) :
    (if c then [x] else []).filterMap f = if c then (f x).toList else [] := by
  cases c <;> simp [List.filterMap]; cases f x <;> rfl

theorem bind_some_map {α β : Type} (o : Option β) (g : β → α) : o.bind (fun n => some (g n)) = o.map g := by
  cases o <;> rfl

/-- evaluate `(d.items ++ others).filterMap spec` for a spec that ignores secondaries -/
macro "fm_eval" spec:ident ho:ident : tactic =>
  `(tactic| (
    simp only [Desc.items, List.filterMap_append, filterMap_optmap, fm_if]
    rw [filterMap_others _ $ho $spec (fun _ => rfl), filterMap_listmap_none _ _ $spec (fun _ => rfl)]
    simp [$spec:ident, bind_none', bind_some_map]))

theorem items_descr (ho : ∀ it ∈ others, ∃ ws, it = .other ws) :
    (d.items ++ others).filterMap specDescr = (d.descr.map (join [' '])).toList := by
  fm_eval specDescr ho
theorem items_mtu (ho : ∀ it ∈ others, ∃ ws, it = .other ws) :
    (d.items ++ others).filterMap specMtu = (d.mtu.map toDec).toList := by
  fm_eval specMtu ho
theorem items_ipMtu (ho : ∀ it ∈ others, ∃ ws, it = .other ws) :
    (d.items ++ others).filterMap specIpMtu = (d.ipMtu.map toDec).toList := by
  fm_eval specIpMtu ho
theorem items_shut (ho : ∀ it ∈ others, ∃ ws, it = .other ws) :
    (d.items ++ others).filterMap specShut = d.shutdown.toList := by
  fm_eval specShut ho
theorem items_addr (ho : ∀ it ∈ others, ∃ ws, it = .other ws) :
    (d.items ++ others).filterMap specAddr = (d.addr.map (·.1)).toList := by
  fm_eval specAddr ho
theorem items_mask (ho : ∀ it ∈ others, ∃ ws, it = .other ws) :
    (d.items ++ others).filterMap specMask = (d.addr.map (·.2)).toList := by
  fm_eval specMask ho
theorem items_addrObj (ho : ∀ it ∈ others, ∃ ws, it = .other ws) :
    (d.items ++ others).filterMap specAddrObj = d.addr.toList := by
  fm_eval specAddrObj ho
theorem items_chan (ho : ∀ it ∈ others, ∃ ws, it = .other ws) :
    (d.items ++ others).filterMap specChan = (d.channelGroup.map (fun c => toDec c.1)).toList := by
  fm_eval specChan ho
theorem items_vrf (ho : ∀ it ∈ others, ∃ ws, it = .other ws) (h1 : d.vrf = none ∨ d.ipVrf = none) :
    (d.items ++ others).filterMap specVrf = (d.vrf <|> d.ipVrf).toList := by
  fm_eval specVrf ho
  rcases h1 with h | h <;> simp [h]
theorem items_addrKw (kw : Str) (ho : ∀ it ∈ others, ∃ ws, it = .other ws) :
    (d.items ++ others).filterMap (specAddrKw kw) = (d.addrKw.bind (fun k => if k = kw then some k else none)).toList := by
  simp only [Desc.items, List.filterMap_append, filterMap_optmap, fm_if]
  rw [filterMap_others _ ho (specAddrKw kw) (fun _ => rfl), filterMap_listmap_none _ _ (specAddrKw kw) (fun _ => rfl)]
  simp [specAddrKw, bind_none', bind_some_map]
end
section
variable {d : Desc} {others kids : List Item} {hdr : Str}

theorem digitsInt_toDec (n : Nat) : digitsInt (toDec n) = Int.ofNat n := by
  simp [digitsInt, Range.ofDigits_toDec]

theorem mem_kids_of_items (st : Stanza d others kids) {it : Item} (h : it ∈ d.items) : it ∈ kids :=
  st.perm.mem_iff.mpr (List.mem_append_left _ h)

theorem description_stanza (st : Stanza d others kids) (hh : Header hdr) :
    description (flatFam hdr kids) = (d.descr.map (join [' '])).getD [] := by
  unfold description
  rw [first_of_stanza st pDescr specDescr pDescr_render hdr
    (hdr_none pDescr_key hdr hh (by decide)) _ (items_descr st.unrelated)]

theorem manualMtu_stanza (st : Stanza d others kids) (hh : Header hdr) :
    manualMtu (flatFam hdr kids) = (d.mtu.map Int.ofNat).getD (-1) := by
  unfold manualMtu
  rw [first_of_stanza st pMtu specMtu pMtu_render hdr
    (hdr_none pMtu_key hdr hh (by decide)) _ (items_mtu st.unrelated)]
  cases d.mtu <;> simp [digitsInt_toDec]

theorem manualIpMtu_stanza (st : Stanza d others kids) (hh : Header hdr) :
    manualIpMtu (flatFam hdr kids) = (d.ipMtu.map Int.ofNat).getD (-1) := by
  unfold manualIpMtu
  rw [first_of_stanza st pIpMtu specIpMtu pIpMtu_render hdr
    (hdr_none pIpMtu_key hdr hh (by decide)) _ (items_ipMtu st.unrelated)]
  cases d.ipMtu <;> simp [digitsInt_toDec]

theorem isShutdown_stanza (st : Stanza d others kids) (hh : Header hdr) :
    isShutdown (flatFam hdr kids) = d.shutdown.isSome := by
  unfold isShutdown
  rw [first_of_stanza st pShut specShut pShut_render hdr
    (hdr_none pShut_key hdr hh (by decide)) _ (items_shut st.unrelated)]

theorem vrf_stanza (st : Stanza d others kids) (hh : Header hdr) :
    vrf (flatFam hdr kids) = (d.vrf <|> d.ipVrf).getD [] := by
  unfold vrf
  rw [first_of_stanza st pVrf specVrf pVrf_render hdr
    (hdr_none pVrf_key hdr hh (by decide)) _ (items_vrf st.unrelated st.oneVrf)]

theorem portchannel_stanza (st : Stanza d others kids) (hh : Header hdr) :
    portchannelNumber (flatFam hdr kids) = (d.channelGroup.map (fun c => Int.ofNat c.1)).getD (-1) ∧
    isInPortchannel (flatFam hdr kids) = d.channelGroup.isSome := by
  unfold portchannelNumber isInPortchannel
  rw [first_of_stanza st pChan specChan pChan_render hdr
    (hdr_none pChan_key hdr hh (by decide)) _ (items_chan st.unrelated)]
  cases d.channelGroup <;> simp [digitsInt_toDec]

theorem ipv4Netmask_stanza (st : Stanza d others kids) (hh : Header hdr) :
    ipv4Netmask (flatFam hdr kids) = (d.addr.map (·.2)).getD [] := by
  unfold ipv4Netmask
  rw [first_of_stanza st pMask specMask pMask_render hdr
    (hdr_none pMask_key hdr hh (by decide)) _ (items_mask st.unrelated)]

theorem ipv4Addr_stanza (st : Stanza d others kids) (hh : Header hdr) :
    ipv4Addr (flatFam hdr kids) = (d.addr.map (·.1)).getD [] := by
  unfold ipv4Addr
  rw [first_of_stanza st (pAddrKw kDhcp) (specAddrKw kDhcp) (pAddrKw_render kDhcp) hdr
      (hdr_none (pAddrKw_key kDhcp) hdr hh (by decide)) _ (items_addrKw kDhcp st.unrelated),
    first_of_stanza st (pAddrKw kNegotiated) (specAddrKw kNegotiated) (pAddrKw_render kNegotiated) hdr
      (hdr_none (pAddrKw_key kNegotiated) hdr hh (by decide)) _ (items_addrKw kNegotiated st.unrelated),
    first_of_stanza st pAddr specAddr pAddr_render hdr
      (hdr_none pAddr_key hdr hh (by decide)) _ (items_addr st.unrelated)]
  rcases st.oneAddr with h | h
  · rw [h]; split
    · rfl
    · split <;> rfl
  · simp only [h]; rfl

theorem quadShape_not_kw {a : Str} (h : isQuadShape a = true) : a ≠ kDhcp ∧ a ≠ kNegotiated := by
  constructor <;> (intro e; subst e; revert h; decide)

theorem ipv4AddrObject_stanza (st : Stanza d others kids) (hh : Header hdr) :
    ipv4AddrObject (flatFam hdr kids) =
      match d.addr with
      | none => .ok none
      | some (a, m) => (match ipv4obj a m with | some r => .ok (some r) | none => .error .ipError) := by
  unfold ipv4AddrObject
  rw [first_of_stanza st pAddrObj specAddrObj pAddrObj_render hdr
    (hdr_none pAddrObj_key hdr hh (by decide)) _ (items_addrObj st.unrelated)]
  cases hd : d.addr with
  | none => rfl
  | some am =>
    obtain ⟨a, m⟩ := am
    have hv : (Item.addr a m).Valid := st.valid _ (mem_kids_of_items st (by simp [Desc.items, hd]))
    have := quadShape_not_kw hv.2.2.1
    simp only [this.1, this.2, decide_false, Bool.or_self, Bool.false_eq_true, if_false]
    cases ipv4obj a m <;> rfl

end

def isSw (it : Item) : Bool := it.words.head? = some kSwitchport

theorem any_optmap {β : Type} (o : Option β) (K : β → Item) (f : Item → Bool) :
    (o.toList.map K).any f = o.any (fun x => f (K x)) := by
  cases o <;> simp

theorem any_const_false {β : Type} (o : Option β) : o.any (fun _ => false) = false := by
  cases o <;> rfl
theorem any_const_true {β : Type} (o : Option β) : o.any (fun _ => true) = o.isSome := by
  cases o <;> rfl

theorem any_others (others : List Item) (ho : ∀ it ∈ others, ∃ ws, it = .other ws)
    (f : Item → Bool) (hf : ∀ ws, (Item.other ws).Valid → f (.other ws) = false)
    (hv : ∀ it ∈ others, it.Valid) : others.any f = false := by
  induction others with
  | nil => rfl
  | cons x xs ih =>
    obtain ⟨ws, rfl⟩ := ho x (by simp)
    simp [hf ws (hv _ (by simp)), ih (fun it hit => ho it (by simp [hit])) (fun it hit => hv it (by simp [hit]))]

variable {d : Desc} {others kids : List Item}

theorem any_listmap_false {β : Type} (l : List β) (K : β → Item) (f : Item → Bool)
    (h : ∀ x, f (K x) = false) : (l.map K).any f = false := by
  induction l <;> simp_all

theorem items_isSw (ho : ∀ it ∈ others, ∃ ws, it = .other ws) (hv : ∀ it ∈ others, it.Valid)
    (hs : ∀ w, d.shutdown = some w → w ≠ kSwitchport) :
    (d.items ++ others).any isSw =
      (d.switchport || d.mode.isSome || d.accessVlan.isSome || d.nativeVlan.isSome || d.allowed.isSome) := by
  simp only [Desc.items, List.any_append, any_optmap]
  rw [any_others others ho isSw (fun ws h => by
    obtain ⟨_, w, rest, rfl, hk, _⟩ := h
    simp [keywords] at hk
    simp [isSw, Item.words, hk]) hv,
    any_listmap_false _ _ isSw (fun _ => by simp (config := {decide := true}) [isSw, Item.words])]
  have h2 : Option.any (fun x => isSw (Item.shutdown x)) d.shutdown = false := by
    cases h : d.shutdown with
    | none => rfl
    | some w => simp [isSw, Item.words, hs w h]
  rw [h2]
  cases d.switchport <;>
    simp (config := {decide := true}) [isSw, Item.words, any_const_false, any_const_true]

theorem wordsOf_ne_nil (it : Item) (h : it.Valid) : wordsOf it.render ≠ [] := by
  rw [wordsOf_render it h]
  cases it <;> simp [Item.words]
  case other ws => obtain ⟨_, w, rest, rfl, _⟩ := h; simp

theorem isSwitchportLoop_render (kids : List Item) (hv : ∀ it ∈ kids, it.Valid) :
    isSwitchportLoop (kids.map Item.render) = .ok (kids.any isSw) := by
  induction kids with
  | nil => rfl
  | cons k ks ih =>
    have hk := hv k (by simp)
    have ih' := ih (fun it hit => hv it (by simp [hit]))
    simp only [List.map_cons, isSwitchportLoop, List.any_cons]
    have hne := wordsOf_ne_nil k hk
    rw [wordsOf_render k hk] at hne ⊢
    cases hw : k.words with
    | nil => exact absurd hw hne
    | cons w ws =>
      simp only [isSw, hw, List.head?_cons]
      by_cases h : w = kSwitchport
      · simp [h]
      · simp [h, ih', isSw]

theorem shutdown_ne_switchport (st : Stanza d others kids) : ∀ w, d.shutdown = some w → w ≠ kSwitchport := by
  intro w hw
  have hv : (Item.shutdown w).Valid := st.valid _ (st.perm.mem_iff.mpr (List.mem_append_left _ (by simp [Desc.items, hw])))
  rcases hv with rfl | rfl <;> decide

theorem others_valid (st : Stanza d others kids) : ∀ it ∈ others, it.Valid :=
  fun it hit => st.valid it (st.perm.mem_iff.mpr (List.mem_append_right _ hit))

/-- `is_switchport`: some child line starts with the word `switchport` -/
theorem isSwitchport_stanza (st : Stanza d others kids) (hdr : Str) :
    isSwitchport (flatFam hdr kids) = .ok
      (d.switchport || d.mode.isSome || d.accessVlan.isSome || d.nativeVlan.isSome || d.allowed.isSome) := by
  show isSwitchportLoop (kids.map Item.render) = _
  rw [isSwitchportLoop_render kids st.valid, st.perm.any_eq,
    items_isSw st.unrelated (others_valid st) (shutdown_ne_switchport st)]


/-! ### words-based loops -/

def take3 (a b c : Str) (it : Item) : Bool := it.words.take 3 = [a, b, c]

theorem hasWords3_flat (a b c : Str) (hdr : Str) (kids : List Item) (hv : ∀ it ∈ kids, it.Valid) :
    hasWords3 a b c (flatFam hdr kids) = kids.any (take3 a b c) := by
  show (kids.map Item.render).any _ = _
  induction kids with
  | nil => rfl
  | cons k ks ih =>
    simp only [List.map_cons, List.any_cons, ih (fun it hit => hv it (by simp [hit])),
      wordsOf_render k (hv k (by simp)), take3]

theorem take3_other (a b c : Str) (ha : a ∈ keywords) (ws : List Str) (h : (Item.other ws).Valid) :
    take3 a b c (.other ws) = false := by
  obtain ⟨_, w, rest, rfl, hk, _⟩ := h
  have : w ≠ a := fun e => hk (e ▸ ha)
  cases rest with
  | nil => simp [take3, Item.words]
  | cons r1 rest => cases rest <;> simp [take3, Item.words, this]

theorem items_mode (m : Str) (ho : ∀ it ∈ others, ∃ ws, it = .other ws) (hv : ∀ it ∈ others, it.Valid) :
    (d.items ++ others).any (take3 kSwitchport kMode m) = decide (d.mode = some m) := by
  simp only [Desc.items, List.any_append, any_optmap]
  rw [any_others others ho _ (fun ws h => take3_other _ _ _ (by decide) ws h) hv,
    any_listmap_false _ _ _ (fun _ => by simp (config := {decide := true}) [take3, Item.words])]
  have h1 : Option.any (fun x => take3 kSwitchport kMode m (Item.descr x)) d.descr = false := by
    cases d.descr with
    | none => rfl
    | some ws => rcases ws with _ | ⟨a, _ | ⟨b, ws⟩⟩ <;> simp (config := {decide := true}) [take3, Item.words]
  have h2 : Option.any (fun x => take3 kSwitchport kMode m (Item.channelGroup x.1 x.2)) d.channelGroup = false := by
    cases d.channelGroup with
    | none => rfl
    | some c => rcases c with ⟨n, _ | ⟨a, ws⟩⟩ <;> simp (config := {decide := true}) [take3, Item.words]
  have h3 : Option.any (fun x => take3 kSwitchport kMode m (Item.shutdown x)) d.shutdown = false := by
    cases d.shutdown <;> simp [take3, Item.words]
  rw [h1, h2, h3]
  cases d.switchport <;> cases d.mode <;>
    simp (config := {decide := true}) [take3, Item.words, any_const_false, any_const_true]

theorem hasManualSwitch_stanza (st : Stanza d others kids) (hdr : Str) :
    hasManualSwitchAccess (flatFam hdr kids) = decide (d.mode = some kAccess) ∧
    hasManualSwitchTrunk (flatFam hdr kids) = decide (d.mode = some kTrunk) := by
  unfold hasManualSwitchAccess hasManualSwitchTrunk
  rw [hasWords3_flat _ _ _ _ _ st.valid, hasWords3_flat _ _ _ _ _ st.valid, st.perm.any_eq, st.perm.any_eq,
    items_mode _ st.unrelated (others_valid st), items_mode _ st.unrelated (others_valid st)]
  exact ⟨rfl, rfl⟩

def specAccess : Item → Option Int
  | .accessVlan n => some (Int.ofNat n)
  | _ => none
def specNative : Item → Option Int
  | .nativeVlan n => some (Int.ofNat n)
  | _ => none

theorem intWord_toDec (n : Nat) : intWord (toDec n) = .ok (Int.ofNat n) := by
  simp [intWord, Range.pyInt_toDec]

theorem accessStep (it : Item) (h : it.Valid) (rest : Except Err Int) :
    (if it.words.take 3 = [kSwitchport, kAccess, kVlan] then
      (match it.words[3]? with | some w => intWord w | none => .error .indexError) else rest) =
    (match specAccess it with | some v => .ok v | none => rest) := by
  cases it
  case other ws =>
    have := take3_other kSwitchport kAccess kVlan (by decide) ws h
    simp only [take3, Item.words] at this
    have this' := of_decide_eq_false this
    simp only [Item.words, specAccess]
    exact if_neg this'
  case descr ws => rcases ws with _ | ⟨a, _ | ⟨b, ws⟩⟩ <;> simp (config := {decide := true}) [Item.words, specAccess]
  case channelGroup n ws => rcases ws with _ | ⟨a, ws⟩ <;> simp (config := {decide := true}) [Item.words, specAccess]
  case mode m => rcases h with rfl | rfl <;> simp (config := {decide := true}) [Item.words, specAccess]
  all_goals simp (config := {decide := true}) [Item.words, specAccess, intWord_toDec]

theorem accessVlanLoop_render (dflt : Int) (kids : List Item) (hv : ∀ it ∈ kids, it.Valid) :
    accessVlanLoop dflt (kids.map Item.render) = .ok ((kids.findSome? specAccess).getD dflt) := by
  induction kids with
  | nil => rfl
  | cons k ks ih =>
    have hk := hv k (by simp)
    simp only [List.map_cons, accessVlanLoop, wordsOf_render k hk, ih (fun it hit => hv it (by simp [hit])),
      List.findSome?_cons]
    refine (accessStep k hk _).trans ?_
    cases specAccess k <;> rfl

theorem nativeStep (it : Item) (h : it.Valid) (rest : Except Err Int) :
    (if (it.words.length = 5 && it.words.take 4 = [kSwitchport, kTrunk, kNative, kVlan]) = true then
      (match it.words[4]? with | some w => intWord w | none => .error .indexError) else rest) =
    (match specNative it with | some v => .ok v | none => rest) := by
  cases it
  case other ws =>
    obtain ⟨_, w, rest', rfl, hk, _⟩ := h
    have : w ≠ kSwitchport := fun e => hk (e ▸ (by decide))
    rcases rest' with _ | ⟨a, _ | ⟨b, _ | ⟨c, r⟩⟩⟩ <;> simp [Item.words, specNative, this]
  case descr ws => rcases ws with _ | ⟨a, _ | ⟨b, _ | ⟨c, r⟩⟩⟩ <;> simp (config := {decide := true}) [Item.words, specNative]
  case channelGroup n ws => rcases ws with _ | ⟨a, _ | ⟨b, r⟩⟩ <;> simp (config := {decide := true}) [Item.words, specNative]
  all_goals simp (config := {decide := true}) [Item.words, specNative, intWord_toDec]

theorem nativeVlanLoop_render (dflt : Int) (kids : List Item) (hv : ∀ it ∈ kids, it.Valid) :
    nativeVlanLoop dflt (kids.map Item.render) = .ok ((kids.findSome? specNative).getD dflt) := by
  induction kids with
  | nil => rfl
  | cons k ks ih =>
    have hk := hv k (by simp)
    simp only [List.map_cons, nativeVlanLoop, wordsOf_render k hk, ih (fun it hit => hv it (by simp [hit])),
      List.findSome?_cons]
    refine (nativeStep k hk _).trans ?_
    cases specNative k <;> rfl

theorem items_access (ho : ∀ it ∈ others, ∃ ws, it = .other ws) :
    (d.items ++ others).filterMap specAccess = (d.accessVlan.map Int.ofNat).toList := by
  fm_eval specAccess ho
  rfl
theorem items_native (ho : ∀ it ∈ others, ∃ ws, it = .other ws) :
    (d.items ++ others).filterMap specNative = (d.nativeVlan.map Int.ofNat).toList := by
  fm_eval specNative ho
  rfl

/-- is the described port a switchport (some `switchport …` child) -/
def Desc.isSw (d : Desc) : Bool :=
  d.switchport || d.mode.isSome || d.accessVlan.isSome || d.nativeVlan.isSome || d.allowed.isSome

theorem accessVlan_stanza (st : Stanza d others kids) (hdr : Str) :
    accessVlan (flatFam hdr kids) = .ok ((d.accessVlan.map Int.ofNat).getD (if d.isSw then 1 else -1)) := by
  unfold accessVlan
  rw [isSwitchport_stanza st hdr]
  show accessVlanLoop _ (kids.map Item.render) = _
  rw [accessVlanLoop_render _ kids st.valid, findSome_perm specAccess st.perm _ (items_access st.unrelated)]
  rfl

theorem nativeVlan_stanza (st : Stanza d others kids) (hdr : Str) :
    nativeVlan (flatFam hdr kids) = .ok ((d.nativeVlan.map Int.ofNat).getD (if d.isSw then 1 else -1)) := by
  unfold nativeVlan
  rw [isSwitchport_stanza st hdr]
  show nativeVlanLoop _ (kids.map Item.render) = _
  rw [nativeVlanLoop_render _ kids st.valid, findSome_perm specNative st.perm _ (items_native st.unrelated)]
  rfl


/-- a word accepted by `[^\d]\S+`: at least two characters, the first no digit -/
def IntfWord (i : Str) : Prop := Word i ∧ ∃ c c2 r, i = c :: c2 :: r ∧ isDigit c = false
/-- a whole-word dotted quad (`\d+\.\d+\.\d+\.\d+`) -/
def QuadWord (q : Str) : Prop :=
  Word q ∧ quadPrefix q = some (q, true) ∧ ∃ c c2 r, q = c :: c2 :: r ∧ isDigit c = true

theorem dropWhile_all {α : Type} (p : α → Bool) (l : List α) (h : ∀ x ∈ l, p x = true) : l.dropWhile p = [] := by
  induction l with
  | nil => rfl
  | cons x xs ih => simp [List.dropWhile, h x (by simp), ih (fun y hy => h y (by simp [hy]))]

theorem quadPrefix_toDec (n : Nat) : quadPrefix (toDec n) = none := by
  unfold quadPrefix
  simp [dropWhile_all _ _ (Range.toDec_digits n)]

theorem kw_not_prefix_toDec (kw : Str) (n : Nat) (h : (match kw with | c :: _ => !isDigit c | [] => false) = true) :
    kw.isPrefixOf (toDec n) = false := by
  cases kw with
  | nil => cases h
  | cons c r =>
    cases hd : toDec n with
    | nil => exact absurd hd (Range.toDec_ne_nil n)
    | cons x xs =>
      have hx : isDigit x = true := Range.toDec_digits n x (by simp [hd])
      have : c ≠ x := fun e => by subst e; simp [hx] at h
      simp [List.isPrefixOf, this]

/-- a structured static route -/
structure RouteDesc where
  vrf : Option Str
  pfx : Str
  mask : Str
  intf : Option Str
  nh : Option Str
  glob : Bool
  ad : Option Nat
  name : Option Str
  permanent : Bool
  track : Option Nat
  tag : Option Nat

def optWords (kw : Str) (o : Option Str) : List Str :=
  match o with | some v => [kw, v] | none => []

def RouteDesc.words (d : RouteDesc) : List Str :=
  [kIp, kRoute] ++ optWords kVrf d.vrf ++ [d.pfx, d.mask] ++ d.intf.toList ++ d.nh.toList ++
  (if d.glob then [kGlobal] else []) ++ (d.ad.map toDec).toList ++ optWords kName d.name ++
  (if d.permanent then [kPermanent] else []) ++ optWords kTrack (d.track.map toDec) ++
  optWords kTag (d.tag.map toDec)

def RouteDesc.Valid (d : RouteDesc) : Prop :=
  (∀ v, d.vrf = some v → Word v) ∧ Word d.pfx ∧ isQuadShape d.pfx = true ∧ QuadWord d.mask ∧
  (∀ i, d.intf = some i → IntfWord i) ∧ (∀ h, d.nh = some h → QuadWord h) ∧
  (∀ n, d.name = some n → Word n) ∧ (d.permanent = false ∨ d.track = none)

def RouteDesc.expected (d : RouteDesc) : Route :=
  { vrf := d.vrf, prefix_ := d.pfx, netmask := d.mask, nhIntf := d.intf, nhAddr := d.nh, dhcp := none,
    glob := if d.glob then some kGlobal else none, ad := d.ad.map toDec, mcast := none, name := d.name,
    perm := if d.permanent then some kPermanent else none, track := d.track.map toDec, tag := d.tag.map toDec }

theorem qp_global : quadPrefix kGlobal = none := by decide
theorem qp_name : quadPrefix kName = none := by decide
theorem qp_permanent : quadPrefix kPermanent = none := by decide
theorem qp_track : quadPrefix kTrack = none := by decide
theorem qp_tag : quadPrefix kTag = none := by decide

theorem wk (k : Str) (h : (!k.isEmpty && k.all (fun c => !isSpace c)) = true) : Word k := word_kw h


theorem route_both_00 (v p m i h : Str) (ad : Option Nat) (name : Option Str) (perm : Bool) (track tag : Option Nat)
    (hv : RouteDesc.Valid ⟨none, p, m, some i, some h, false, ad, name, perm, track, tag⟩) :
    routeParse (line [] (RouteDesc.words ⟨none, p, m, some i, some h, false, ad, name, perm, track, tag⟩)) =
      some (RouteDesc.expected ⟨none, p, m, some i, some h, false, ad, name, perm, track, tag⟩) := by
  obtain ⟨hvrf, hp, hps, ⟨hmw, hmq, _⟩, hintf, hnh, hname, hpt⟩ := hv
  simp only at hvrf hp hps hmw hmq hintf hnh hname hpt
  have k1 := wk kIp (by decide); have k2 := wk kRoute (by decide); have k3 := wk kVrf (by decide)
  have k4 := wk kGlobal (by decide); have k5 := wk kName (by decide); have k6 := wk kPermanent (by decide)
  have k7 := wk kTrack (by decide); have k8 := wk kTag (by decide)
  have hpv : p ≠ kVrf := by intro e; subst e; revert hps; decide
  obtain ⟨hiw, c, c2, r, rfl, hc⟩ := hintf _ rfl
  obtain ⟨hhw, hhq, _⟩ := hnh _ rfl
  unfold routeParse
  cases ad <;> cases name <;> cases perm <;> cases track <;> cases tag <;>
    (try (rcases hpt with hpt | hpt <;> cases hpt)) <;>
    (rw [lex_line [] _ (by simp) (by
      simp only [RouteDesc.words, optWords, List.forall_mem_cons, List.not_mem_nil, false_imp_iff, implies_true, and_true,
        List.cons_append, List.nil_append, Option.toList, Option.map, if_true, if_false, List.append_nil, Bool.false_eq_true]
      simp [*, word_toDec])]) <;>
    simp (config := {decide := true}) [RouteDesc.words, RouteDesc.expected, optWords, toksOf, routeBody, routeTail, *,
      slotIntf, slotAddr, slotKw, slotDigits, slotKwWord, slotKwDigits, quadPrefix_toDec, takeWhile_toDec,
      Range.toDec_ne_nil, kw_not_prefix_toDec, qp_global, qp_name, qp_permanent, qp_track, qp_tag]

theorem route_both_01 (v p m i h : Str) (ad : Option Nat) (name : Option Str) (perm : Bool) (track tag : Option Nat)
    (hv : RouteDesc.Valid ⟨none, p, m, some i, some h, true, ad, name, perm, track, tag⟩) :
    routeParse (line [] (RouteDesc.words ⟨none, p, m, some i, some h, true, ad, name, perm, track, tag⟩)) =
      some (RouteDesc.expected ⟨none, p, m, some i, some h, true, ad, name, perm, track, tag⟩) := by
  obtain ⟨hvrf, hp, hps, ⟨hmw, hmq, _⟩, hintf, hnh, hname, hpt⟩ := hv
  simp only at hvrf hp hps hmw hmq hintf hnh hname hpt
  have k1 := wk kIp (by decide); have k2 := wk kRoute (by decide); have k3 := wk kVrf (by decide)
  have k4 := wk kGlobal (by decide); have k5 := wk kName (by decide); have k6 := wk kPermanent (by decide)
  have k7 := wk kTrack (by decide); have k8 := wk kTag (by decide)
  have hpv : p ≠ kVrf := by intro e; subst e; revert hps; decide
  obtain ⟨hiw, c, c2, r, rfl, hc⟩ := hintf _ rfl
  obtain ⟨hhw, hhq, _⟩ := hnh _ rfl
  unfold routeParse
  cases ad <;> cases name <;> cases perm <;> cases track <;> cases tag <;>
    (try (rcases hpt with hpt | hpt <;> cases hpt)) <;>
    (rw [lex_line [] _ (by simp) (by
      simp only [RouteDesc.words, optWords, List.forall_mem_cons, List.not_mem_nil, false_imp_iff, implies_true, and_true,
        List.cons_append, List.nil_append, Option.toList, Option.map, if_true, if_false, List.append_nil, Bool.false_eq_true]
      simp [*, word_toDec])]) <;>
    simp (config := {decide := true}) [RouteDesc.words, RouteDesc.expected, optWords, toksOf, routeBody, routeTail, *,
      slotIntf, slotAddr, slotKw, slotDigits, slotKwWord, slotKwDigits, quadPrefix_toDec, takeWhile_toDec,
      Range.toDec_ne_nil, kw_not_prefix_toDec, qp_global, qp_name, qp_permanent, qp_track, qp_tag]

theorem route_both_10 (v p m i h : Str) (ad : Option Nat) (name : Option Str) (perm : Bool) (track tag : Option Nat)
    (hv : RouteDesc.Valid ⟨some v, p, m, some i, some h, false, ad, name, perm, track, tag⟩) :
    routeParse (line [] (RouteDesc.words ⟨some v, p, m, some i, some h, false, ad, name, perm, track, tag⟩)) =
      some (RouteDesc.expected ⟨some v, p, m, some i, some h, false, ad, name, perm, track, tag⟩) := by
  obtain ⟨hvrf, hp, hps, ⟨hmw, hmq, _⟩, hintf, hnh, hname, hpt⟩ := hv
  simp only at hvrf hp hps hmw hmq hintf hnh hname hpt
  have k1 := wk kIp (by decide); have k2 := wk kRoute (by decide); have k3 := wk kVrf (by decide)
  have k4 := wk kGlobal (by decide); have k5 := wk kName (by decide); have k6 := wk kPermanent (by decide)
  have k7 := wk kTrack (by decide); have k8 := wk kTag (by decide)
  have hpv : p ≠ kVrf := by intro e; subst e; revert hps; decide
  obtain ⟨hiw, c, c2, r, rfl, hc⟩ := hintf _ rfl
  obtain ⟨hhw, hhq, _⟩ := hnh _ rfl
  unfold routeParse
  cases ad <;> cases name <;> cases perm <;> cases track <;> cases tag <;>
    (try (rcases hpt with hpt | hpt <;> cases hpt)) <;>
    (rw [lex_line [] _ (by simp) (by
      simp only [RouteDesc.words, optWords, List.forall_mem_cons, List.not_mem_nil, false_imp_iff, implies_true, and_true,
        List.cons_append, List.nil_append, Option.toList, Option.map, if_true, if_false, List.append_nil, Bool.false_eq_true]
      simp [*, word_toDec])]) <;>
    simp (config := {decide := true}) [RouteDesc.words, RouteDesc.expected, optWords, toksOf, routeBody, routeTail, *,
      slotIntf, slotAddr, slotKw, slotDigits, slotKwWord, slotKwDigits, quadPrefix_toDec, takeWhile_toDec,
      Range.toDec_ne_nil, kw_not_prefix_toDec, qp_global, qp_name, qp_permanent, qp_track, qp_tag]

theorem route_both_11 (v p m i h : Str) (ad : Option Nat) (name : Option Str) (perm : Bool) (track tag : Option Nat)
    (hv : RouteDesc.Valid ⟨some v, p, m, some i, some h, true, ad, name, perm, track, tag⟩) :
    routeParse (line [] (RouteDesc.words ⟨some v, p, m, some i, some h, true, ad, name, perm, track, tag⟩)) =
      some (RouteDesc.expected ⟨some v, p, m, some i, some h, true, ad, name, perm, track, tag⟩) := by
  obtain ⟨hvrf, hp, hps, ⟨hmw, hmq, _⟩, hintf, hnh, hname, hpt⟩ := hv
  simp only at hvrf hp hps hmw hmq hintf hnh hname hpt
  have k1 := wk kIp (by decide); have k2 := wk kRoute (by decide); have k3 := wk kVrf (by decide)
  have k4 := wk kGlobal (by decide); have k5 := wk kName (by decide); have k6 := wk kPermanent (by decide)
  have k7 := wk kTrack (by decide); have k8 := wk kTag (by decide)
  have hpv : p ≠ kVrf := by intro e; subst e; revert hps; decide
  obtain ⟨hiw, c, c2, r, rfl, hc⟩ := hintf _ rfl
  obtain ⟨hhw, hhq, _⟩ := hnh _ rfl
  unfold routeParse
  cases ad <;> cases name <;> cases perm <;> cases track <;> cases tag <;>
    (try (rcases hpt with hpt | hpt <;> cases hpt)) <;>
    (rw [lex_line [] _ (by simp) (by
      simp only [RouteDesc.words, optWords, List.forall_mem_cons, List.not_mem_nil, false_imp_iff, implies_true, and_true,
        List.cons_append, List.nil_append, Option.toList, Option.map, if_true, if_false, List.append_nil, Bool.false_eq_true]
      simp [*, word_toDec])]) <;>
    simp (config := {decide := true}) [RouteDesc.words, RouteDesc.expected, optWords, toksOf, routeBody, routeTail, *,
      slotIntf, slotAddr, slotKw, slotDigits, slotKwWord, slotKwDigits, quadPrefix_toDec, takeWhile_toDec,
      Range.toDec_ne_nil, kw_not_prefix_toDec, qp_global, qp_name, qp_permanent, qp_track, qp_tag]

theorem route_intf_00 (v p m i h : Str) (ad : Option Nat) (name : Option Str) (perm : Bool) (track tag : Option Nat)
    (hv : RouteDesc.Valid ⟨none, p, m, some i, none, false, ad, name, perm, track, tag⟩) :
    routeParse (line [] (RouteDesc.words ⟨none, p, m, some i, none, false, ad, name, perm, track, tag⟩)) =
      some (RouteDesc.expected ⟨none, p, m, some i, none, false, ad, name, perm, track, tag⟩) := by
  obtain ⟨hvrf, hp, hps, ⟨hmw, hmq, _⟩, hintf, hnh, hname, hpt⟩ := hv
  simp only at hvrf hp hps hmw hmq hintf hnh hname hpt
  have k1 := wk kIp (by decide); have k2 := wk kRoute (by decide); have k3 := wk kVrf (by decide)
  have k4 := wk kGlobal (by decide); have k5 := wk kName (by decide); have k6 := wk kPermanent (by decide)
  have k7 := wk kTrack (by decide); have k8 := wk kTag (by decide)
  have hpv : p ≠ kVrf := by intro e; subst e; revert hps; decide
  obtain ⟨hiw, c, c2, r, rfl, hc⟩ := hintf _ rfl
  unfold routeParse
  cases ad <;> cases name <;> cases perm <;> cases track <;> cases tag <;>
    (try (rcases hpt with hpt | hpt <;> cases hpt)) <;>
    (rw [lex_line [] _ (by simp) (by
      simp only [RouteDesc.words, optWords, List.forall_mem_cons, List.not_mem_nil, false_imp_iff, implies_true, and_true,
        List.cons_append, List.nil_append, Option.toList, Option.map, if_true, if_false, List.append_nil, Bool.false_eq_true]
      simp [*, word_toDec])]) <;>
    simp (config := {decide := true}) [RouteDesc.words, RouteDesc.expected, optWords, toksOf, routeBody, routeTail, *,
      slotIntf, slotAddr, slotKw, slotDigits, slotKwWord, slotKwDigits, quadPrefix_toDec, takeWhile_toDec,
      Range.toDec_ne_nil, kw_not_prefix_toDec, qp_global, qp_name, qp_permanent, qp_track, qp_tag]

theorem route_intf_01 (v p m i h : Str) (ad : Option Nat) (name : Option Str) (perm : Bool) (track tag : Option Nat)
    (hv : RouteDesc.Valid ⟨none, p, m, some i, none, true, ad, name, perm, track, tag⟩) :
    routeParse (line [] (RouteDesc.words ⟨none, p, m, some i, none, true, ad, name, perm, track, tag⟩)) =
      some (RouteDesc.expected ⟨none, p, m, some i, none, true, ad, name, perm, track, tag⟩) := by
  obtain ⟨hvrf, hp, hps, ⟨hmw, hmq, _⟩, hintf, hnh, hname, hpt⟩ := hv
  simp only at hvrf hp hps hmw hmq hintf hnh hname hpt
  have k1 := wk kIp (by decide); have k2 := wk kRoute (by decide); have k3 := wk kVrf (by decide)
  have k4 := wk kGlobal (by decide); have k5 := wk kName (by decide); have k6 := wk kPermanent (by decide)
  have k7 := wk kTrack (by decide); have k8 := wk kTag (by decide)
  have hpv : p ≠ kVrf := by intro e; subst e; revert hps; decide
  obtain ⟨hiw, c, c2, r, rfl, hc⟩ := hintf _ rfl
  unfold routeParse
  cases ad <;> cases name <;> cases perm <;> cases track <;> cases tag <;>
    (try (rcases hpt with hpt | hpt <;> cases hpt)) <;>
    (rw [lex_line [] _ (by simp) (by
      simp only [RouteDesc.words, optWords, List.forall_mem_cons, List.not_mem_nil, false_imp_iff, implies_true, and_true,
        List.cons_append, List.nil_append, Option.toList, Option.map, if_true, if_false, List.append_nil, Bool.false_eq_true]
      simp [*, word_toDec])]) <;>
    simp (config := {decide := true}) [RouteDesc.words, RouteDesc.expected, optWords, toksOf, routeBody, routeTail, *,
      slotIntf, slotAddr, slotKw, slotDigits, slotKwWord, slotKwDigits, quadPrefix_toDec, takeWhile_toDec,
      Range.toDec_ne_nil, kw_not_prefix_toDec, qp_global, qp_name, qp_permanent, qp_track, qp_tag]

theorem route_intf_10 (v p m i h : Str) (ad : Option Nat) (name : Option Str) (perm : Bool) (track tag : Option Nat)
    (hv : RouteDesc.Valid ⟨some v, p, m, some i, none, false, ad, name, perm, track, tag⟩) :
    routeParse (line [] (RouteDesc.words ⟨some v, p, m, some i, none, false, ad, name, perm, track, tag⟩)) =
      some (RouteDesc.expected ⟨some v, p, m, some i, none, false, ad, name, perm, track, tag⟩) := by
  obtain ⟨hvrf, hp, hps, ⟨hmw, hmq, _⟩, hintf, hnh, hname, hpt⟩ := hv
  simp only at hvrf hp hps hmw hmq hintf hnh hname hpt
  have k1 := wk kIp (by decide); have k2 := wk kRoute (by decide); have k3 := wk kVrf (by decide)
  have k4 := wk kGlobal (by decide); have k5 := wk kName (by decide); have k6 := wk kPermanent (by decide)
  have k7 := wk kTrack (by decide); have k8 := wk kTag (by decide)
  have hpv : p ≠ kVrf := by intro e; subst e; revert hps; decide
  obtain ⟨hiw, c, c2, r, rfl, hc⟩ := hintf _ rfl
  unfold routeParse
  cases ad <;> cases name <;> cases perm <;> cases track <;> cases tag <;>
    (try (rcases hpt with hpt | hpt <;> cases hpt)) <;>
    (rw [lex_line [] _ (by simp) (by
      simp only [RouteDesc.words, optWords, List.forall_mem_cons, List.not_mem_nil, false_imp_iff, implies_true, and_true,
        List.cons_append, List.nil_append, Option.toList, Option.map, if_true, if_false, List.append_nil, Bool.false_eq_true]
      simp [*, word_toDec])]) <;>
    simp (config := {decide := true}) [RouteDesc.words, RouteDesc.expected, optWords, toksOf, routeBody, routeTail, *,
      slotIntf, slotAddr, slotKw, slotDigits, slotKwWord, slotKwDigits, quadPrefix_toDec, takeWhile_toDec,
      Range.toDec_ne_nil, kw_not_prefix_toDec, qp_global, qp_name, qp_permanent, qp_track, qp_tag]

theorem route_intf_11 (v p m i h : Str) (ad : Option Nat) (name : Option Str) (perm : Bool) (track tag : Option Nat)
    (hv : RouteDesc.Valid ⟨some v, p, m, some i, none, true, ad, name, perm, track, tag⟩) :
    routeParse (line [] (RouteDesc.words ⟨some v, p, m, some i, none, true, ad, name, perm, track, tag⟩)) =
      some (RouteDesc.expected ⟨some v, p, m, some i, none, true, ad, name, perm, track, tag⟩) := by
  obtain ⟨hvrf, hp, hps, ⟨hmw, hmq, _⟩, hintf, hnh, hname, hpt⟩ := hv
  simp only at hvrf hp hps hmw hmq hintf hnh hname hpt
  have k1 := wk kIp (by decide); have k2 := wk kRoute (by decide); have k3 := wk kVrf (by decide)
  have k4 := wk kGlobal (by decide); have k5 := wk kName (by decide); have k6 := wk kPermanent (by decide)
  have k7 := wk kTrack (by decide); have k8 := wk kTag (by decide)
  have hpv : p ≠ kVrf := by intro e; subst e; revert hps; decide
  obtain ⟨hiw, c, c2, r, rfl, hc⟩ := hintf _ rfl
  unfold routeParse
  cases ad <;> cases name <;> cases perm <;> cases track <;> cases tag <;>
    (try (rcases hpt with hpt | hpt <;> cases hpt)) <;>
    (rw [lex_line [] _ (by simp) (by
      simp only [RouteDesc.words, optWords, List.forall_mem_cons, List.not_mem_nil, false_imp_iff, implies_true, and_true,
        List.cons_append, List.nil_append, Option.toList, Option.map, if_true, if_false, List.append_nil, Bool.false_eq_true]
      simp [*, word_toDec])]) <;>
    simp (config := {decide := true}) [RouteDesc.words, RouteDesc.expected, optWords, toksOf, routeBody, routeTail, *,
      slotIntf, slotAddr, slotKw, slotDigits, slotKwWord, slotKwDigits, quadPrefix_toDec, takeWhile_toDec,
      Range.toDec_ne_nil, kw_not_prefix_toDec, qp_global, qp_name, qp_permanent, qp_track, qp_tag]

theorem route_nh_00 (v p m i h : Str) (ad : Option Nat) (name : Option Str) (perm : Bool) (track tag : Option Nat)
    (hv : RouteDesc.Valid ⟨none, p, m, none, some h, false, ad, name, perm, track, tag⟩) :
    routeParse (line [] (RouteDesc.words ⟨none, p, m, none, some h, false, ad, name, perm, track, tag⟩)) =
      some (RouteDesc.expected ⟨none, p, m, none, some h, false, ad, name, perm, track, tag⟩) := by
  obtain ⟨hvrf, hp, hps, ⟨hmw, hmq, _⟩, hintf, hnh, hname, hpt⟩ := hv
  simp only at hvrf hp hps hmw hmq hintf hnh hname hpt
  have k1 := wk kIp (by decide); have k2 := wk kRoute (by decide); have k3 := wk kVrf (by decide)
  have k4 := wk kGlobal (by decide); have k5 := wk kName (by decide); have k6 := wk kPermanent (by decide)
  have k7 := wk kTrack (by decide); have k8 := wk kTag (by decide)
  have hpv : p ≠ kVrf := by intro e; subst e; revert hps; decide
  obtain ⟨hhw, hhq, d1, d2, dr, rfl, hd1⟩ := hnh _ rfl
  unfold routeParse
  cases ad <;> cases name <;> cases perm <;> cases track <;> cases tag <;>
    (try (rcases hpt with hpt | hpt <;> cases hpt)) <;>
    (rw [lex_line [] _ (by simp) (by
      simp only [RouteDesc.words, optWords, List.forall_mem_cons, List.not_mem_nil, false_imp_iff, implies_true, and_true,
        List.cons_append, List.nil_append, Option.toList, Option.map, if_true, if_false, List.append_nil, Bool.false_eq_true]
      simp [*, word_toDec])]) <;>
    simp (config := {decide := true}) [RouteDesc.words, RouteDesc.expected, optWords, toksOf, routeBody, routeTail, *,
      slotIntf, slotAddr, slotKw, slotDigits, slotKwWord, slotKwDigits, quadPrefix_toDec, takeWhile_toDec,
      Range.toDec_ne_nil, kw_not_prefix_toDec, qp_global, qp_name, qp_permanent, qp_track, qp_tag]

theorem route_nh_01 (v p m i h : Str) (ad : Option Nat) (name : Option Str) (perm : Bool) (track tag : Option Nat)
    (hv : RouteDesc.Valid ⟨none, p, m, none, some h, true, ad, name, perm, track, tag⟩) :
    routeParse (line [] (RouteDesc.words ⟨none, p, m, none, some h, true, ad, name, perm, track, tag⟩)) =
      some (RouteDesc.expected ⟨none, p, m, none, some h, true, ad, name, perm, track, tag⟩) := by
  obtain ⟨hvrf, hp, hps, ⟨hmw, hmq, _⟩, hintf, hnh, hname, hpt⟩ := hv
  simp only at hvrf hp hps hmw hmq hintf hnh hname hpt
  have k1 := wk kIp (by decide); have k2 := wk kRoute (by decide); have k3 := wk kVrf (by decide)
  have k4 := wk kGlobal (by decide); have k5 := wk kName (by decide); have k6 := wk kPermanent (by decide)
  have k7 := wk kTrack (by decide); have k8 := wk kTag (by decide)
  have hpv : p ≠ kVrf := by intro e; subst e; revert hps; decide
  obtain ⟨hhw, hhq, d1, d2, dr, rfl, hd1⟩ := hnh _ rfl
  unfold routeParse
  cases ad <;> cases name <;> cases perm <;> cases track <;> cases tag <;>
    (try (rcases hpt with hpt | hpt <;> cases hpt)) <;>
    (rw [lex_line [] _ (by simp) (by
      simp only [RouteDesc.words, optWords, List.forall_mem_cons, List.not_mem_nil, false_imp_iff, implies_true, and_true,
        List.cons_append, List.nil_append, Option.toList, Option.map, if_true, if_false, List.append_nil, Bool.false_eq_true]
      simp [*, word_toDec])]) <;>
    simp (config := {decide := true}) [RouteDesc.words, RouteDesc.expected, optWords, toksOf, routeBody, routeTail, *,
      slotIntf, slotAddr, slotKw, slotDigits, slotKwWord, slotKwDigits, quadPrefix_toDec, takeWhile_toDec,
      Range.toDec_ne_nil, kw_not_prefix_toDec, qp_global, qp_name, qp_permanent, qp_track, qp_tag]

theorem route_nh_10 (v p m i h : Str) (ad : Option Nat) (name : Option Str) (perm : Bool) (track tag : Option Nat)
    (hv : RouteDesc.Valid ⟨some v, p, m, none, some h, false, ad, name, perm, track, tag⟩) :
    routeParse (line [] (RouteDesc.words ⟨some v, p, m, none, some h, false, ad, name, perm, track, tag⟩)) =
      some (RouteDesc.expected ⟨some v, p, m, none, some h, false, ad, name, perm, track, tag⟩) := by
  obtain ⟨hvrf, hp, hps, ⟨hmw, hmq, _⟩, hintf, hnh, hname, hpt⟩ := hv
  simp only at hvrf hp hps hmw hmq hintf hnh hname hpt
  have k1 := wk kIp (by decide); have k2 := wk kRoute (by decide); have k3 := wk kVrf (by decide)
  have k4 := wk kGlobal (by decide); have k5 := wk kName (by decide); have k6 := wk kPermanent (by decide)
  have k7 := wk kTrack (by decide); have k8 := wk kTag (by decide)
  have hpv : p ≠ kVrf := by intro e; subst e; revert hps; decide
  obtain ⟨hhw, hhq, d1, d2, dr, rfl, hd1⟩ := hnh _ rfl
  unfold routeParse
  cases ad <;> cases name <;> cases perm <;> cases track <;> cases tag <;>
    (try (rcases hpt with hpt | hpt <;> cases hpt)) <;>
    (rw [lex_line [] _ (by simp) (by
      simp only [RouteDesc.words, optWords, List.forall_mem_cons, List.not_mem_nil, false_imp_iff, implies_true, and_true,
        List.cons_append, List.nil_append, Option.toList, Option.map, if_true, if_false, List.append_nil, Bool.false_eq_true]
      simp [*, word_toDec])]) <;>
    simp (config := {decide := true}) [RouteDesc.words, RouteDesc.expected, optWords, toksOf, routeBody, routeTail, *,
      slotIntf, slotAddr, slotKw, slotDigits, slotKwWord, slotKwDigits, quadPrefix_toDec, takeWhile_toDec,
      Range.toDec_ne_nil, kw_not_prefix_toDec, qp_global, qp_name, qp_permanent, qp_track, qp_tag]

theorem route_nh_11 (v p m i h : Str) (ad : Option Nat) (name : Option Str) (perm : Bool) (track tag : Option Nat)
    (hv : RouteDesc.Valid ⟨some v, p, m, none, some h, true, ad, name, perm, track, tag⟩) :
    routeParse (line [] (RouteDesc.words ⟨some v, p, m, none, some h, true, ad, name, perm, track, tag⟩)) =
      some (RouteDesc.expected ⟨some v, p, m, none, some h, true, ad, name, perm, track, tag⟩) := by
  obtain ⟨hvrf, hp, hps, ⟨hmw, hmq, _⟩, hintf, hnh, hname, hpt⟩ := hv
  simp only at hvrf hp hps hmw hmq hintf hnh hname hpt
  have k1 := wk kIp (by decide); have k2 := wk kRoute (by decide); have k3 := wk kVrf (by decide)
  have k4 := wk kGlobal (by decide); have k5 := wk kName (by decide); have k6 := wk kPermanent (by decide)
  have k7 := wk kTrack (by decide); have k8 := wk kTag (by decide)
  have hpv : p ≠ kVrf := by intro e; subst e; revert hps; decide
  obtain ⟨hhw, hhq, d1, d2, dr, rfl, hd1⟩ := hnh _ rfl
  unfold routeParse
  cases ad <;> cases name <;> cases perm <;> cases track <;> cases tag <;>
    (try (rcases hpt with hpt | hpt <;> cases hpt)) <;>
    (rw [lex_line [] _ (by simp) (by
      simp only [RouteDesc.words, optWords, List.forall_mem_cons, List.not_mem_nil, false_imp_iff, implies_true, and_true,
        List.cons_append, List.nil_append, Option.toList, Option.map, if_true, if_false, List.append_nil, Bool.false_eq_true]
      simp [*, word_toDec])]) <;>
    simp (config := {decide := true}) [RouteDesc.words, RouteDesc.expected, optWords, toksOf, routeBody, routeTail, *,
      slotIntf, slotAddr, slotKw, slotDigits, slotKwWord, slotKwDigits, quadPrefix_toDec, takeWhile_toDec,
      Range.toDec_ne_nil, kw_not_prefix_toDec, qp_global, qp_name, qp_permanent, qp_track, qp_tag]


/-- **all presence masks**: the twelve case lemmas above cover every description with an
interface, a next hop, or both -/
theorem route_cases (d : RouteDesc) (hv : d.Valid) (h : d.intf ≠ none ∨ d.nh ≠ none) :
    routeParse (line [] d.words) = some d.expected := by
  obtain ⟨vrf, p, m, intf, nh, glob, ad, name, perm, track, tag⟩ := d
  cases intf with
  | none =>
    cases nh with
    | none => simp at h
    | some hh =>
      cases vrf <;> cases glob
      · exact route_nh_00 [] p m [] hh ad name perm track tag hv
      · exact route_nh_01 [] p m [] hh ad name perm track tag hv
      · exact route_nh_10 _ p m [] hh ad name perm track tag hv
      · exact route_nh_11 _ p m [] hh ad name perm track tag hv
  | some i =>
    cases nh with
    | none =>
      cases vrf <;> cases glob
      · exact route_intf_00 [] p m i [] ad name perm track tag hv
      · exact route_intf_01 [] p m i [] ad name perm track tag hv
      · exact route_intf_10 _ p m i [] ad name perm track tag hv
      · exact route_intf_11 _ p m i [] ad name perm track tag hv
    | some hh =>
      cases vrf <;> cases glob
      · exact route_both_00 [] p m i hh ad name perm track tag hv
      · exact route_both_01 [] p m i hh ad name perm track tag hv
      · exact route_both_10 _ p m i hh ad name perm track tag hv
      · exact route_both_11 _ p m i hh ad name perm track tag hv

/-! ### the interface line -/

theorem intfName_header (nm : List Str) (h : ∀ w ∈ nm, Word w) :
    intfName (line [] (kInterface :: nm)) = join [' '] nm := by
  unfold intfName wordsOf
  rw [lex_line [] _ (by simp) (by
    intro x hx; rcases List.mem_cons.mp hx with rfl | hx
    · exact word_kw (by decide)
    · exact h x hx), map_fst_toksOf]
  rfl

theorem isIntfLine_header (nm : List Str) (h : ∀ w ∈ nm, Word w) :
    isIntfLine (line [] (kInterface :: nm)) = true := by
  unfold isIntfLine wordsOf
  rw [lex_line [] _ (by simp) (by
    intro x hx; rcases List.mem_cons.mp hx with rfl | hx
    · exact word_kw (by decide)
    · exact h x hx), map_fst_toksOf]
  simp

end Ccp.Ios
