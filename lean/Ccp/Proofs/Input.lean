import Ccp.Model.Input
import Ccp.Proofs.TreeForest
namespace Ccp.Input
end Ccp.Input
