import Ccp.Model.Input
import Ccp.Proofs.TreeForest
namespace Ccp.Input
open Ccp.Py

/-- no character at which `str.splitlines()` breaks -/
def BreakFree (l : Str) : Prop := ∀ c ∈ l, isBreak c = false
/-- neither `\n` nor `\r` -/
def Clean (l : Str) : Prop := ∀ c ∈ l, c ≠ '\n' ∧ c ≠ '\r'

/-- the list without one final empty line -/
def dropLastEmpty : List Str → List Str
  | [] => []
  | l :: r =>
    match r with
    | [] => if l = [] then [] else [l]
    | _ :: _ => l :: dropLastEmpty r

theorem isBreak_lf : isBreak '\n' = true := by decide
theorem isBreak_cr : isBreak '\r' = true := by decide

theorem BreakFree.clean {l : Str} (h : BreakFree l) : Clean l := by
  intro c hc
  have := h c hc
  constructor
  · intro e; subst e; simp [isBreak_lf] at this
  · intro e; subst e; simp [isBreak_cr] at this

theorem breakFree_cons {c : Char} {w : Str} (h : BreakFree (c :: w)) : isBreak c = false ∧ BreakFree w :=
  ⟨h c (by simp), fun d hd => h d (by simp [hd])⟩

theorem splitlines_cons_plain {c : Char} (hc : isBreak c = false) (cs : Str) :
    splitlines (c :: cs) = pushHead c (splitlines cs) := by
  have h1 : c ≠ '\r' := by intro e; subst e; simp [isBreak_cr] at hc
  simp [splitlines, h1, hc]

theorem splitlines_append_lf (w : Str) (hw : BreakFree w) (rest : Str) :
    splitlines (w ++ '\n' :: rest) = w :: splitlines rest := by
  induction w with
  | nil => simp [splitlines, isBreak_lf]
  | cons c w ih =>
    obtain ⟨hc, hw'⟩ := breakFree_cons hw
    rw [List.cons_append, splitlines_cons_plain hc, ih hw']; rfl

theorem splitlines_append_crlf (w : Str) (hw : BreakFree w) (rest : Str) :
    splitlines (w ++ '\r' :: '\n' :: rest) = w :: splitlines rest := by
  induction w with
  | nil => simp [splitlines, isBreak_lf]
  | cons c w ih =>
    obtain ⟨hc, hw'⟩ := breakFree_cons hw
    rw [List.cons_append, splitlines_cons_plain hc, ih hw']; rfl

theorem splitlines_breakFree (w : Str) (hw : BreakFree w) :
    splitlines w = if w = [] then [] else [w] := by
  induction w with
  | nil => simp [splitlines]
  | cons c w ih =>
    obtain ⟨hc, hw'⟩ := breakFree_cons hw
    rw [splitlines_cons_plain hc, ih hw']
    by_cases h : w = [] <;> simp [h, pushHead]

theorem join_cons_cons (sep w v : Str) (ws : List Str) :
    join sep (w :: v :: ws) = w ++ sep ++ join sep (v :: ws) := rfl

theorem splitlines_join_lf (ls : List Str) (h : ∀ l ∈ ls, BreakFree l) :
    splitlines (join ['\n'] ls) = dropLastEmpty ls := by
  induction ls with
  | nil => simp [join, splitlines, dropLastEmpty]
  | cons l r ih =>
    cases r with
    | nil => simp [join, dropLastEmpty, splitlines_breakFree l (h l (by simp))]
    | cons l2 r =>
      rw [join_cons_cons, List.append_assoc, List.singleton_append,
        splitlines_append_lf l (h l (by simp)), ih (fun x hx => h x (by simp [hx]))]
      simp [dropLastEmpty]

theorem splitlines_join_crlf (ls : List Str) (h : ∀ l ∈ ls, BreakFree l) :
    splitlines (join ['\r', '\n'] ls) = dropLastEmpty ls := by
  induction ls with
  | nil => simp [join, splitlines, dropLastEmpty]
  | cons l r ih =>
    cases r with
    | nil => simp [join, dropLastEmpty, splitlines_breakFree l (h l (by simp))]
    | cons l2 r =>
      rw [join_cons_cons, List.append_assoc]
      show splitlines (l ++ '\r' :: '\n' :: join ['\r', '\n'] (l2 :: r)) = _
      rw [splitlines_append_crlf l (h l (by simp)), ih (fun x hx => h x (by simp [hx]))]
      simp [dropLastEmpty]

/-! ### universal newlines, the `\r*\n` split -/

def NoCR (t : Str) : Prop := ∀ c ∈ t, c ≠ '\r'
def NoLF (t : Str) : Prop := ∀ c ∈ t, c ≠ '\n'

theorem universalNewlines_noCR (t : Text) : NoCR (universalNewlines t) := by
  induction t with
  | nil => intro c hc; simp [universalNewlines] at hc
  | cons c cs ih =>
    unfold universalNewlines
    split
    · split
      · exact ih
      · intro d hd
        rcases List.mem_cons.mp hd with e | hd
        · subst e; decide
        · exact ih d hd
    · rename_i hc
      intro d hd
      rcases List.mem_cons.mp hd with e | hd
      · subst e; exact hc
      · exact ih d hd

theorem universalNewlines_id (t : Text) (h : NoCR t) : universalNewlines t = t := by
  induction t with
  | nil => rfl
  | cons c cs ih =>
    have hc : c ≠ '\r' := h c (by simp)
    simp only [universalNewlines, hc, if_false]
    rw [ih (fun d hd => h d (by simp [hd]))]

theorem splitOn_ne_nil (sep : Char) (t : Str) : splitOn sep t ≠ [] := by
  cases t with
  | nil => simp [splitOn]
  | cons c cs =>
    simp only [splitOn]
    split
    · simp
    · split <;> simp

/-- on a text without `\r` the regex split is the plain split at `\n` -/
theorem splitRegexCRLF_noCR (t : Text) (h : NoCR t) : splitRegexCRLF t = splitOn '\n' t := by
  induction t with
  | nil => rfl
  | cons c cs ih =>
    have hc : c ≠ '\r' := h c (by simp)
    have ih' := ih (fun d hd => h d (by simp [hd]))
    simp only [splitRegexCRLF, splitOn, hc, ih']
    by_cases hn : c = '\n'
    · simp [hn]
      cases hs : splitOn '\n' cs <;> simp
    · simp [hn]
      cases hs : splitOn '\n' cs with
      | nil => exact absurd hs (splitOn_ne_nil _ _)
      | cons w ws => simp [pushHead]

theorem splitOn_cons_ne {sep c : Char} (h : c ≠ sep) (cs : Str) :
    splitOn sep (c :: cs) = pushHead c (splitOn sep cs) := by
  simp only [splitOn]
  cases hs : splitOn sep cs with
  | nil => exact absurd hs (splitOn_ne_nil _ _)
  | cons w ws => simp [h, pushHead]

theorem splitOn_cons_eq (sep : Char) (cs : Str) : splitOn sep (sep :: cs) = [] :: splitOn sep cs := by
  simp only [splitOn]
  cases hs : splitOn sep cs with
  | nil => exact absurd hs (splitOn_ne_nil _ _)
  | cons w ws => simp

theorem splitOn_append_sep (w : Str) (hw : NoLF w) (rest : Str) :
    splitOn '\n' (w ++ '\n' :: rest) = w :: splitOn '\n' rest := by
  induction w with
  | nil => exact splitOn_cons_eq _ _
  | cons c w ih =>
    rw [List.cons_append, splitOn_cons_ne (hw c (by simp)), ih (fun d hd => hw d (by simp [hd]))]; rfl

theorem splitOn_noLF (w : Str) (hw : NoLF w) : splitOn '\n' w = [w] := by
  induction w with
  | nil => rfl
  | cons c w ih =>
    rw [splitOn_cons_ne (hw c (by simp)), ih (fun d hd => hw d (by simp [hd]))]; rfl

theorem splitOn_join (ls : List Str) (hne : ls ≠ []) (h : ∀ l ∈ ls, NoLF l) :
    splitOn '\n' (join ['\n'] ls) = ls := by
  induction ls with
  | nil => exact absurd rfl hne
  | cons l r ih =>
    cases r with
    | nil => simpa [join] using splitOn_noLF l (h l (by simp))
    | cons l2 r =>
      rw [join_cons_cons, List.append_assoc, List.singleton_append,
        splitOn_append_sep l (h l (by simp)), ih (by simp) (fun x hx => h x (by simp [hx]))]

/-- the split at `\n` is a splitting: joining gives the text back and no piece contains `\n` -/
theorem join_splitOn (t : Str) : join ['\n'] (splitOn '\n' t) = t ∧ ∀ l ∈ splitOn '\n' t, NoLF l := by
  induction t with
  | nil => simp [splitOn, join, NoLF]
  | cons c cs ih =>
    by_cases hc : c = '\n'
    · subst hc
      rw [splitOn_cons_eq]
      constructor
      · cases hs : splitOn '\n' cs with
        | nil => exact absurd hs (splitOn_ne_nil _ _)
        | cons w ws => rw [join_cons_cons, ← hs, ih.1]; rfl
      · intro l hl
        rcases List.mem_cons.mp hl with e | hl
        · subst e; intro d hd; simp at hd
        · exact ih.2 l hl
    · rw [splitOn_cons_ne hc]
      cases hs : splitOn '\n' cs with
      | nil => exact absurd hs (splitOn_ne_nil _ _)
      | cons w ws =>
        rw [hs] at ih
        constructor
        · cases ws with
          | nil => simp [pushHead, join] at ih ⊢; exact ih.1
          | cons v vs =>
            simp only [pushHead]
            rw [join_cons_cons] at ih ⊢
            rw [← ih.1]; simp
        · intro l hl
          simp only [pushHead] at hl
          rcases List.mem_cons.mp hl with e | hl
          · subst e
            intro d hd
            rcases List.mem_cons.mp hd with e | hd
            · subst e; exact hc
            · exact ih.2 w (by simp) d hd
          · exact ih.2 l (by simp [hl])

theorem universal_write_lf (t : Text) : writeNewlines ['\n'] t = t := by
  induction t with
  | nil => rfl
  | cons c cs ih => by_cases h : c = '\n' <;> simp [writeNewlines, h, ih]

theorem universal_write_crlf (t : Text) (h : NoCR t) :
    universalNewlines (writeNewlines ['\r', '\n'] t) = t := by
  induction t with
  | nil => rfl
  | cons c cs ih =>
    have hc : c ≠ '\r' := h c (by simp)
    have ih' := ih (fun d hd => h d (by simp [hd]))
    by_cases hn : c = '\n'
    · subst hn
      simp [writeNewlines, universalNewlines, ih']
    · simp [writeNewlines, universalNewlines, hn, hc, ih']

/-- `os.linesep` values covered: POSIX and Windows -/
def IsLinesep (sep : Str) : Prop := sep = ['\n'] ∨ sep = ['\r', '\n']

/-- reading back what was written undoes the write-side translation -/
theorem universal_write (sep : Str) (hs : IsLinesep sep) (t : Text) (h : NoCR t) :
    universalNewlines (writeNewlines sep t) = t := by
  rcases hs with e | e
  · subst e; rw [universal_write_lf, universalNewlines_id t h]
  · subst e; exact universal_write_crlf t h

/-! ### what `save_as` writes and what is read back -/

def CleanLines (ls : List Str) : Prop := ∀ l ∈ ls, Clean l

/-- what a saved file holds: the lines, plus a final empty line unless there is one already -/
def norm (M : List Str) : List Str :=
  if M = [] then [[], []] else if M.getLast? = some [] ∧ 2 ≤ M.length then M else M ++ [[]]

theorem join_snoc (sep : Str) (M : List Str) (hM : M ≠ []) (x : Str) :
    join sep (M ++ [x]) = join sep M ++ sep ++ x := by
  induction M with
  | nil => exact absurd rfl hM
  | cons l r ih =>
    cases r with
    | nil => simp [join]
    | cons l2 r =>
      rw [List.cons_append, List.cons_append, join_cons_cons, join_cons_cons, ← List.cons_append, ih (by simp)]
      simp [List.append_assoc]

theorem noLF_getLast {x : Str} (hx : NoLF x) : x.getLast? ≠ some '\n' := by
  intro h
  exact hx '\n' (List.mem_of_getLast? h) rfl

theorem saveText_eq (M : List Str) (h : ∀ l ∈ M, NoLF l) : saveText M = join ['\n'] (norm M) := by
  rcases List.eq_nil_or_concat M with e | ⟨M', x, e⟩
  · subst e; rfl
  · rw [List.concat_eq_append] at e
    subst e
    have hx : NoLF x := h x (by simp)
    by_cases hM' : M' = []
    · subst hM'
      have : ¬ (x.getLast? = some '\n') := noLF_getLast hx
      simp [saveText, norm, join, this]
    · have hj := join_snoc ['\n'] M' hM' x
      by_cases hxe : x = []
      · subst hxe
        have hlen : 2 ≤ (M' ++ [[]]).length := by
          cases M' with
          | nil => exact absurd rfl hM'
          | cons a b => simp
        have hn : norm (M' ++ [[]]) = M' ++ [[]] := by
          simp [norm, hM']
        rw [hn]
        simp [saveText, hj]
      · have hl : (join ['\n'] (M' ++ [x])).getLast? = x.getLast? := by
          rw [hj, List.getLast?_append]
          cases hxl : x.getLast? with
          | none => simp [List.getLast?_eq_none_iff] at hxl; exact absurd hxl hxe
          | some c => simp
        have hnl : ¬ ((join ['\n'] (M' ++ [x])).getLast? = some '\n') := by
          rw [hl]; exact noLF_getLast hx
        have hn : norm (M' ++ [x]) = M' ++ [x] ++ [[]] := by
          simp [norm, hxe]
        rw [hn, join_snoc _ _ (by simp)]
        simp [saveText, hnl]

theorem noCR_join (N : List Str) (h : CleanLines N) : NoCR (join ['\n'] N) := by
  induction N with
  | nil => intro c hc; simp [join] at hc
  | cons l r ih =>
    cases r with
    | nil => intro c hc; exact (h l (by simp) c (by simpa [join] using hc)).2
    | cons l2 r =>
      rw [join_cons_cons]
      intro c hc
      simp only [List.mem_append] at hc
      rcases hc with (hc | hc) | hc
      · exact (h l (by simp) c hc).2
      · simp at hc; subst hc; decide
      · exact ih (fun x hx => h x (by simp [hx])) c hc

theorem cleanLines_norm {M : List Str} (h : CleanLines M) : CleanLines (norm M) := by
  have he : Clean ([] : Str) := by intro c hc; simp at hc
  unfold norm
  split
  · intro l hl; simp at hl; subst hl; exact he
  · split
    · exact h
    · intro l hl
      rcases List.mem_append.mp hl with hl | hl
      · exact h l hl
      · simp at hl; subst hl; exact he

theorem norm_ne_nil (M : List Str) : norm M ≠ [] := by
  unfold norm
  split
  · simp
  · split
    · assumption
    · simp

theorem CleanLines.noLF {M : List Str} (h : CleanLines M) : ∀ l ∈ M, NoLF l :=
  fun l hl c hc => (h l hl c hc).1

/-- the lines read from a file written by `save_as` -/
theorem fileLines_saveAs (sep : Str) (hs : IsLinesep sep) (M : List Str) (h : CleanLines M) :
    fileLines (saveAs sep M) = norm M := by
  unfold fileLines saveAs
  rw [saveText_eq M h.noLF, universal_write sep hs _ (noCR_join _ (cleanLines_norm h)),
    splitRegexCRLF_noCR _ (noCR_join _ (cleanLines_norm h)),
    splitOn_join _ (norm_ne_nil M) (cleanLines_norm h).noLF]

/-- the lines read from any file are free of `\r` and `\n`, and there is at least one -/
theorem fileLines_clean (raw : Text) : CleanLines (fileLines raw) ∧ fileLines raw ≠ [] := by
  unfold fileLines
  have hcr := universalNewlines_noCR raw
  rw [splitRegexCRLF_noCR _ hcr]
  refine ⟨?_, splitOn_ne_nil _ _⟩
  intro l hl c hc
  have hj := join_splitOn (universalNewlines raw)
  refine ⟨hj.2 l hl c hc, ?_⟩
  -- a character of a piece is a character of the text
  have hmem : ∀ (N : List Str) (l : Str), l ∈ N → ∀ c ∈ l, c ∈ join ['\n'] N := by
    intro N
    induction N with
    | nil => intro l hl; simp at hl
    | cons a r ih =>
      intro l hl c hc
      cases r with
      | nil => simp at hl; subst hl; simpa [join] using hc
      | cons b r =>
        rw [join_cons_cons]
        rcases List.mem_cons.mp hl with e | hl
        · subst e; simp [hc]
        · simp only [List.mem_append]; exact Or.inr (ih l hl c hc)
  have := hmem _ l hl c hc
  rw [hj.1] at this
  exact hcr c this

/-! ### the save/load cycle, for any text function with three stated properties -/

/-- the three facts about "texts of the object built from these lines" that the save/load
argument uses -/
structure Stable (g : List Str → List Str) : Prop where
  sub : ∀ ls, (g ls).Sublist ls
  idem : ∀ ls, g (g ls) = g ls
  snoc : ∀ ls, g (g ls ++ [[]]) = g ls ∨ g (g ls ++ [[]]) = g ls ++ [[]]

theorem saveText_sub_two (N : List Str) (h : N.Sublist [[], []]) : saveText N = ['\n'] := by
  have hall : ∀ x ∈ N, x = [] := fun x hx => by simpa using h.subset hx
  have hlen := h.length_le
  match N, hall, hlen with
  | [], _, _ => rfl
  | [a], ha, _ => rw [ha a (by simp)]; rfl
  | [a, b], ha, _ => rw [ha a (by simp), ha b (by simp)]; rfl
  | _ :: _ :: _ :: _, _, hl => simp at hl

theorem cleanLines_sub {L M : List Str} (h : M.Sublist L) (hL : CleanLines L) : CleanLines M :=
  fun l hl => hL l (h.subset hl)

/-- key step: saving the object loaded from a saved file writes the same text -/
theorem saveText_reload {g : List Str → List Str} (hg : Stable g) (L : List Str) (hL : CleanLines L) :
    saveText (g (norm (g L))) = saveText (g L) := by
  have hM : CleanLines (g L) := cleanLines_sub (hg.sub L) hL
  unfold norm
  split
  · rename_i h0
    rw [h0]
    exact saveText_sub_two _ (hg.sub _)
  · rename_i h0
    split
    · rw [hg.idem]
    · rename_i h1
      rcases hg.snoc L with e | e
      · rw [e]
      · rw [e, saveText_eq _ hM.noLF, saveText_eq _ ?_]
        · have hn1 : norm (g L) = g L ++ [[]] := by simp [norm, h0, h1]
          have hn2 : norm (g L ++ [[]]) = g L ++ [[]] := by
            have : 2 ≤ (g L ++ [[]]).length := by
              cases hgl : g L with
              | nil => exact absurd hgl h0
              | cons a b => simp
            simp [norm, h0]
          rw [hn1, hn2]
        · intro l hl
          rcases List.mem_append.mp hl with hl | hl
          · exact hM.noLF l hl
          · simp at hl; subst hl; intro c hc; simp at hc

/-- one load + save cycle on file contents, for an arbitrary `g` -/
def cycleG (g : List Str → List Str) (sep : Str) (raw : Text) : Text := saveAs sep (g (fileLines raw))

theorem cycleG_fix {g : List Str → List Str} (hg : Stable g) (sep : Str) (hs : IsLinesep sep) (raw : Text) :
    cycleG g sep (cycleG g sep raw) = cycleG g sep raw := by
  have hL := (fileLines_clean raw).1
  have hM : CleanLines (g (fileLines raw)) := cleanLines_sub (hg.sub _) hL
  show saveAs sep (g (fileLines (saveAs sep (g (fileLines raw))))) = saveAs sep (g (fileLines raw))
  rw [fileLines_saveAs sep hs _ hM]
  unfold saveAs
  rw [saveText_reload hg _ hL]

theorem iter_succ_fix {α : Type} (f : α → α) (a : α) (h : f (f a) = f a) : ∀ n, iter f (n + 1) a = f a := by
  intro n
  induction n with
  | zero => rfl
  | succ n ih =>
    have : ∀ m b, iter f (m + 1) b = f (iter f m b) := by
      intro m
      induction m with
      | zero => intro b; rfl
      | succ m ihm => intro b; show iter f (m + 1) (f b) = _; rw [ihm]; rfl
    rw [this, ih, h]

/-! ### the texts of the parsed object (`Ccp.Tree.parse`) -/
open Ccp.Tree

theorem bootstrapFuel_noIgnore (cfg : Cfg) (h : cfg.ignoreBlank = false) (fuel : Nat) (ls : List Str) :
    bootstrapFuel cfg fuel ls = link cfg ls := by
  cases fuel with
  | zero => rfl
  | succ n => simp [bootstrapFuel, h]

theorem texts_noIgnore (cfg : Cfg) (h : cfg.ignoreBlank = false) (ls : List Str) : texts cfg ls = ls := by
  simp [texts, getText, parse, bootstrap, bootstrapFuel_noIgnore cfg h, link_texts_eq]

theorem stable_noIgnore (cfg : Cfg) (h : cfg.ignoreBlank = false) : Stable (texts cfg) where
  sub ls := by rw [texts_noIgnore cfg h]; exact List.Sublist.refl _
  idem ls := by rw [texts_noIgnore cfg h]
  snoc ls := by right; rw [texts_noIgnore cfg h, texts_noIgnore cfg h]

/-! with `ignore_blank_lines` -/

theorem filterMap_zip_sublist (f : Str × Bool → Option Str) (hf : ∀ a b x, f (a, b) = some x → x = a) :
    ∀ (xs : List Str) (ks : List Bool), ((xs.zip ks).filterMap f).Sublist xs := by
  intro xs
  induction xs with
  | nil => intro ks; simp
  | cons a xs ih =>
    intro ks
    cases ks with
    | nil => simp
    | cons k ks =>
      simp only [List.zip_cons_cons, List.filterMap_cons]
      cases hfa : f (a, k) with
      | none => exact (ih ks).cons _
      | some x => rw [hf a k x hfa]; exact (ih ks).cons_cons _

theorem keptTexts_sublist (t : T) : (keptTexts t).Sublist t.texts := by
  unfold keptTexts
  apply filterMap_zip_sublist
  intro a b x h
  split at h
  · cases h; rfl
  · cases h

theorem bootstrapFuel_sublist (cfg : Cfg) (fuel : Nat) (ls : List Str) :
    (bootstrapFuel cfg fuel ls).texts.Sublist ls := by
  induction fuel generalizing ls with
  | zero => simp [bootstrapFuel, link_texts_eq]
  | succ n ih =>
    have hk : (keptTexts (link cfg ls)).Sublist ls := by
      have := keptTexts_sublist (link cfg ls); rwa [link_texts_eq] at this
    simp only [bootstrapFuel]
    split
    · split
      · exact (ih _).trans hk
      · simp [link_texts_eq]
    · simp [link_texts_eq]

/-- the blank-line filter drops nothing -/
def Settled (cfg : Cfg) (ls : List Str) : Prop := (keptTexts (link cfg ls)).length = ls.length

theorem bootstrapFuel_settled (cfg : Cfg) (fuel : Nat) (ls : List Str) (h : Settled cfg ls) :
    bootstrapFuel cfg fuel ls = link cfg ls := by
  cases fuel with
  | zero => rfl
  | succ n =>
    simp only [bootstrapFuel]
    split
    · have h' : (keptTexts (link cfg ls)).length = ls.length := h
      simp [h']
    · rfl

theorem bootstrapFuel_reaches (cfg : Cfg) (hi : cfg.ignoreBlank = true) (fuel : Nat) (ls : List Str)
    (hf : ls.length ≤ fuel) : Settled cfg (bootstrapFuel cfg fuel ls).texts := by
  induction fuel generalizing ls with
  | zero =>
    have : ls = [] := List.eq_nil_of_length_eq_zero (by omega)
    subst this
    simp only [bootstrapFuel, link_texts_eq, Settled]
    have := (keptTexts_sublist (link cfg [])).length_le
    rw [link_texts_eq] at this
    simpa using this
  | succ n ih =>
    have hk : (keptTexts (link cfg ls)).Sublist ls := by
      have := keptTexts_sublist (link cfg ls); rwa [link_texts_eq] at this
    simp only [bootstrapFuel, hi, if_true]
    split
    · rename_i hne
      apply ih
      have := hk.length_le
      have hne' : (keptTexts (link cfg ls)).length ≠ ls.length := by simpa using hne
      omega
    · rename_i hne
      rw [link_texts_eq]
      simpa [Settled] using hne

theorem texts_eq_bootstrap (cfg : Cfg) (hi : cfg.ignoreBlank = true) (ls : List Str) :
    texts cfg ls = (bootstrap cfg ls).texts ∧ Settled cfg (texts cfg ls) := by
  have hs := bootstrapFuel_reaches cfg hi ls.length ls (Nat.le_refl _)
  have : texts cfg ls = (bootstrap cfg ls).texts := by
    show (bootstrap cfg (bootstrap cfg ls).texts).texts = _
    unfold bootstrap at hs ⊢
    rw [bootstrapFuel_settled cfg _ _ hs, link_texts_eq]
  exact ⟨this, by rw [this]; exact hs⟩

theorem texts_settled (cfg : Cfg) (M : List Str) (h : Settled cfg M) : texts cfg M = M := by
  show (bootstrap cfg (bootstrap cfg M).texts).texts = M
  unfold bootstrap
  rw [bootstrapFuel_settled cfg _ M h, link_texts_eq, bootstrapFuel_settled cfg _ M h, link_texts_eq]

theorem texts_sublist (cfg : Cfg) (ls : List Str) : (texts cfg ls).Sublist ls := by
  show (bootstrap cfg (bootstrap cfg ls).texts).texts.Sublist ls
  exact (bootstrapFuel_sublist cfg _ _).trans (bootstrapFuel_sublist cfg _ _)

theorem texts_idem (cfg : Cfg) (ls : List Str) : texts cfg (texts cfg ls) = texts cfg ls := by
  cases hi : cfg.ignoreBlank with
  | false => rw [texts_noIgnore cfg hi]
  | true => exact texts_settled cfg _ (texts_eq_bootstrap cfg hi ls).2

/-! ### a final empty line -/

theorem dropLastEmpty_cons_cons (l l2 : Str) (r : List Str) :
    dropLastEmpty (l :: l2 :: r) = l :: dropLastEmpty (l2 :: r) := rfl

theorem dropLastEmpty_snoc (ls : List Str) : dropLastEmpty (ls ++ [[]]) = ls := by
  induction ls with
  | nil => simp [dropLastEmpty]
  | cons l r ih =>
    cases r with
    | nil => simp [dropLastEmpty]
    | cons l2 r =>
      show dropLastEmpty (l :: l2 :: (r ++ [[]])) = _
      rw [dropLastEmpty_cons_cons]
      show l :: dropLastEmpty ((l2 :: r) ++ [[]]) = _
      rw [ih]

theorem dropLastEmpty_id (ls : List Str) (h : ls.getLast? ≠ some []) : dropLastEmpty ls = ls := by
  induction ls with
  | nil => rfl
  | cons l r ih =>
    cases r with
    | nil =>
      have : l ≠ [] := by intro e; subst e; simp at h
      simp [dropLastEmpty, this]
    | cons l2 r =>
      rw [dropLastEmpty_cons_cons, ih (by simpa [List.getLast?_cons_cons] using h)]

/-- a final line end adds no line -/
theorem join_final (sep : Str) (ls : List Str) (h : ls ≠ []) : join sep ls ++ sep = join sep (ls ++ [[]]) := by
  rw [join_snoc sep ls h]; simp

/-! ### one more line at the end leaves the keep flags of the other lines alone -/

/-- `t'` is `t` with one more line `x` at the end: same keep flags on the common part -/
structure Ext (x : Str) (n : Nat) (t t' : T) : Prop where
  texts : t'.texts = t.texts ++ [x]
  len : t.texts.length = n
  klen : t.keep.length = n
  keep : ∃ b, t'.keep = t.keep ++ [b]

theorem Ext.setKeep_lt {x : Str} {n : Nat} {t t' : T} (h : Ext x n t t') {i : Nat} (hi : i < n) :
    Ext x n (setKeep t i) (setKeep t' i) := by
  obtain ⟨b, hb⟩ := h.keep
  refine ⟨h.texts, h.len, by simp [setKeep, h.klen], b, ?_⟩
  simp only [setKeep, hb]
  rw [List.set_append_left _ _ (by rw [h.klen]; exact hi)]

theorem Ext.setKeep_last {x : Str} {n : Nat} {t t' : T} (h : Ext x n t t') :
    Ext x n t (setKeep t' n) := by
  obtain ⟨b, hb⟩ := h.keep
  refine ⟨h.texts, h.len, h.klen, true, ?_⟩
  simp only [setKeep, hb]
  rw [List.set_append_right _ _ (by rw [h.klen]; exact Nat.le_refl _)]
  simp [h.klen]

theorem Ext.reparent {x : Str} {n : Nat} {t t' : T} (h : Ext x n t t') (p c p' c' : Nat) :
    Ext x n (reparent t p c) (reparent t' p' c') := ⟨h.texts, h.len, h.klen, h.keep⟩

theorem Ext.reparent_right {x : Str} {n : Nat} {t t' : T} (h : Ext x n t t') (p' c' : Nat) :
    Ext x n t (Tree.reparent t' p' c') := ⟨h.texts, h.len, h.klen, h.keep⟩

theorem ext_bannerWalk {x : Str} {n : Nat} (d : Char) (p : Nat) :
    ∀ (rest : List Str) (idx : Nat) (t t' : T), Ext x n t t' → idx + rest.length = n →
      Ext x n (bannerWalk d p idx rest t) (bannerWalk d p idx (rest ++ [x]) t') := by
  intro rest
  induction rest with
  | nil =>
    intro idx t t' h hn
    have : idx = n := by simpa using hn
    subst this
    simp only [List.nil_append, bannerWalk]
    split
    · exact h.reparent_right _ _
    · exact (h.reparent_right _ _).setKeep_last
  | cons txt rest ih =>
    intro idx t t' h hn
    simp only [List.cons_append, bannerWalk]
    split
    · exact h.reparent _ _ _ _
    · apply ih
      · exact (h.reparent _ _ _ _).setKeep_lt (by simp at hn; omega)
      · simp at hn; omega

theorem ext_markBanner {x : Str} {n : Nat} {t t' : T} (h : Ext x n t t') {p : Nat} (hp : p < n) (txt : Str) :
    Ext x n (markBanner t p txt) (markBanner t' p txt) := by
  unfold markBanner
  have hk := h.setKeep_lt hp
  split
  · exact hk
  · split
    · exact hk
    · have hd : (setKeep t' p).texts.drop (p + 1) = (setKeep t p).texts.drop (p + 1) ++ [x] := by
        show t'.texts.drop (p + 1) = t.texts.drop (p + 1) ++ [x]
        rw [h.texts, List.drop_append_of_le_length (by rw [h.len]; omega)]
      simp only []
      rw [hd]
      apply ext_bannerWalk _ _ _ _ _ _ hk
      show p + 1 + (t.texts.drop (p + 1)).length = n
      rw [List.length_drop, h.len]; omega

theorem bannerWalk_nil (d : Char) (p idx : Nat) (t : T) : bannerWalk d p idx [] t = t := rfl

theorem ext_markBanner_last {x : Str} {n : Nat} {t t' : T} (h : Ext x n t t') (txt : Str) :
    Ext x n t (markBanner t' n txt) := by
  unfold markBanner
  have hk := h.setKeep_last
  have hd : (setKeep t' n).texts.drop (n + 1) = [] := by
    show t'.texts.drop (n + 1) = []
    rw [h.texts]; apply List.drop_of_length_le; simp [h.len]
  split
  · exact hk
  · split
    · exact hk
    · simp only []
      rw [hd]; exact hk

theorem ext_markBannersFrom {x : Str} {n : Nat} :
    ∀ (l : List Str) (i : Nat) (t t' : T), Ext x n t t' → i + l.length = n →
      Ext x n (markBannersFrom i l t) (markBannersFrom i (l ++ [x]) t') := by
  intro l
  induction l with
  | nil =>
    intro i t t' h hn
    have : i = n := by simpa using hn
    subst this
    simp only [List.nil_append, markBannersFrom]
    split
    · exact ext_markBanner_last h _
    · exact h
  | cons txt rest ih =>
    intro i t t' h hn
    simp only [List.cons_append, markBannersFrom]
    apply ih
    · split
      · exact ext_markBanner h (by simp at hn; omega) _
      · exact h
    · simp at hn; omega

theorem ext_macroWalk {x : Str} {n : Nat} (p : Nat) :
    ∀ (rest : List Str) (idx : Nat) (t t' : T), Ext x n t t' → idx + rest.length = n →
      Ext x n (macroWalk p idx rest t) (macroWalk p idx (rest ++ [x]) t') := by
  intro rest
  induction rest with
  | nil =>
    intro idx t t' h hn
    have : idx = n := by simpa using hn
    subst this
    simp only [List.nil_append, macroWalk]
    split
    · exact h.setKeep_last.reparent_right _ _
    · exact h.setKeep_last.reparent_right _ _
  | cons txt rest ih =>
    intro idx t t' h hn
    simp only [List.cons_append, macroWalk]
    have hk := (h.setKeep_lt (i := idx) (by simp at hn; omega)).reparent p idx p idx
    split
    · exact hk
    · exact ih _ _ _ hk (by simp at hn; omega)

theorem ext_markMacrosFrom {x : Str} {n : Nat} :
    ∀ (l : List Str) (i : Nat) (t t' : T), Ext x n t t' → i + l.length = n →
      Ext x n (markMacrosFrom i l t) (markMacrosFrom i (l ++ [x]) t') := by
  intro l
  induction l with
  | nil =>
    intro i t t' h hn
    have : i = n := by simpa using hn
    subst this
    simp only [List.nil_append, markMacrosFrom]
    split
    · have hd : t'.texts.drop (i + 1) = [] := by
        rw [h.texts]; apply List.drop_of_length_le; simp [h.len]
      rw [hd]
      exact h.setKeep_last
    · exact h
  | cons txt rest ih =>
    intro i t t' h hn
    simp only [List.cons_append, markMacrosFrom]
    apply ih
    · split
      · have hi : i < n := by simp at hn; omega
        have hd : t'.texts.drop (i + 1) = t.texts.drop (i + 1) ++ [x] := by
          rw [h.texts, List.drop_append_of_le_length (by rw [h.len]; omega)]
        rw [hd]
        apply ext_macroWalk _ _ _ _ _ (h.setKeep_lt hi)
        show i + 1 + (t.texts.drop (i + 1)).length = n
        rw [List.length_drop, h.len]; omega
      · exact h
    · simp at hn; omega

theorem ext_link (cfg : Cfg) (M : List Str) (x : Str) : Ext x M.length (link cfg M) (link cfg (M ++ [x])) := by
  unfold link markMacros markBanners
  have h0 : Ext x M.length
      { texts := M, parents := linkByIndent cfg M, keep := M.map (fun _ => false) }
      { texts := M ++ [x], parents := linkByIndent cfg (M ++ [x]), keep := (M ++ [x]).map (fun _ => false) } :=
    ⟨rfl, rfl, by simp, false, by simp⟩
  have h1 := ext_markBannersFrom M 0 _ _ h0 (by simp)
  split
  · have ht := h1.texts
    have hl := h1.len
    simp only [] at ht hl ⊢
    rw [ht]
    refine ext_markMacrosFrom _ 0 _ _ h1 ?_
    simpa using hl
  · exact h1

theorem keptTexts_ext {n : Nat} {t t' : T} (h : Ext [] n t t') :
    ∃ b : Bool, keptTexts t' = keptTexts t ++ (if b then [[]] else []) := by
  obtain ⟨b, hb⟩ := h.keep
  refine ⟨b, ?_⟩
  unfold keptTexts
  rw [h.texts, hb, List.zip_append (by rw [h.len, h.klen]), List.filterMap_append]
  congr 1
  cases b <;> simp [strip, lstrip, rstrip]

theorem settled_kept (cfg : Cfg) (M : List Str) (h : Settled cfg M) : keptTexts (link cfg M) = M := by
  have hs := keptTexts_sublist (link cfg M)
  rw [link_texts_eq] at hs
  exact hs.eq_of_length h

/-- appending one empty line to the kept lines of an object: the line is kept or dropped, the
other lines stay -/
theorem texts_snoc (cfg : Cfg) (ls : List Str) :
    texts cfg (texts cfg ls ++ [[]]) = texts cfg ls ∨ texts cfg (texts cfg ls ++ [[]]) = texts cfg ls ++ [[]] := by
  cases hi : cfg.ignoreBlank with
  | false => right; rw [texts_noIgnore cfg hi, texts_noIgnore cfg hi]
  | true =>
    have hM : Settled cfg (texts cfg ls) := (texts_eq_bootstrap cfg hi ls).2
    generalize texts cfg ls = M at hM
    obtain ⟨b, hb⟩ := keptTexts_ext (ext_link cfg M [])
    rw [settled_kept cfg M hM] at hb
    cases b with
    | true =>
      right
      apply texts_settled
      show (keptTexts (link cfg (M ++ [[]]))).length = (M ++ [[]]).length
      rw [hb]; simp
    | false =>
      left
      have hk : keptTexts (link cfg (M ++ [[]])) = M := by simpa using hb
      have hb1 : bootstrap cfg (M ++ [[]]) = link cfg M := by
        unfold bootstrap
        have hlen : (M ++ [([] : Str)]).length = M.length + 1 := by simp
        rw [hlen]
        simp only [bootstrapFuel, hi, if_true, hk]
        have : (M.length != (M ++ [[]]).length) = true := by simp
        rw [if_pos this]
        exact bootstrapFuel_settled cfg _ M hM
      show (bootstrap cfg (bootstrap cfg (M ++ [[]])).texts).texts = M
      rw [hb1, link_texts_eq]
      unfold bootstrap
      rw [bootstrapFuel_settled cfg _ M hM, link_texts_eq]

theorem stable_texts (cfg : Cfg) : Stable (texts cfg) :=
  ⟨texts_sublist cfg, texts_idem cfg, texts_snoc cfg⟩
end Ccp.Input
