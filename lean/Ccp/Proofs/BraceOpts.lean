import Ccp.Model.BraceOpts
import Ccp.Proofs.BraceTree
/-!
Lemmas for the options of the brace-syntax conversion (C08): the `semicolon_end = False`
unpacking is the one of `Ccp.Model.Brace`; the flattening for an arbitrary `stop_width`
(`flattenW`) and the re-indentation argument that carries `braceText_render` over to it; a
converted well-formed statement is never a blank line.
-/
namespace Ccp.Brace
open Ccp.Py

/-! ### `semicolon_end = False` is the unpacking of `Ccp.Model.Brace` -/

theorem cleanTokS_false (t : Str) : cleanTokS false t = cleanTok t := by
  simp [cleanTokS, cleanTok]

mutual
theorem unpackItemS_false (stop : Nat) : ∀ (x : Item) (d : Nat), unpackItemS false stop d x = unpackItem stop d x
  | .tok t, d => by simp [unpackItemS, unpackItem, cleanTokS_false]
  | .grp g, d => by simp [unpackItemS, unpackItem, unpackListS_false stop g (d + 1)]
theorem unpackListS_false (stop : Nat) : ∀ (xs : List Item) (d : Nat), unpackListS false stop d xs = unpackList stop d xs
  | [], _ => by simp [unpackListS, unpackList]
  | x :: xs, d => by simp [unpackListS, unpackList, unpackItemS_false stop x d, unpackListS_false stop xs d]
end

theorem braceText_eq_items (stop : Nat) (txt : Str) :
    braceText stop txt = match braceItems txt with
      | .ok items => .ok (unpackList stop 0 items)
      | .error e => .error e := by
  unfold braceText braceItems
  split
  · rfl
  · rfl
  · dsimp only
    split <;> simp_all

theorem braceTextS_false (w : Int) (txt : Str) : braceTextS false w txt = braceText (stopOf w) txt := by
  rw [braceText_eq_items]
  unfold braceTextS
  cases braceItems txt with
  | error e => rfl
  | ok items => simp [unpackListS_false]

/-! ### a stripped text has no leading white space -/

theorem lstrip_of_head (l : Str) (h : ∀ c, l.head? = some c → isSpace c = false) : lstrip l = l := by
  cases l with
  | nil => rfl
  | cons c cs => simp [lstrip, h c rfl]

theorem lstrip_head_nonspace (l : Str) : ∀ c, (lstrip l).head? = some c → isSpace c = false := by
  induction l with
  | nil => intro c h; simp [lstrip] at h
  | cons x xs ih =>
    intro c h
    unfold lstrip at h ih
    by_cases hx : isSpace x = true
    · simp only [List.dropWhile_cons, hx, if_true] at h; exact ih c h
    · simp only [List.dropWhile_cons, hx, Bool.false_eq_true, if_false, List.head?_cons, Option.some.injEq] at h
      subst h; simpa using hx

theorem rstrip_isPrefix (l : Str) : rstrip l <+: l := by
  unfold rstrip
  have h := List.dropWhile_suffix isSpace (l := l.reverse)
  have := List.reverse_prefix.mpr h
  simpa using this

theorem strip_head_nonspace (x : Str) : ∀ c, (strip x).head? = some c → isSpace c = false := by
  intro c h
  unfold strip at h
  obtain ⟨t, ht⟩ := rstrip_isPrefix (lstrip x)
  cases hr : rstrip (lstrip x) with
  | nil => rw [hr] at h; simp at h
  | cons a as =>
    rw [hr] at h ht
    simp only [List.head?_cons, Option.some.injEq] at h
    subst h
    apply lstrip_head_nonspace x a
    rw [← ht]; rfl

theorem lstrip_replicate (n : Nat) (c : Str) (h : ∀ x, c.head? = some x → isSpace x = false) :
    lstrip (List.replicate n ' ' ++ c) = c := by
  induction n with
  | zero => simpa using lstrip_of_head c h
  | succ n ih =>
    have hs : isSpace ' ' = true := by decide
    simpa [lstrip, List.replicate_succ, hs] using ih

theorem indent_replicate (n : Nat) (c : Str) (h : ∀ x, c.head? = some x → isSpace x = false) :
    indent (List.replicate n ' ' ++ c) = n := by
  simp [indent, lstrip_replicate n c h]

/-! ### re-indentation: from four blanks per level to `w` blanks per level -/

/-- a line indented by a multiple of four blanks, re-indented to `w` blanks per level -/
def reindent (w : Nat) (l : Str) : Str := List.replicate (indent l / 4 * w) ' ' ++ lstrip l

theorem reindent_line (w d : Nat) (c : Str) (h : ∀ x, c.head? = some x → isSpace x = false) :
    reindent w (List.replicate (d * 4) ' ' ++ c) = List.replicate (d * w) ' ' ++ c := by
  unfold reindent
  rw [indent_replicate _ c h, lstrip_replicate _ c h, Nat.mul_div_cancel d (by decide : 0 < 4)]

theorem cleanTok_head (t : Str) : ∀ x, (cleanTok t).head? = some x → isSpace x = false := by
  unfold cleanTok
  exact strip_head_nonspace _

mutual
theorem unpackItem_reindent (w : Nat) : ∀ (x : Item) (d : Nat),
    unpackItem w d x = (unpackItem 4 d x).map (reindent w)
  | .tok t, d => by simp [unpackItem, reindent_line w d _ (cleanTok_head t)]
  | .grp g, d => by simp [unpackItem, unpackList_reindent w g (d + 1)]
theorem unpackList_reindent (w : Nat) : ∀ (xs : List Item) (d : Nat),
    unpackList w d xs = (unpackList 4 d xs).map (reindent w)
  | [], _ => by simp [unpackList]
  | x :: xs, d => by simp [unpackList, unpackItem_reindent w x d, unpackList_reindent w xs d]
end

/-! ### the flattening for an arbitrary indentation width -/

mutual
/-- preorder, one line per statement, `w` blanks per enclosing block -/
def flattenStmtW (w d : Nat) : Stmt → List Str
  | .node ws cs => (List.replicate (w * d) ' ' ++ stmtText ws) :: flattenListW w (d + 1) cs
def flattenListW (w d : Nat) : List Stmt → List Str
  | [] => []
  | s :: ss => flattenStmtW w d s ++ flattenListW w d ss
end

def flattenW (w : Nat) (T : List Stmt) : List Str := flattenListW w 0 T

theorem textOk_head {t : Str} (ht : TextOk t) : ∀ x, t.head? = some x → isSpace x = false := by
  obtain ⟨c, t', rfl, hc, -, -⟩ := ht.head
  intro x hx
  simp only [List.head?_cons, Option.some.injEq] at hx
  subst hx
  exact printable_not_isSpace hc

mutual
theorem flattenStmt_reindent (w : Nat) : ∀ (s : Stmt) (d : Nat), StmtOk s →
    (flattenStmt d s).map (reindent w) = flattenStmtW w d s
  | .node ws cs, d, hs => by
    have hws : WordsOk ws := by unfold StmtOk at hs; exact hs.1
    have hcs : ListOk cs := by unfold StmtOk at hs; exact hs.2
    have h := reindent_line w d (stmtText ws) (textOk_head (words_textOk hws))
    simp only [flattenStmt, flattenStmtW, List.map_cons, flattenList_reindent w cs (d + 1) hcs]
    rw [Nat.mul_comm 4 d, h, Nat.mul_comm d w]
theorem flattenList_reindent (w : Nat) : ∀ (ss : List Stmt) (d : Nat), ListOk ss →
    (flattenList d ss).map (reindent w) = flattenListW w d ss
  | [], _, _ => by simp [flattenList, flattenListW]
  | s :: ss, d, hs => by
    have hs1 : StmtOk s := by unfold ListOk at hs; exact hs.1
    have hs2 : ListOk ss := by unfold ListOk at hs; exact hs.2
    simp [flattenList, flattenListW, flattenStmt_reindent w s d hs1, flattenList_reindent w ss d hs2]
end

mutual
theorem flattenStmtW_four : ∀ (s : Stmt) (d : Nat), flattenStmtW 4 d s = flattenStmt d s
  | .node ws cs, d => by simp [flattenStmtW, flattenStmt, flattenListW_four cs (d + 1)]
theorem flattenListW_four : ∀ (ss : List Stmt) (d : Nat), flattenListW 4 d ss = flattenList d ss
  | [], _ => by simp [flattenListW, flattenList]
  | s :: ss, d => by simp [flattenListW, flattenList, flattenStmtW_four s d, flattenListW_four ss d]
end

theorem flattenW_four (T : List Stmt) : flattenW 4 T = flatten T := flattenListW_four T 0

/-- **the conversion of a rendered well-formed tree, any indentation width** -/
theorem braceText_render_width (w : Nat) (L : Layout) (hL : LayoutOk L) (T : List Stmt) (hT : ListOk T) :
    braceText w (render L T) = .ok (flattenW w T) := by
  have h4 := braceText_render L hL T hT
  rw [braceText_eq_items] at h4 ⊢
  cases hi : braceItems (render L T) with
  | error e => rw [hi] at h4; cases h4
  | ok items =>
    rw [hi] at h4
    simp only [Except.ok.injEq] at h4
    simp only [unpackList_reindent w items 0, h4]
    exact congrArg _ (flattenList_reindent w T 0 hT)

/-! ### converted well-formed statements are not blank -/

theorem flattenW_nonblank_line {t : Str} (ht : TextOk t) (n : Nat) :
    (strip (List.replicate n ' ' ++ t)).isEmpty = false := by
  obtain ⟨c, t', rfl, hc, -, -⟩ := ht.head
  have h1 : lstrip (List.replicate n ' ' ++ c :: t') = c :: t' :=
    lstrip_replicate n (c :: t') (textOk_head ht)
  unfold strip
  rw [h1]
  obtain ⟨ini, l, hl, hlp, -⟩ := ht.last
  rw [hl]
  have := rstrip_blanks ini l 0 hlp
  simp only [List.replicate_zero, List.append_nil] at this
  rw [this]
  simp

mutual
theorem flattenStmt_nonblank : ∀ (s : Stmt) (d : Nat), StmtOk s →
    ∀ l ∈ flattenStmt d s, (strip l).isEmpty = false
  | .node ws cs, d, hs => by
    have hws : WordsOk ws := by unfold StmtOk at hs; exact hs.1
    have hcs : ListOk cs := by unfold StmtOk at hs; exact hs.2
    intro l hl
    simp only [flattenStmt, List.mem_cons] at hl
    rcases hl with rfl | hl
    · exact flattenW_nonblank_line (words_textOk hws) _
    · exact flattenList_nonblank cs (d + 1) hcs l hl
theorem flattenList_nonblank : ∀ (ss : List Stmt) (d : Nat), ListOk ss →
    ∀ l ∈ flattenList d ss, (strip l).isEmpty = false
  | [], _, _ => by simp [flattenList]
  | s :: ss, d, hs => by
    have hs1 : StmtOk s := by unfold ListOk at hs; exact hs.1
    have hs2 : ListOk ss := by unfold ListOk at hs; exact hs.2
    intro l hl
    simp only [flattenList, List.mem_append] at hl
    rcases hl with hl | hl
    · exact flattenStmt_nonblank s d hs1 l hl
    · exact flattenList_nonblank ss d hs2 l hl
end

end Ccp.Brace
