import Ccp.Model.Pwd
/-! Helper lemmas for C17. Core Lean only. -/
namespace Ccp.Pwd
open Ccp.Py

end Ccp.Pwd
