import Ccp.Model.Pwd
/-! Helper lemmas for C17. Core Lean only. -/
namespace Ccp.Pwd
open Ccp.Py

/-- decidable equality of answers, so that the concrete examples can be closed by `decide` -/
instance decEqExcept {ε α : Type} [DecidableEq ε] [DecidableEq α] : DecidableEq (Except ε α)
  | .ok a, .ok b => if h : a = b then isTrue (h ▸ rfl) else isFalse (fun e => h (Except.ok.inj e))
  | .error a, .error b => if h : a = b then isTrue (h ▸ rfl) else isFalse (fun e => h (Except.error.inj e))
  | .ok _, .error _ => isFalse (fun e => nomatch e)
  | .error _, .ok _ => isFalse (fun e => nomatch e)

theorem hex_all : (List.range 256).all (fun x => pyIntB 16 (hex2 x) == some (Int.ofNat x)) = true := by decide +kernel
theorem dec_all : (List.range 100).all (fun x => pyInt (dec2 x) == some (Int.ofNat x)) = true := by decide +kernel
theorem key_all : (List.range 53).all (fun i => Gen.xlatImpl[i]? == some (keyRef i) && decide (keyRef i < 128)) = true := by decide +kernel

theorem pyIntB_hex2 (x : Nat) (h : x < 256) : pyIntB 16 (hex2 x) = some (Int.ofNat x) := by
  have := List.all_eq_true.mp hex_all x (List.mem_range.mpr h)
  simpa using this

theorem pyInt_dec2 (n : Nat) (h : n < 100) : pyInt (dec2 n) = some (Int.ofNat n) := by
  have := List.all_eq_true.mp dec_all n (List.mem_range.mpr h)
  simpa using this

theorem keyRef_mod (s : Nat) : keyRef s = keyRef (s % 53) := by
  have : xlatRef.length = 53 := by decide
  simp [keyRef, this]

theorem xlat_at (s : Nat) : Gen.xlatImpl[s % 53]? = some (keyRef s) ∧ keyRef s < 128 := by
  have := List.all_eq_true.mp key_all (s % 53) (List.mem_range.mpr (Nat.mod_lt _ (by decide)))
  rw [keyRef_mod s]
  simpa using this

theorem xor_cancel (a b : Nat) : (a ^^^ b) ^^^ b = a := by
  rw [Nat.xor_assoc, Nat.xor_self, Nat.xor_zero]


theorem hexDigit_all : (List.range 16).all (fun n => notNl (hexDigitU n)) = true := by decide +kernel

theorem notNl_hexDigitU (n : Nat) (h : n < 16) : notNl (hexDigitU n) = true := by
  simpa using List.all_eq_true.mp hexDigit_all n (List.mem_range.mpr h)

theorem notNl_xorBody (p : Bytes) : ∀ s, ∀ c ∈ xorBody s p, notNl c = true := by
  induction p with
  | nil => intro s c h; simp [xorBody] at h
  | cons b bs ih =>
    intro s c h
    simp only [xorBody, hex2, List.cons_append, List.nil_append, List.mem_cons] at h
    rcases h with h | h | h
    · subst h; exact notNl_hexDigitU _ (Nat.mod_lt _ (by decide))
    · subst h; exact notNl_hexDigitU _ (Nat.mod_lt _ (by decide))
    · exact ih _ c h

theorem length_xorBody (p : Bytes) : ∀ s, (xorBody s p).length = 2 * p.length := by
  induction p with
  | nil => intro s; rfl
  | cons b bs ih => intro s; simp [xorBody, hex2, ih]; omega

theorem takeWhile_all {α} (f : α → Bool) (l : List α) (h : ∀ c ∈ l, f c = true) : l.takeWhile f = l := by
  induction l with
  | nil => rfl
  | cons a as ih =>
    simp only [List.takeWhile, h a (by simp)]
    rw [ih (fun c hc => h c (by simp [hc]))]

theorem decPairs_xorBody (p : Bytes) : ∀ (s : Nat), (∀ b ∈ p, b < 256) →
    decPairs (Int.ofNat s) (xorBody s p) = .ok (p.map Char.ofNat) := by
  induction p with
  | nil => intro s _; simp [xorBody, decPairs]
  | cons b bs ih =>
    intro s hb
    have hb0 : b < 256 := hb b (by simp)
    obtain ⟨hk, hk128⟩ := xlat_at s
    have hx : b ^^^ keyRef s < 256 := Nat.xor_lt_two_pow (n := 8) hb0 (by omega)
    have hi := pyIntB_hex2 _ hx
    have hmod : (Int.ofNat s % (Gen.xlatModulus : Int)).toNat = s % 53 := by
      show ((s : Int) % ((53 : Nat) : Int)).toNat = s % 53
      omega
    have ih' := ih (s + 1) (fun c hc => hb c (by simp [hc]))
    have hs : Int.ofNat s + 1 = Int.ofNat (s + 1) := rfl
    simp only [hex2] at hi
    simp only [xorBody, hex2, List.cons_append, List.nil_append, decPairs, hi, hmod, hk, hs, ih',
      List.map_cons]
    simp [xor_cancel]


theorem dec2_shape_all : (List.range 100).all (fun n =>
    match dec2 n with | [a, b] => notNl a && notNl b | _ => false) = true := by decide +kernel

theorem dec2_shape (n : Nat) (h : n < 100) : ∃ a b, dec2 n = [a, b] ∧ notNl a = true ∧ notNl b = true := by
  have := List.all_eq_true.mp dec2_shape_all n (List.mem_range.mpr h)
  generalize dec2 n = d at this
  match d, this with
  | [a, b], h => exact ⟨a, b, rfl, by simpa using h⟩

/-- the library's decoder inverts the reference encoder on every non-empty byte string -/
theorem decrypt7_encrypt7_bytes (salt : Nat) (p : Bytes) (hs : salt < 100) (hne : p ≠ [])
    (hb : ∀ b ∈ p, b < 256) : decrypt7 (encrypt7 salt p) = .ok (p.map Char.ofNat) := by
  obtain ⟨a, b, hd, ha, hbn⟩ := dec2_shape salt hs
  have hint := pyInt_dec2 salt hs
  rw [hd] at hint
  have hlen : (encrypt7 salt p).length % 2 = 0 := by
    simp [encrypt7, hd, length_xorBody]; omega
  have htw := takeWhile_all notNl _ (notNl_xorBody p salt)
  have hbody : (xorBody salt p).isEmpty = false := by
    cases p with
    | nil => exact absurd rfl hne
    | cons x xs => simp [xorBody, hex2]
  unfold decrypt7
  rw [if_neg (by omega)]
  simp only [encrypt7, hd, List.cons_append, List.nil_append, splitHead, ha, hbn, Bool.and_self,
    if_true, htw, hbody, Bool.false_eq_true, if_false, hint]
  exact decPairs_xorBody p salt hb

theorem encodeUtf8_ascii (s : Str) (h : ∀ c ∈ s, c.toNat < 128) : encodeUtf8 s = s.map Char.toNat := by
  induction s with
  | nil => rfl
  | cons c cs ih =>
    have hc := h c (by simp)
    simp only [encodeUtf8, List.flatMap_cons, List.map_cons] at *
    rw [ih (fun d hd => h d (by simp [hd]))]
    simp [utf8, hc]

theorem map_ofNat_toNat (s : Str) : (s.map Char.toNat).map Char.ofNat = s := by
  induction s with
  | nil => rfl
  | cons c cs ih => simp only [List.map_cons, Char.ofNat_toNat, ih]


/-! ### base64 -/

theorem b64Char_all : (List.range 64).all (fun i => b64Rfc.contains (b64Char i).toNat) = true := by decide +kernel

theorem b64Char_mem (i : Nat) : (b64Char i).toNat ∈ b64Rfc := by
  have h : b64Char i = b64Char (i % 64) := by simp [b64Char]
  rw [h]
  have := List.all_eq_true.mp b64Char_all (i % 64) (List.mem_range.mpr (Nat.mod_lt _ (by decide)))
  simpa using this

/-- with two bytes left over the encoding ends in exactly one `=` -/
theorem b64Encode_shape (raw : Bytes) (h : raw.length % 3 = 2) :
    ∃ body, b64Encode raw = body ++ ['='] ∧ body.length = 4 * (raw.length / 3) + 3 ∧
      ∀ c ∈ body, c.toNat ∈ b64Rfc := by
  fun_induction b64Encode raw with
  | case1 => simp at h
  | case2 a => simp at h
  | case3 a b =>
    refine ⟨[b64Char (a / 4), b64Char (a % 4 * 16 + b / 16), b64Char (b % 16 * 4)], rfl, by simp, ?_⟩
    intro c hc
    simp only [List.mem_cons, List.not_mem_nil, or_false] at hc
    rcases hc with hc | hc | hc <;> subst hc <;> exact b64Char_mem _
  | case4 a b c rest ih =>
    have h' : rest.length % 3 = 2 := by simp only [List.length_cons] at h; omega
    obtain ⟨body, hb, hl, hm⟩ := ih h'
    refine ⟨b64Char (a / 4) :: b64Char (a % 4 * 16 + b / 16) :: b64Char (b % 16 * 4 + c / 64)
      :: b64Char (c % 64) :: body, by simp [hb], by simp only [List.length_cons, hl]; omega, ?_⟩
    intro x hx
    simp only [List.mem_cons] at hx
    rcases hx with hx | hx | hx | hx | hx
    · subst hx; exact b64Char_mem _
    · subst hx; exact b64Char_mem _
    · subst hx; exact b64Char_mem _
    · subst hx; exact b64Char_mem _
    · exact hm x hx

theorem translate_all : b64Rfc.all (fun n => isCiscoChar (translate (Char.ofNat n))) = true := by decide +kernel

theorem translate_cisco (c : Char) (h : c.toNat ∈ b64Rfc) : isCiscoChar (translate c) = true := by
  have := List.all_eq_true.mp translate_all c.toNat h
  simpa [Char.ofNat_toNat] using this

theorem ciscoHash_shape (raw : Bytes) (h : raw.length % 3 = 2) :
    (ciscoHash raw).length = 4 * (raw.length / 3) + 3 ∧ ∀ c ∈ ciscoHash raw, isCiscoChar c = true := by
  obtain ⟨body, hb, hl, hm⟩ := b64Encode_shape raw h
  have : ciscoHash raw = body.map translate := by
    simp [ciscoHash, hb]
  rw [this]
  refine ⟨by simp [hl], ?_⟩
  intro c hc
  obtain ⟨x, hx, rfl⟩ := List.mem_map.mp hc
  exact translate_cisco x (hm x hx)

/-! ### splitting on `$` -/

theorem splitOn_no_sep (sep : Char) (w : Str) (h : sep ∉ w) : splitOn sep w = [w] := by
  induction w with
  | nil => rfl
  | cons c cs ih =>
    have hc : c ≠ sep := fun e => h (by simp [e])
    have := ih (fun m => h (by simp [m]))
    simp [splitOn, this, hc]

theorem splitOn_append (sep : Char) (w rest : Str) (h : sep ∉ w) :
    splitOn sep (w ++ sep :: rest) = w :: splitOn sep rest := by
  induction w with
  | nil =>
    simp only [List.nil_append, splitOn]
    split
    · rename_i he; simp [he]
    · rename_i he; simp [he]
  | cons c cs ih =>
    have hc : c ≠ sep := fun e => h (by simp [e])
    have := ih (fun m => h (by simp [m]))
    simp [splitOn, this, hc]

theorem dollar_not_cisco (c : Char) (h : isCiscoChar c = true) : c ≠ '$' := by
  intro e; subst e; revert h; decide

theorem fmt_split (k salt h : Str) (hk : '$' ∉ k) (hs : '$' ∉ salt) (hh : '$' ∉ h) :
    splitOn '$' (fmt k salt h) = [[], k, salt, h] := by
  have e : fmt k salt h = [] ++ '$' :: (k ++ '$' :: (salt ++ '$' :: h)) := by simp [fmt]
  rw [e, splitOn_append _ _ _ (by simp), splitOn_append _ _ _ hk, splitOn_append _ _ _ hs,
    splitOn_no_sep _ _ hh]

theorem no_dollar (s : Str) (h : ∀ c ∈ s, isCiscoChar c = true) : '$' ∉ s :=
  fun hm => dollar_not_cisco _ (h _ hm) rfl

end Ccp.Pwd
