import Ccp.Proofs.IPVal
/-!
Helper lemmas for `collapse_addresses` (C12): the model of `ipaddress._collapse_addresses_internal`
keeps the covered address set, and its output is ascending, disjoint and free of mergeable siblings.
-/
namespace Ccp.IPVal

/-- host bits of a network -/
def nhb (f : Fam) (n : Net) : Nat := f.w - n.2

/-- a well-formed network: prefix length at most `w`, address below `2^w`, host bits clear -/
structure AlignedNet (f : Fam) (n : Net) : Prop where
  len_le : n.2 ≤ f.w
  lt : n.1 < 2 ^ f.w
  clear : n.1 = n.1 / 2 ^ nhb f n * 2 ^ nhb f n

/-- `a` is an address of the network `n`: `network_address ≤ a ≤ broadcast_address` -/
def NetMem (f : Fam) (n : Net) (a : Nat) : Prop := n.1 ≤ a ∧ a ≤ netBcast f n

theorem netMem_iff_div (f : Fam) (n : Net) (al : AlignedNet f n) (a : Nat) :
    NetMem f n a ↔ a / 2 ^ nhb f n = n.1 / 2 ^ nhb f n := by
  unfold NetMem netBcast
  show n.1 ≤ a ∧ a ≤ n.1 + (2 ^ nhb f n - 1) ↔ _
  have hP : 0 < 2 ^ nhb f n := Nat.two_pow_pos _
  have hc := al.clear
  constructor
  · rintro ⟨h1, h2⟩
    apply Nat.div_eq_of_lt_le
    · rw [← hc]; exact h1
    · rw [Nat.add_mul, Nat.one_mul, ← hc]; omega
  · intro h
    have h1 := net_le a (nhb f n)
    have h2 := lt_net_add a (nhb f n)
    rw [h, ← hc] at h1 h2
    constructor <;> omega

theorem netMem_self (f : Fam) (n : Net) : NetMem f n n.1 ∧ NetMem f n (netBcast f n) := by
  unfold NetMem netBcast; omega

theorem aligned_network (f : Fam) (x : Obj) (v : Valid f x) : AlignedNet f (network x) := by
  have h := v.net_div
  have hb1 := v.block_le
  have hP : 0 < 2 ^ hb f x := Nat.two_pow_pos _
  refine ⟨v.len_le, by show x.net < 2 ^ f.w; omega, ?_⟩
  show x.net = x.net / 2 ^ hb f x * 2 ^ hb f x
  rw [h, Nat.mul_div_cancel _ hP]

theorem netMem_network (f : Fam) (x : Obj) (a : Nat) : NetMem f (network x) a ↔ InNet f x a := Iff.rfl

/-! ### supernet -/

theorem supernet_pos (f : Fam) (n : Net) (al : AlignedNet f n) (h : n.2 ≠ 0) :
    supernet f n = (n.1 / 2 ^ (nhb f n + 1) * 2 ^ (nhb f n + 1), n.2 - 1) := by
  unfold supernet
  rw [if_neg h, netOf_eq f _ _ al.lt (by have := al.len_le; omega)]
  have : f.w - (n.2 - 1) = nhb f n + 1 := by unfold nhb; have := al.len_le; omega
  rw [this]

theorem nhb_supernet (f : Fam) (n : Net) (al : AlignedNet f n) (h : n.2 ≠ 0) :
    nhb f (supernet f n) = nhb f n + 1 := by
  rw [supernet_pos f n al h]; unfold nhb; have := al.len_le; simp only; omega

theorem aligned_supernet (f : Fam) (n : Net) (al : AlignedNet f n) : AlignedNet f (supernet f n) := by
  by_cases h : n.2 = 0
  · unfold supernet; rw [if_pos h]; exact al
  · have hn := nhb_supernet f n al h
    have e := supernet_pos f n al h
    refine ⟨?_, ?_, ?_⟩
    · rw [e]; have := al.len_le; simp only; omega
    · rw [e]; exact Nat.lt_of_le_of_lt (Nat.div_mul_le_self _ _) al.lt
    · rw [hn]; rw [e]; simp only
      rw [Nat.mul_div_cancel _ (Nat.two_pow_pos _)]

/-- every address of a network is an address of its supernet -/
theorem netMem_supernet (f : Fam) (n : Net) (al : AlignedNet f n) (a : Nat) (h : NetMem f n a) :
    NetMem f (supernet f n) a := by
  by_cases h0 : n.2 = 0
  · unfold supernet; rw [if_pos h0]; exact h
  · rw [netMem_iff_div f _ (aligned_supernet f n al), nhb_supernet f n al h0]
    rw [netMem_iff_div f n al] at h
    rw [supernet_pos f n al h0]; simp only
    rw [Nat.mul_div_cancel _ (Nat.two_pow_pos _), Nat.pow_succ, ← Nat.div_div_eq_div_mul,
      ← Nat.div_div_eq_div_mul, h]

/-- two different networks with the same supernet cover it -/
theorem netMem_of_siblings (f : Fam) (n m : Net) (aln : AlignedNet f n) (alm : AlignedNet f m)
    (hne : n ≠ m) (hs : supernet f n = supernet f m) (a : Nat) (h : NetMem f (supernet f n) a) :
    NetMem f n a ∨ NetMem f m a := by
  by_cases hn0 : n.2 = 0
  · left; unfold supernet at h; rw [if_pos hn0] at h; exact h
  by_cases hm0 : m.2 = 0
  · right; rw [hs] at h; unfold supernet at h; rw [if_pos hm0] at h; exact h
  have en := supernet_pos f n aln hn0
  have em := supernet_pos f m alm hm0
  have hlen : n.2 = m.2 := by
    have : (supernet f n).2 = (supernet f m).2 := by rw [hs]
    rw [en, em] at this; simp only at this; omega
  have hh : nhb f n = nhb f m := by unfold nhb; rw [hlen]
  have hnet : n.1 / 2 ^ (nhb f n + 1) = m.1 / 2 ^ (nhb f n + 1) := by
    have : (supernet f n).1 = (supernet f m).1 := by rw [hs]
    rw [en, em, ← hh] at this; simp only at this
    exact Nat.eq_of_mul_eq_mul_right (Nat.two_pow_pos _) this
  rw [netMem_iff_div f _ (aligned_supernet f n aln), nhb_supernet f n aln hn0, en] at h
  simp only at h
  rw [Nat.mul_div_cancel _ (Nat.two_pow_pos _)] at h
  rw [netMem_iff_div f n aln, netMem_iff_div f m alm, ← hh]
  rw [Nat.pow_succ, ← Nat.div_div_eq_div_mul, ← Nat.div_div_eq_div_mul] at h
  rw [Nat.pow_succ, ← Nat.div_div_eq_div_mul, ← Nat.div_div_eq_div_mul] at hnet
  have hk : n.1 / 2 ^ nhb f n ≠ m.1 / 2 ^ nhb f n := by
    intro hk
    apply hne
    have c1 := aln.clear
    have c2 := alm.clear
    rw [← hh] at c2
    rw [hk, ← c2] at c1
    exact Prod.ext c1 hlen
  omega

/-! ### nesting -/

/-- dividing further keeps agreement -/
theorem div_pow_mono (a b h k : Nat) (hk : h ≤ k) (e : a / 2 ^ h = b / 2 ^ h) : a / 2 ^ k = b / 2 ^ k := by
  have : k = h + (k - h) := by omega
  rw [this, Nat.pow_add, ← Nat.div_div_eq_div_mul, ← Nat.div_div_eq_div_mul, e]

/-- two aligned networks are nested or have no address in common -/
theorem laminar (f : Fam) (p q : Net) (alp : AlignedNet f p) (alq : AlignedNet f q) (hl : p.2 ≤ q.2) :
    (∀ c, NetMem f q c → NetMem f p c) ∨ (∀ c, ¬ (NetMem f p c ∧ NetMem f q c)) := by
  have hh : nhb f q ≤ nhb f p := by unfold nhb; omega
  by_cases e : q.1 / 2 ^ nhb f p = p.1 / 2 ^ nhb f p
  · left
    intro c hc
    rw [netMem_iff_div f q alq] at hc
    rw [netMem_iff_div f p alp, ← e]
    exact div_pow_mono _ _ _ _ hh hc
  · right
    rintro c ⟨h1, h2⟩
    rw [netMem_iff_div f q alq] at h2
    rw [netMem_iff_div f p alp] at h1
    exact e ((div_pow_mono _ _ _ _ hh h2).symm.trans h1)

/-- in ascending order, a network that ends later than its predecessor starts after it -/
theorem starts_after (f : Fam) (a b : Net) (ala : AlignedNet f a) (alb : AlignedNet f b)
    (hle : netLe a b = true) (hb : netBcast f a < netBcast f b) : netBcast f a < b.1 := by
  unfold netLe at hle
  simp only [Bool.or_eq_true, decide_eq_true_eq, Bool.and_eq_true, beq_iff_eq] at hle
  have ma := netMem_self f a
  have mb := netMem_self f b
  rcases hle with hlt | ⟨heq, hlen⟩
  · -- a starts strictly before b
    by_cases hl : a.2 ≤ b.2
    · rcases laminar f a b ala alb hl with h | h
      · have := (h _ mb.2).2; omega
      · have := h b.1
        unfold NetMem at this mb; omega
    · rcases laminar f b a alb ala (by omega) with h | h
      · have := (h _ ma.1).1; omega
      · have := h b.1
        unfold NetMem at this mb; omega
  · -- same start, a not longer: a ends at or after b
    exfalso
    unfold netBcast at hb
    have : 2 ^ (f.w - b.2) ≤ 2 ^ (f.w - a.2) := Nat.pow_le_pow_right (by decide) (by omega)
    omega


/-! ### the final pass -/

theorem dropCovered_some (f : Fam) (l : List Net) :
    ∀ (last : Net), AlignedNet f last → (∀ n ∈ l, AlignedNet f n) →
      (∀ n ∈ l, netLe last n = true) → l.Pairwise (fun a b => netLe a b = true) →
      (dropCovered f (some last) l).Sublist l ∧
      (last :: dropCovered f (some last) l).Pairwise (fun a b => netBcast f a < b.1) ∧
      (∀ c, (NetMem f last c ∨ ∃ n ∈ dropCovered f (some last) l, NetMem f n c) ↔
            (NetMem f last c ∨ ∃ n ∈ l, NetMem f n c)) := by
  induction l with
  | nil => intro last _ _ _ _; simp [dropCovered]
  | cons n ns ih =>
    intro last all aln hle hs
    rw [List.pairwise_cons] at hs
    have aln' : ∀ m ∈ ns, AlignedNet f m := fun m hm => aln m (List.mem_cons_of_mem _ hm)
    have hn := aln n (List.mem_cons_self ..)
    have hln := hle n (List.mem_cons_self ..)
    by_cases hc : netBcast f last ≥ netBcast f n
    · -- covered by `last`: dropped
      have e : dropCovered f (some last) (n :: ns) = dropCovered f (some last) ns := by
        simp only [dropCovered, hc, if_true]
      rw [e]
      obtain ⟨i1, i2, i3⟩ := ih last all aln' (fun m hm => hle m (List.mem_cons_of_mem _ hm)) hs.2
      refine ⟨i1.cons _, i2, ?_⟩
      intro c
      rw [i3 c]
      have hstart : last.1 ≤ n.1 := by
        unfold netLe at hln
        simp only [Bool.or_eq_true, decide_eq_true_eq, Bool.and_eq_true, beq_iff_eq] at hln
        omega
      constructor
      · rintro (h | ⟨m, hm, h⟩)
        · exact Or.inl h
        · exact Or.inr ⟨m, List.mem_cons_of_mem _ hm, h⟩
      · rintro (h | ⟨m, hm, h⟩)
        · exact Or.inl h
        · rcases List.mem_cons.mp hm with rfl | hm'
          · left; unfold NetMem at h ⊢; omega
          · exact Or.inr ⟨m, hm', h⟩
    · -- kept
      have e : dropCovered f (some last) (n :: ns) = n :: dropCovered f (some n) ns := by
        simp only [dropCovered, hc, if_false]
      rw [e]
      obtain ⟨i1, i2, i3⟩ := ih n hn aln' hs.1 hs.2
      have hgap := starts_after f last n all hn hln (by omega)
      rw [List.pairwise_cons] at i2
      refine ⟨i1.cons_cons _, ?_, ?_⟩
      · rw [List.pairwise_cons]
        refine ⟨?_, List.pairwise_cons.mpr i2⟩
        intro m hm
        rcases List.mem_cons.mp hm with rfl | hm'
        · exact hgap
        · have := i2.1 m hm'
          have := (netMem_self f n).1
          unfold NetMem at this; omega
      · intro c
        have := i3 c
        constructor
        · rintro (h | ⟨m, hm, h⟩)
          · exact Or.inl h
          · rcases List.mem_cons.mp hm with rfl | hm'
            · exact Or.inr ⟨m, List.mem_cons_self .., h⟩
            · rcases this.mp (Or.inr ⟨m, hm', h⟩) with h' | ⟨k, hk, h'⟩
              · exact Or.inr ⟨n, List.mem_cons_self .., h'⟩
              · exact Or.inr ⟨k, List.mem_cons_of_mem _ hk, h'⟩
        · rintro (h | ⟨m, hm, h⟩)
          · exact Or.inl h
          · rcases List.mem_cons.mp hm with rfl | hm'
            · exact Or.inr ⟨m, List.mem_cons_self .., h⟩
            · rcases this.mpr (Or.inr ⟨m, hm', h⟩) with h' | ⟨k, hk, h'⟩
              · exact Or.inr ⟨n, List.mem_cons_self .., h'⟩
              · exact Or.inr ⟨k, List.mem_cons_of_mem _ hk, h'⟩

/-- the final pass on an ascending list of aligned networks: a sublist, strictly ascending and
disjoint, covering the same addresses -/
theorem dropCovered_none (f : Fam) (l : List Net) (al : ∀ n ∈ l, AlignedNet f n)
    (hs : l.Pairwise (fun a b => netLe a b = true)) :
    (dropCovered f none l).Sublist l ∧
    (dropCovered f none l).Pairwise (fun a b => netBcast f a < b.1) ∧
    (∀ c, (∃ n ∈ dropCovered f none l, NetMem f n c) ↔ (∃ n ∈ l, NetMem f n c)) := by
  cases l with
  | nil => simp [dropCovered]
  | cons n ns =>
    rw [List.pairwise_cons] at hs
    have e : dropCovered f none (n :: ns) = n :: dropCovered f (some n) ns := by simp only [dropCovered]
    rw [e]
    obtain ⟨i1, i2, i3⟩ := dropCovered_some f ns n (al n (List.mem_cons_self ..))
      (fun m hm => al m (List.mem_cons_of_mem _ hm)) hs.1 hs.2
    refine ⟨i1.cons_cons _, i2, ?_⟩
    intro c
    simp only [List.mem_cons, exists_eq_or_imp]
    exact i3 c


/-! ### the merge loop -/

theorem lookup_none {s : List (Net × Net)} {k : Net} (h : s.lookup k = none) : ∀ e ∈ s, e.1 ≠ k := by
  intro e he heq
  have := (List.lookup_eq_none_iff.mp h) e he
  rw [heq] at this; simp at this

theorem lookup_some {s : List (Net × Net)} {k v : Net} (h : s.lookup k = some v) : (k, v) ∈ s := by
  obtain ⟨l1, l2, e, _⟩ := List.lookup_eq_some_iff.mp h
  rw [e]; simp

/-- what the loop maintains: everything aligned, every dict entry keyed by the supernet of its
value, keys distinct -/
structure LoopInv (f : Fam) (t : List Net) (s : List (Net × Net)) : Prop where
  alT : ∀ n ∈ t, AlignedNet f n
  alS : ∀ e ∈ s, AlignedNet f e.2 ∧ e.1 = supernet f e.2
  keys : s.Pairwise (fun e e' => e.1 ≠ e'.1)

theorem mergeLoop_spec (f : Fam) : ∀ (fuel : Nat) (t : List Net) (s : List (Net × Net)),
    LoopInv f t s → 2 * t.length + s.length ≤ fuel →
    LoopInv f [] (mergeLoop f fuel t s) ∧
    ∀ c, (∃ e ∈ mergeLoop f fuel t s, NetMem f e.2 c) ↔
      ((∃ n ∈ t, NetMem f n c) ∨ ∃ e ∈ s, NetMem f e.2 c) := by
  intro fuel
  induction fuel with
  | zero =>
    intro t s inv hf
    have ht : t = [] := List.eq_nil_of_length_eq_zero (by omega)
    subst ht
    refine ⟨?_, ?_⟩
    · simpa [mergeLoop] using inv
    · intro c; simp [mergeLoop]
  | succ fuel ih =>
    intro t s inv hf
    cases t with
    | nil =>
      refine ⟨by simpa [mergeLoop] using inv, ?_⟩
      intro c; simp [mergeLoop]
    | cons net rest =>
      have hnet := inv.alT net (List.mem_cons_self ..)
      have hrest : ∀ n ∈ rest, AlignedNet f n := fun n hn => inv.alT n (List.mem_cons_of_mem _ hn)
      simp only [List.length_cons] at hf
      cases hl : s.lookup (supernet f net) with
      | none =>
        have e : mergeLoop f (fuel + 1) (net :: rest) s
            = mergeLoop f fuel rest ((supernet f net, net) :: s) := by
          simp only [mergeLoop, hl]
        rw [e]
        have inv' : LoopInv f rest ((supernet f net, net) :: s) := by
          refine ⟨hrest, ?_, ?_⟩
          · intro x hx
            rcases List.mem_cons.mp hx with rfl | hx'
            · exact ⟨hnet, rfl⟩
            · exact inv.alS x hx'
          · rw [List.pairwise_cons]
            exact ⟨fun x hx => (lookup_none hl x hx).symm, inv.keys⟩
        obtain ⟨i1, i2⟩ := ih rest _ inv' (by simp only [List.length_cons]; omega)
        refine ⟨i1, ?_⟩
        intro c
        rw [i2 c]
        simp only [List.mem_cons, exists_eq_or_imp]
        constructor
        · rintro (h | h | h)
          · exact Or.inl (Or.inr h)
          · exact Or.inl (Or.inl h)
          · exact Or.inr h
        · rintro ((h | h) | h)
          · exact Or.inr (Or.inl h)
          · exact Or.inl h
          · exact Or.inr (Or.inr h)
      | some existing =>
        have hmem := lookup_some hl
        have hex := inv.alS _ hmem
        simp only at hex
        by_cases hne : existing ≠ net
        · have e : mergeLoop f (fuel + 1) (net :: rest) s
              = mergeLoop f fuel (supernet f net :: rest)
                  (s.filter (fun x => x.1 ≠ supernet f net)) := by
            simp only [mergeLoop, hl, hne, if_true, ne_eq, not_false_eq_true]
          rw [e]
          have inv' : LoopInv f (supernet f net :: rest) (s.filter (fun x => x.1 ≠ supernet f net)) := by
            refine ⟨?_, ?_, inv.keys.filter _⟩
            · intro n hn
              rcases List.mem_cons.mp hn with rfl | hn'
              · exact aligned_supernet f net hnet
              · exact hrest n hn'
            · intro x hx; exact inv.alS x (List.mem_filter.mp hx).1
          have hlen : (s.filter (fun x => x.1 ≠ supernet f net)).length < s.length :=
            List.length_filter_lt_length_iff_exists.mpr ⟨_, hmem, by simp⟩
          obtain ⟨i1, i2⟩ := ih _ _ inv' (by simp only [List.length_cons]; omega)
          refine ⟨i1, ?_⟩
          intro c
          rw [i2 c]
          simp only [List.mem_cons, exists_eq_or_imp]
          constructor
          · rintro ((h | h) | ⟨x, hx, h⟩)
            · rcases netMem_of_siblings f net existing hnet hex.1 (Ne.symm hne) hex.2 c h with h' | h'
              · exact Or.inl (Or.inl h')
              · exact Or.inr ⟨_, hmem, h'⟩
            · exact Or.inl (Or.inr h)
            · exact Or.inr ⟨x, (List.mem_filter.mp hx).1, h⟩
          · rintro ((h | h) | ⟨x, hx, h⟩)
            · exact Or.inl (Or.inl (netMem_supernet f net hnet c h))
            · exact Or.inl (Or.inr h)
            · by_cases hk : x.1 = supernet f net
              · left; left
                have := inv.alS x hx
                rw [← hk, this.2]
                exact netMem_supernet f x.2 this.1 c h
              · exact Or.inr ⟨x, List.mem_filter.mpr ⟨hx, by simpa using hk⟩, h⟩
        · have hne' : existing = net := by simpa using hne
          have e : mergeLoop f (fuel + 1) (net :: rest) s = mergeLoop f fuel rest s := by
            simp only [mergeLoop, hl, hne', ne_eq, not_true_eq_false, if_false]
          rw [e]
          obtain ⟨i1, i2⟩ := ih rest s ⟨hrest, inv.alS, inv.keys⟩ (by omega)
          refine ⟨i1, ?_⟩
          intro c
          rw [i2 c]
          simp only [List.mem_cons, exists_eq_or_imp]
          constructor
          · rintro (h | h)
            · exact Or.inl (Or.inr h)
            · exact Or.inr h
          · rintro ((h | h) | h)
            · subst hne'; exact Or.inr ⟨_, hmem, h⟩
            · exact Or.inl h
            · exact Or.inr h


/-! ### the whole routine -/

theorem netLe_sorted (l : List Net) : (l.mergeSort netLe).Pairwise (fun a b => netLe a b = true) := by
  apply List.pairwise_mergeSort
  · intro a b c h1 h2
    unfold netLe at *
    simp only [Bool.or_eq_true, decide_eq_true_eq, Bool.and_eq_true, beq_iff_eq] at *
    omega
  · intro a b
    unfold netLe
    simp only [Bool.or_eq_true, decide_eq_true_eq, Bool.and_eq_true, beq_iff_eq]
    omega

theorem collapseNets_spec (f : Fam) (nets : List Net) (al : ∀ n ∈ nets, AlignedNet f n) :
    (∀ n ∈ collapseNets f nets, AlignedNet f n) ∧
    (∀ c, (∃ n ∈ collapseNets f nets, NetMem f n c) ↔ ∃ n ∈ nets, NetMem f n c) ∧
    (collapseNets f nets).Pairwise (fun a b => netBcast f a < b.1) ∧
    (collapseNets f nets).Pairwise (fun a b => supernet f a ≠ supernet f b) := by
  unfold collapseNets
  simp only
  have inv0 : LoopInv f nets.reverse [] :=
    ⟨fun n hn => al n (List.mem_reverse.mp hn), fun e he => absurd he List.not_mem_nil, List.Pairwise.nil⟩
  have hfuel : 2 * nets.reverse.length + ([] : List (Net × Net)).length
      ≤ (f.w + 2) * (nets.reverse.length + 1) := by
    have : 2 * (nets.reverse.length + 1) ≤ (f.w + 2) * (nets.reverse.length + 1) :=
      Nat.mul_le_mul_right _ (by omega)
    simp only [List.length_nil]; omega
  obtain ⟨inv, cov⟩ := mergeLoop_spec f _ _ _ inv0 hfuel
  generalize mergeLoop f ((f.w + 2) * (nets.reverse.length + 1)) nets.reverse [] = r at inv cov
  have perm := List.mergeSort_perm (r.map (·.2)) netLe
  have alv : ∀ n ∈ (r.map (·.2)).mergeSort netLe, AlignedNet f n := by
    intro n hn
    obtain ⟨e, he, rfl⟩ := List.mem_map.mp (perm.mem_iff.mp hn)
    exact (inv.alS e he).1
  obtain ⟨d1, d2, d3⟩ := dropCovered_none f _ alv (netLe_sorted _)
  refine ⟨fun n hn => alv n (d1.subset hn), ?_, d2, ?_⟩
  · intro c
    rw [d3 c]
    constructor
    · rintro ⟨n, hn, h⟩
      obtain ⟨e, he, rfl⟩ := List.mem_map.mp (perm.mem_iff.mp hn)
      rcases (cov c).mp ⟨e, he, h⟩ with ⟨m, hm, h'⟩ | ⟨x, hx, _⟩
      · exact ⟨m, List.mem_reverse.mp hm, h'⟩
      · exact absurd hx List.not_mem_nil
    · rintro ⟨n, hn, h⟩
      obtain ⟨e, he, h'⟩ := (cov c).mpr (Or.inl ⟨n, List.mem_reverse.mpr hn, h⟩)
      exact ⟨e.2, perm.mem_iff.mpr (List.mem_map.mpr ⟨e, he, rfl⟩), h'⟩
  · apply List.Pairwise.sublist d1
    have hsym : ∀ {x y : Net}, supernet f x ≠ supernet f y → supernet f y ≠ supernet f x :=
      fun h => Ne.symm h
    rw [List.Perm.pairwise_iff hsym perm, List.pairwise_map]
    refine inv.keys.imp_of_mem ?_
    intro a b ha hb h
    rw [← (inv.alS a ha).2, ← (inv.alS b hb).2]
    exact h


/-! ### canonicity -/

theorem pairwise_of_ne {α : Type} {R : α → α → Prop} (hsym : ∀ x y, R x y → R y x) :
    ∀ {l : List α}, l.Pairwise R → ∀ a ∈ l, ∀ b ∈ l, a ≠ b → R a b := by
  intro l
  induction l with
  | nil => intro _ a ha; cases ha
  | cons x xs ih =>
    intro hp a ha b hb hne
    rw [List.pairwise_cons] at hp
    rcases List.mem_cons.mp ha with rfl | ha' <;> rcases List.mem_cons.mp hb with rfl | hb'
    · exact absurd rfl hne
    · exact hp.1 b hb'
    · exact hsym _ _ (hp.1 a ha')
    · exact ih hp.2 a ha' b hb' hne

/-- the whole block of an aligned network is inside the address space -/
theorem AlignedNet.block_le {f : Fam} {n : Net} (al : AlignedNet f n) : n.1 + 2 ^ nhb f n ≤ 2 ^ f.w := by
  have hl := al.len_le
  have hw : 2 ^ f.w = 2 ^ n.2 * 2 ^ nhb f n := by
    unfold nhb; rw [← Nat.pow_add]; congr 1; omega
  have hP : 0 < 2 ^ nhb f n := Nat.two_pow_pos _
  have : n.1 / 2 ^ nhb f n < 2 ^ n.2 := by
    rw [Nat.div_lt_iff_lt_mul hP, ← hw]; exact al.lt
  have : (n.1 / 2 ^ nhb f n + 1) * 2 ^ nhb f n ≤ 2 ^ n.2 * 2 ^ nhb f n := Nat.mul_le_mul_right _ this
  rw [Nat.add_mul, Nat.one_mul, ← al.clear] at this
  omega

/-- the two halves of a network that is not a host route -/
theorem halves (f : Fam) (q : Net) (al : AlignedNet f q) (h : Nat) (hq : nhb f q = h + 1) :
    let q0 : Net := (q.1, q.2 + 1)
    let q1 : Net := (q.1 + 2 ^ h, q.2 + 1)
    AlignedNet f q0 ∧ AlignedNet f q1 ∧ nhb f q0 = h ∧ nhb f q1 = h ∧ q0 ≠ q1 ∧
    supernet f q0 = supernet f q1 ∧
    (∀ c, NetMem f q0 c → NetMem f q c) ∧ (∀ c, NetMem f q1 c → NetMem f q c) := by
  intro q0 q1
  have hl := al.len_le
  have hH : 0 < 2 ^ h := Nat.two_pow_pos _
  have h2 : 2 ^ (h + 1) = 2 * 2 ^ h := by rw [Nat.pow_succ, Nat.mul_comm]
  have hn0 : nhb f q0 = h := by unfold nhb at hq ⊢; show f.w - (q.2 + 1) = h; omega
  have hn1 : nhb f q1 = h := by unfold nhb at hq ⊢; show f.w - (q.2 + 1) = h; omega
  have hblk := al.block_le
  have hc := al.clear
  rw [hq] at hc hblk
  -- q.1 = k * 2^(h+1)
  generalize hk : q.1 / 2 ^ (h + 1) = k at hc
  have hc' : q.1 = (2 * k) * 2 ^ h := by rw [hc, h2, Nat.mul_assoc, Nat.mul_left_comm]
  have a0 : AlignedNet f q0 := by
    refine ⟨by show q.2 + 1 ≤ f.w; unfold nhb at hq; omega, al.lt, ?_⟩
    rw [hn0]; show q.1 = q.1 / 2 ^ h * 2 ^ h
    rw [hc', Nat.mul_div_cancel _ hH]
  have a1 : AlignedNet f q1 := by
    refine ⟨by show q.2 + 1 ≤ f.w; unfold nhb at hq; omega, by show q.1 + 2 ^ h < 2 ^ f.w; omega, ?_⟩
    rw [hn1]; show q.1 + 2 ^ h = (q.1 + 2 ^ h) / 2 ^ h * 2 ^ h
    have : q.1 + 2 ^ h = (2 * k + 1) * 2 ^ h := by rw [Nat.add_mul, Nat.one_mul, ← hc']
    rw [this, Nat.mul_div_cancel _ hH]
  have hs : supernet f q0 = supernet f q1 := by
    rw [supernet_pos f q0 a0 (by show q.2 + 1 ≠ 0; omega), supernet_pos f q1 a1 (by show q.2 + 1 ≠ 0; omega),
      hn0, hn1]
    show (q.1 / 2 ^ (h + 1) * 2 ^ (h + 1), _) = ((q.1 + 2 ^ h) / 2 ^ (h + 1) * 2 ^ (h + 1), _)
    have : (q.1 + 2 ^ h) / 2 ^ (h + 1) = q.1 / 2 ^ (h + 1) := by
      rw [hk]
      apply Nat.div_eq_of_lt_le
      · rw [← hc]; omega
      · rw [Nat.add_mul, Nat.one_mul, ← hc]; omega
    rw [this]
  refine ⟨a0, a1, hn0, hn1, ?_, hs, ?_, ?_⟩
  · intro e; have := congrArg Prod.fst e; simp only [q0, q1] at this; omega
  · intro c hc0
    unfold NetMem netBcast at *
    have e0 : f.w - q0.2 = h := hn0
    have eq : f.w - q.2 = h + 1 := hq
    rw [e0] at hc0; rw [eq, h2]
    simp only [q0] at hc0; omega
  · intro c hc1
    unfold NetMem netBcast at *
    have e1 : f.w - q1.2 = h := hn1
    have eq : f.w - q.2 = h + 1 := hq
    rw [e1] at hc1; rw [eq, h2]
    simp only [q1] at hc1; omega



/-- an aligned network lying inside another one of at least the same prefix length is that network -/
theorem eq_of_subset_of_len (f : Fam) (s q : Net) (als : AlignedNet f s) (alq : AlignedNet f q)
    (hsub : ∀ c, NetMem f q c → NetMem f s c) (hlen : q.2 ≤ s.2) : s = q := by
  have m1 := hsub _ (netMem_self f q).1
  have m2 := hsub _ (netMem_self f q).2
  unfold NetMem netBcast at m1 m2
  have hp : 2 ^ (f.w - s.2) ≤ 2 ^ (f.w - q.2) := Nat.pow_le_pow_right (by decide) (by omega)
  have hpq : 0 < 2 ^ (f.w - q.2) := Nat.two_pow_pos _
  have hps : 0 < 2 ^ (f.w - s.2) := Nat.two_pow_pos _
  have e1 : s.1 = q.1 := by omega
  have e2 : 2 ^ (f.w - s.2) = 2 ^ (f.w - q.2) := by omega
  have e3 : f.w - s.2 = f.w - q.2 := by
    rcases Nat.lt_trichotomy (f.w - s.2) (f.w - q.2) with h | h | h
    · have := Nat.pow_lt_pow_right (a := 2) (by decide) h; omega
    · exact h
    · have := Nat.pow_lt_pow_right (a := 2) (by decide) h; omega
  have := als.len_le; have := alq.len_le
  exact Prod.ext e1 (by omega)

/-- **canonical cover**: if `S` is a list of aligned networks, pairwise disjoint, no two with the same
supernet, then every aligned network all of whose addresses are covered by `S` lies inside a single
member of `S` — the members of `S` are exactly the maximal networks inside the covered set -/
theorem canonical_cover (f : Fam) (S : List Net) (alS : ∀ s ∈ S, AlignedNet f s)
    (sib : S.Pairwise (fun a b => supernet f a ≠ supernet f b)) :
    ∀ (h : Nat) (q : Net), AlignedNet f q → nhb f q = h →
      (∀ c, NetMem f q c → ∃ s ∈ S, NetMem f s c) →
      ∃ s ∈ S, ∀ c, NetMem f q c → NetMem f s c := by
  intro h
  induction h with
  | zero =>
    intro q alq hq hcov
    obtain ⟨s, hs, hm⟩ := hcov _ (netMem_self f q).1
    refine ⟨s, hs, ?_⟩
    intro c hc
    unfold NetMem netBcast at hc
    have : f.w - q.2 = 0 := hq
    rw [this] at hc
    have : c = q.1 := by omega
    rw [this]; exact hm
  | succ h ih =>
    intro q alq hq hcov
    obtain ⟨a0, a1, hn0, hn1, hne, hsup, sub0, sub1⟩ := halves f q alq h hq
    obtain ⟨s0, hs0, c0⟩ := ih _ a0 hn0 (fun c hc => hcov c (sub0 c hc))
    obtain ⟨s1, hs1, c1⟩ := ih _ a1 hn1 (fun c hc => hcov c (sub1 c hc))
    -- a member containing a half either contains the whole network or is that half
    have key : ∀ (s qh : Net), AlignedNet f s → AlignedNet f qh → qh.2 = q.2 + 1 →
        (∀ c, NetMem f qh c → NetMem f q c) → (∀ c, NetMem f qh c → NetMem f s c) →
        (∀ c, NetMem f q c → NetMem f s c) ∨ s = qh := by
      intro s qh als alqh hlen hin hsub
      by_cases hl : s.2 ≤ q.2
      · left
        rcases laminar f s q als alq hl with hh | hh
        · exact hh
        · exact absurd ⟨hsub _ (netMem_self f qh).1, hin _ (netMem_self f qh).1⟩ (hh _)
      · right
        exact eq_of_subset_of_len f s qh als alqh hsub (by omega)
    rcases key s0 _ (alS s0 hs0) a0 rfl sub0 c0 with h0 | h0
    · exact ⟨s0, hs0, h0⟩
    rcases key s1 _ (alS s1 hs1) a1 rfl sub1 c1 with h1 | h1
    · exact ⟨s1, hs1, h1⟩
    -- both halves are members: two members with the same supernet
    exfalso
    have := pairwise_of_ne (fun x y hxy => Ne.symm hxy) sib s0 hs0 s1 hs1 (by rw [h0, h1]; exact hne)
    rw [h0, h1] at this
    exact this hsup


end Ccp.IPVal
