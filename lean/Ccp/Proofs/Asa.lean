import Ccp.Model.Asa
/-! Helper lemmas for C20. Core Lean only. -/
namespace Ccp.Asa
open Ccp.Py

/-! ### decimal round trip -/
theorem toDecRev_lt (n : Nat) (h : n < 10) : toDecRev n = [Nat.digitChar n] := by
  rw [toDecRev]; simp [h]
theorem toDecRev_ge (n : Nat) (h : ¬ n < 10) :
    toDecRev n = Nat.digitChar (n % 10) :: toDecRev (n / 10) := by
  rw [toDecRev]; simp [h]

theorem digit_facts_fin : ∀ d : Fin 10,
    isDigit (Nat.digitChar d.val) = true ∧ digitVal (Nat.digitChar d.val) = d.val ∧
    isSpace (Nat.digitChar d.val) = false := by decide

theorem isDigit_digitChar (d : Nat) (h : d < 10) : isDigit (Nat.digitChar d) = true :=
  (digit_facts_fin ⟨d, h⟩).1
theorem digitVal_digitChar (d : Nat) (h : d < 10) : digitVal (Nat.digitChar d) = d :=
  (digit_facts_fin ⟨d, h⟩).2.1

theorem toDecRev_digits (n : Nat) : ∀ c ∈ toDecRev n, isDigit c = true := by
  induction n using Nat.strongRecOn with
  | _ n ih =>
    by_cases h : n < 10
    · rw [toDecRev_lt n h]; intro c hc; simp at hc; subst hc; exact isDigit_digitChar n h
    · rw [toDecRev_ge n h]; intro c hc
      rcases List.mem_cons.mp hc with hc | hc
      · subst hc; exact isDigit_digitChar _ (by omega)
      · exact ih (n / 10) (by omega) c hc

theorem toDec_digits (n : Nat) : ∀ c ∈ toDec n, isDigit c = true := by
  intro c hc; exact toDecRev_digits n c (by simpa [toDec] using hc)

theorem toDec_ne_nil (n : Nat) : toDec n ≠ [] := by
  unfold toDec
  by_cases h : n < 10
  · simp [toDecRev_lt n h]
  · simp [toDecRev_ge n h]

theorem ofDigitsAux_append (xs ys : List Char) (acc : Nat) :
    ofDigitsAux (xs ++ ys) acc = (ofDigitsAux xs acc).bind (fun a => ofDigitsAux ys a) := by
  induction xs generalizing acc with
  | nil => simp [ofDigitsAux]
  | cons c cs ih =>
    simp only [List.cons_append, ofDigitsAux]
    split
    · exact ih _
    · rfl

theorem ofDigitsAux_toDec (n : Nat) : ofDigitsAux (toDec n) 0 = some n := by
  induction n using Nat.strongRecOn with
  | _ n ih =>
    unfold toDec
    by_cases h : n < 10
    · simp [toDecRev_lt n h, ofDigitsAux, isDigit_digitChar n h, digitVal_digitChar n h]
    · have := ih (n / 10) (by omega)
      unfold toDec at this
      rw [toDecRev_ge n h]
      simp only [List.reverse_cons, ofDigitsAux_append, this, Option.bind_some]
      simp [ofDigitsAux, isDigit_digitChar (n % 10) (by omega), digitVal_digitChar (n % 10) (by omega)]
      omega

theorem ofDigits_toDec (n : Nat) : ofDigits (toDec n) = some n := by
  unfold ofDigits; simp [toDec_ne_nil, ofDigitsAux_toDec]

/-! ### blanks -/
theorem digit_not_space (c : Char) (h : isDigit c = true) : isSpace c = false := by
  have : ∀ k : Fin 58, 48 ≤ k.val → Gen.whitespace.contains k.val = false := by decide
  unfold isDigit at h
  simp only [Bool.and_eq_true, decide_eq_true_eq] at h
  exact this ⟨c.toNat, by omega⟩ h.1

/-- a string without blanks at either end is its own `strip()` -/
theorem strip_id (s : Str) (h1 : ∀ c, s.head? = some c → isSpace c = false)
    (h2 : ∀ c, s.getLast? = some c → isSpace c = false) : strip s = s := by
  have l : lstrip s = s := by
    unfold lstrip
    cases s with
    | nil => rfl
    | cons a as => simp [List.dropWhile, h1 a rfl]
  have r : rstrip s = s := by
    unfold rstrip
    cases hs : s.reverse with
    | nil => simp at hs; subst hs; rfl
    | cons a as =>
      have : s.getLast? = some a := by rw [List.getLast?_eq_head?_reverse, hs]; rfl
      have ha := h2 a this
      rw [List.dropWhile_cons, ha]
      simp only [Bool.false_eq_true, if_false]
      rw [← hs, List.reverse_reverse]
  unfold strip; rw [l, r]

/-! ### port lists -/
theorem mem_portList_range (a b k : Nat) : k ∈ portList (.range a b) ↔ a ≤ k ∧ k ≤ b := by
  simp only [portList, List.mem_range'_1]; omega

theorem mem_portList_lt (n k : Nat) : k ∈ portList (.lt n) ↔ 1 ≤ k ∧ k < n := by
  simp only [portList, List.mem_range'_1]; omega

theorem mem_portList_gt (n k : Nat) (h : n ≤ 65535) : k ∈ portList (.gt n) ↔ n < k ∧ k ≤ 65535 := by
  simp only [portList, List.mem_range'_1]; omega

theorem mem_portList_neq (n k : Nat) : k ∈ portList (.neq n) ↔ (1 ≤ k ∧ k ≤ 65535) ∧ k ≠ n := by
  simp only [portList, List.mem_filter, List.mem_range'_1, bne_iff_ne]; omega

theorem portList_sorted (op : PortOp) : (portList op).Pairwise (· < ·) := by
  cases op <;> simp only [portList]
  · simp
  · exact List.pairwise_lt_range'
  · exact List.pairwise_lt_range'
  · exact List.pairwise_lt_range'
  · exact List.Pairwise.filter _ List.pairwise_lt_range'

/-! ### substring tests -/
theorem hasSub_false_of_head (p : Char) (ps s : Str) (h : ∀ c ∈ s, c ≠ p) :
    hasSub (p :: ps) s = false := by
  induction s with
  | nil => simp [hasSub]
  | cons a as ih =>
    have ha : a ≠ p := h a (by simp)
    have : (p == a) = false := by simp [Ne.symm ha]
    simp only [hasSub, List.isPrefixOf, this, Bool.false_and, Bool.false_or]
    exact ih (fun c hc => h c (by simp [hc]))

theorem hasSub_prefix (pat s : Str) : hasSub pat (pat ++ s) = true := by
  cases hp : pat ++ s with
  | nil => simp at hp; simp [hp.1, hasSub]
  | cons a as =>
    simp only [hasSub, Bool.or_eq_true]; left
    rw [← hp]; simp

/-! ### words -/
theorem words_single (t : Str) (hne : t ≠ []) (h : ∀ c ∈ t, isSpace c = false) : words t = [t] := by
  induction t with
  | nil => exact absurd rfl hne
  | cons a as ih =>
    have ha := h a (by simp)
    cases as with
    | nil => simp [words, ha]
    | cons b bs =>
      have hb := h b (by simp)
      have := ih (by simp) (fun c hc => h c (by simp [hc]))
      rw [words]; simp only [ha, hb, Bool.false_eq_true, if_false, this]

theorem words_cons_word (t rest : Str) (sp : Char) (hne : t ≠ []) (h : ∀ c ∈ t, isSpace c = false)
    (hsp : isSpace sp = true) : words (t ++ sp :: rest) = t :: words rest := by
  induction t with
  | nil => exact absurd rfl hne
  | cons a as ih =>
    have ha := h a (by simp)
    cases as with
    | nil => simp [words, ha, hsp]
    | cons b bs =>
      have hb := h b (by simp)
      have := ih (by simp) (fun c hc => h c (by simp [hc]))
      simp only [List.cons_append] at this ⊢
      rw [words.eq_def]
      simp only [ha, hb, Bool.false_eq_true, if_false, this]


/-- no service name starts with a digit (so a number is never shadowed by a name) -/
def noDigitNames (tbl : List (String × Nat)) : Bool :=
  tbl.all (fun p => match p.1.toList with | c :: _ => !isDigit c | [] => true)

theorem tcp_noDigitNames : noDigitNames Gen.asaTcpPorts = true := by decide +kernel
theorem udp_noDigitNames : noDigitNames Gen.asaUdpPorts = true := by decide +kernel

theorem toDec_cons (n : Nat) : ∃ c cs, toDec n = c :: cs ∧ isDigit c = true := by
  cases h : toDec n with
  | nil => exact absurd h (toDec_ne_nil n)
  | cons c cs => exact ⟨c, cs, rfl, toDec_digits n c (by simp [h])⟩

theorem toDec_space_free (n : Nat) : ∀ c ∈ toDec n, isSpace c = false :=
  fun c hc => digit_not_space c (toDec_digits n c hc)

theorem strip_toDec (n : Nat) : strip (toDec n) = toDec n := by
  apply strip_id
  · intro c hc; exact toDec_space_free n c (List.mem_of_mem_head? hc)
  · intro c hc; exact toDec_space_free n c (List.mem_of_mem_getLast? hc)

theorem pyInt_toDec (n : Nat) : pyInt (toDec n) = some (Int.ofNat n) := by
  unfold pyInt
  rw [strip_toDec]
  obtain ⟨c, cs, h, hd⟩ := toDec_cons n
  have := ofDigits_toDec n
  split
  · rename_i ds heq; rw [h] at heq; cases heq; simp [isDigit] at hd
  · rename_i ds heq; rw [h] at heq; cases heq; simp [isDigit] at hd
  · simp [this]

theorem portValue_toDec (tbl : List (String × Nat)) (ht : noDigitNames tbl = true) (n : Nat) :
    portValue tbl (toDec n) = .ok (Int.ofNat n) := by
  unfold portValue
  have : tbl.find? (fun p => p.1.toList = toDec n) = none := by
    rw [List.find?_eq_none]
    intro p hp
    have hp' := List.all_eq_true.mp ht p hp
    obtain ⟨c, cs, h, hd⟩ := toDec_cons n
    simp only [decide_eq_true_eq]
    intro heq
    rw [heq, h] at hp'
    simp [hd] at hp'
  rw [this]; simp [pyInt_toDec]


theorem toDec_ne_char (n : Nat) (p : Char) (hp : isDigit p = false) : ∀ c ∈ toDec n, c ≠ p := by
  intro c hc heq; subst heq; have := toDec_digits n c hc; simp [hp] at this

theorem lit_ne (l : Str) (p : Char) (h : l.all (· != p) = true) : ∀ c ∈ l, c ≠ p := by
  intro c hc; have := List.all_eq_true.mp h c hc; simpa using this

/-- an operator keyword, one blank, a decimal number: no character equals `p` -/
theorem kw_num_ne (kw : Str) (n : Nat) (p : Char) (h : kw.all (· != p) = true) (hp : isDigit p = false) :
    ∀ c ∈ kw ++ toDec n, c ≠ p := by
  intro c hc
  rcases List.mem_append.mp hc with hc | hc
  · exact lit_ne kw p h c hc
  · exact toDec_ne_char n p hp c hc

theorem words_kw_num (kw : Str) (n : Nat) (hne : kw ≠ []) (h : ∀ c ∈ kw, isSpace c = false) :
    words (kw ++ ' ' :: toDec n) = [kw, toDec n] := by
  have := words_cons_word kw (toDec n) ' ' hne h (by decide)
  rw [words_single (toDec n) (toDec_ne_nil n) (toDec_space_free n)] at this
  exact this

theorem bound_nat (lo hi n : Nat) :
    inPorts (Int.ofNat lo) (Int.ofNat hi) (Int.ofNat n) = decide (lo ≤ n ∧ n ≤ hi) := by
  simp only [inPorts, Int.ofNat_eq_natCast, Int.ofNat_le, Bool.decide_and]

theorem ladder_eq (tbl : List (String × Nat)) (ht : noDigitNames tbl = true) (n : Nat) :
    ladder tbl ("eq ".toList ++ toDec n) =
      if 1 ≤ n ∧ n ≤ 65535 then .ok (.eq n) else .error .requirementFailure := by
  have hw := words_kw_num "eq".toList n (by decide) (by decide)
  have h1 : hasSub "neq ".toList ("eq ".toList ++ toDec n) = false :=
    hasSub_false_of_head _ _ _ (kw_num_ne _ n _ (by decide) (by decide))
  have h2 : hasSub "eq ".toList ("eq ".toList ++ toDec n) = true := hasSub_prefix _ _
  unfold ladder
  simp at hw h1 h2
  simp [hw, h1, h2, portValue_toDec tbl ht n, bind, Except.bind, inPorts]
  by_cases h : 1 ≤ n ∧ n ≤ 65535
  · simp [h]; omega
  · simp [h]; omega

theorem has_blank (pre post : Str) :
    ¬ (pre ++ ' ' :: post ≠ [] ∧ (pre ++ ' ' :: post).all (fun c => !isSpace c) = true) := by
  intro h
  have := List.all_eq_true.mp h.2 ' ' (by simp)
  revert this; decide

theorem ladder_lt (tbl : List (String × Nat)) (ht : noDigitNames tbl = true) (n : Nat) :
    ladder tbl ("lt ".toList ++ toDec n) =
      if 2 ≤ n ∧ n ≤ 65535 then .ok (.lt n) else .error .requirementFailure := by
  have hw := words_kw_num "lt".toList n (by decide) (by decide)
  have e : "lt ".toList ++ toDec n = "lt".toList ++ ' ' :: toDec n := by simp
  have h1 : hasSub "neq ".toList ("lt ".toList ++ toDec n) = false :=
    hasSub_false_of_head _ _ _ (kw_num_ne _ n _ (by decide) (by decide))
  have h2 : hasSub "eq ".toList ("lt ".toList ++ toDec n) = false :=
    hasSub_false_of_head _ _ _ (kw_num_ne _ n _ (by decide) (by decide))
  have h3 : hasSub "range ".toList ("lt ".toList ++ toDec n) = false :=
    hasSub_false_of_head _ _ _ (kw_num_ne _ n _ (by decide) (by decide))
  have h4 : hasSub "lt ".toList ("lt ".toList ++ toDec n) = true := hasSub_prefix _ _
  have hc := has_blank "lt".toList (toDec n)
  rw [← e] at hw hc
  unfold ladder
  simp only [hw, h1, h2, h3, h4, hc, Bool.false_eq_true, if_false, if_true, List.getLast?_cons_cons,
    List.getLast?_singleton, Option.getD_some, portValue_toDec tbl ht n]
  simp [bind, Except.bind, inPorts]
  by_cases h : 2 ≤ n ∧ n ≤ 65535
  · simp [h]; omega
  · simp [h]; omega

theorem ladder_gt (tbl : List (String × Nat)) (ht : noDigitNames tbl = true) (n : Nat) :
    ladder tbl ("gt ".toList ++ toDec n) =
      if 1 ≤ n ∧ n ≤ 65534 then .ok (.gt n) else .error .requirementFailure := by
  have hw := words_kw_num "gt".toList n (by decide) (by decide)
  have e : "gt ".toList ++ toDec n = "gt".toList ++ ' ' :: toDec n := by simp
  have h1 : hasSub "neq ".toList ("gt ".toList ++ toDec n) = false :=
    hasSub_false_of_head _ _ _ (kw_num_ne _ n _ (by decide) (by decide))
  have h2 : hasSub "eq ".toList ("gt ".toList ++ toDec n) = false :=
    hasSub_false_of_head _ _ _ (kw_num_ne _ n _ (by decide) (by decide))
  have h3 : hasSub "range ".toList ("gt ".toList ++ toDec n) = false :=
    hasSub_false_of_head _ _ _ (kw_num_ne _ n _ (by decide) (by decide))
  have h4 : hasSub "lt ".toList ("gt ".toList ++ toDec n) = false :=
    hasSub_false_of_head _ _ _ (kw_num_ne _ n _ (by decide) (by decide))
  have h5 : hasSub "gt ".toList ("gt ".toList ++ toDec n) = true := hasSub_prefix _ _
  have hc := has_blank "gt".toList (toDec n)
  rw [← e] at hw hc
  unfold ladder
  simp only [hw, h1, h2, h3, h4, h5, hc, Bool.false_eq_true, if_false, if_true, List.getLast?_cons_cons,
    List.getLast?_singleton, Option.getD_some, portValue_toDec tbl ht n]
  simp [bind, Except.bind, inPorts]
  by_cases h : 1 ≤ n ∧ n ≤ 65534
  · simp [h]; omega
  · simp [h]; omega

theorem ladder_neq (tbl : List (String × Nat)) (ht : noDigitNames tbl = true) (n : Nat) :
    ladder tbl ("neq ".toList ++ toDec n) =
      if 1 ≤ n ∧ n ≤ 65535 then .ok (.neq n) else .error .requirementFailure := by
  have hw := words_kw_num "neq".toList n (by decide) (by decide)
  have e : "neq ".toList ++ toDec n = "neq".toList ++ ' ' :: toDec n := by simp
  have h1 : hasSub "neq ".toList ("neq ".toList ++ toDec n) = true := hasSub_prefix _ _
  rw [← e] at hw
  unfold ladder
  simp only [hw, h1, if_true, List.getLast?_cons_cons,
    List.getLast?_singleton, Option.getD_some, portValue_toDec tbl ht n]
  simp [bind, Except.bind, inPorts]
  by_cases h : 1 ≤ n ∧ n ≤ 65535
  · simp [h]; omega
  · simp [h]; omega

theorem ladder_bare (tbl : List (String × Nat)) (ht : noDigitNames tbl = true) (n : Nat) :
    ladder tbl (toDec n) =
      if 1 ≤ n ∧ n ≤ 65535 then .ok (.eq n) else .error .requirementFailure := by
  have h1 : hasSub "neq ".toList (toDec n) = false :=
    hasSub_false_of_head _ _ _ (toDec_ne_char n _ (by decide))
  have h2 : hasSub "eq ".toList (toDec n) = false :=
    hasSub_false_of_head _ _ _ (toDec_ne_char n _ (by decide))
  have hc : toDec n ≠ [] ∧ (toDec n).all (fun c => !isSpace c) = true := by
    refine ⟨toDec_ne_nil n, List.all_eq_true.mpr ?_⟩
    intro c hc; simp [toDec_space_free n c hc]
  unfold ladder
  simp only [h1, h2, Bool.false_eq_true, if_false]
  rw [if_pos hc]
  simp only [portValue_toDec tbl ht n]
  simp [bind, Except.bind, inPorts]
  by_cases h : 1 ≤ n ∧ n ≤ 65535
  · simp [h]; omega
  · simp [h]; omega

theorem two_nums_ne (a b : Nat) (p : Char) (hp : isDigit p = false) (hs : p ≠ ' ') :
    ∀ c ∈ toDec a ++ ' ' :: toDec b, c ≠ p := by
  intro c hc
  rcases List.mem_append.mp hc with hc | hc
  · exact toDec_ne_char a p hp c hc
  · rcases List.mem_cons.mp hc with hc | hc
    · subst hc; exact fun h => hs h.symm
    · exact toDec_ne_char b p hp c hc

theorem ladder_range (tbl : List (String × Nat)) (ht : noDigitNames tbl = true) (a b : Nat) :
    ladder tbl ("range ".toList ++ (toDec a ++ ' ' :: toDec b)) =
      if b < a then .error .requirementFailure
      else if 1 ≤ a ∧ b ≤ 65535 then .ok (.range a b) else .error .requirementFailure := by
  have e : "range ".toList ++ (toDec a ++ ' ' :: toDec b) = "range".toList ++ ' ' :: (toDec a ++ ' ' :: toDec b) := by simp
  have hw : words ("range ".toList ++ (toDec a ++ ' ' :: toDec b)) = ["range".toList, toDec a, toDec b] := by
    rw [e, words_cons_word _ _ ' ' (by decide) (by decide) (by decide),
      words_cons_word _ _ ' ' (toDec_ne_nil a) (toDec_space_free a) (by decide),
      words_single _ (toDec_ne_nil b) (toDec_space_free b)]
  have h1 : hasSub "neq ".toList ("range ".toList ++ (toDec a ++ ' ' :: toDec b)) = false := by
    have := hasSub_false_of_head 'n' "eq ".toList _ (two_nums_ne a b 'n' (by decide) (by decide))
    simp at this
    simp [hasSub, List.isPrefixOf, this]
  have h2 : hasSub "eq ".toList ("range ".toList ++ (toDec a ++ ' ' :: toDec b)) = false := by
    have := hasSub_false_of_head 'e' "q ".toList _ (two_nums_ne a b 'e' (by decide) (by decide))
    simp at this
    simp [hasSub, List.isPrefixOf, this]
  have h3 : hasSub "range ".toList ("range ".toList ++ (toDec a ++ ' ' :: toDec b)) = true := hasSub_prefix _ _
  have hc := has_blank "range".toList (toDec a ++ ' ' :: toDec b)
  rw [← e] at hc
  unfold ladder
  simp only [hw, h1, h2, h3, hc, Bool.false_eq_true, if_false, if_true,
    portValue_toDec tbl ht a, portValue_toDec tbl ht b]
  simp [bind, Except.bind]
  by_cases h : b < a
  · simp [h]
  · simp only [h, if_false]
    by_cases h' : 1 ≤ a ∧ b ≤ 65535
    · rw [if_pos h', if_pos (by omega)]
    · rw [if_neg h', if_neg (by omega)]

end Ccp.Asa
