import Ccp.Model.Asa
/-! Helper lemmas for C20. Core Lean only. -/
namespace Ccp.Asa
open Ccp.Py

/-! ### decimal round trip -/
theorem toDecRev_lt (n : Nat) (h : n < 10) : toDecRev n = [Nat.digitChar n] := by
  rw [toDecRev]; simp [h]
theorem toDecRev_ge (n : Nat) (h : ¬ n < 10) :
    toDecRev n = Nat.digitChar (n % 10) :: toDecRev (n / 10) := by
  rw [toDecRev]; simp [h]

theorem digit_facts_fin : ∀ d : Fin 10,
    isDigit (Nat.digitChar d.val) = true ∧ digitVal (Nat.digitChar d.val) = d.val ∧
    isSpace (Nat.digitChar d.val) = false := by decide

theorem isDigit_digitChar (d : Nat) (h : d < 10) : isDigit (Nat.digitChar d) = true :=
  (digit_facts_fin ⟨d, h⟩).1
theorem digitVal_digitChar (d : Nat) (h : d < 10) : digitVal (Nat.digitChar d) = d :=
  (digit_facts_fin ⟨d, h⟩).2.1

theorem toDecRev_digits (n : Nat) : ∀ c ∈ toDecRev n, isDigit c = true := by
  induction n using Nat.strongRecOn with
  | _ n ih =>
    by_cases h : n < 10
    · rw [toDecRev_lt n h]; intro c hc; simp at hc; subst hc; exact isDigit_digitChar n h
    · rw [toDecRev_ge n h]; intro c hc
      rcases List.mem_cons.mp hc with hc | hc
      · subst hc; exact isDigit_digitChar _ (by omega)
      · exact ih (n / 10) (by omega) c hc

theorem toDec_digits (n : Nat) : ∀ c ∈ toDec n, isDigit c = true := by
  intro c hc; exact toDecRev_digits n c (by simpa [toDec] using hc)

theorem toDec_ne_nil (n : Nat) : toDec n ≠ [] := by
  unfold toDec
  by_cases h : n < 10
  · simp [toDecRev_lt n h]
  · simp [toDecRev_ge n h]

theorem ofDigitsAux_append (xs ys : List Char) (acc : Nat) :
    ofDigitsAux (xs ++ ys) acc = (ofDigitsAux xs acc).bind (fun a => ofDigitsAux ys a) := by
  induction xs generalizing acc with
  | nil => simp [ofDigitsAux]
  | cons c cs ih =>
    simp only [List.cons_append, ofDigitsAux]
    split
    · exact ih _
    · rfl

theorem ofDigitsAux_toDec (n : Nat) : ofDigitsAux (toDec n) 0 = some n := by
  induction n using Nat.strongRecOn with
  | _ n ih =>
    unfold toDec
    by_cases h : n < 10
    · simp [toDecRev_lt n h, ofDigitsAux, isDigit_digitChar n h, digitVal_digitChar n h]
    · have := ih (n / 10) (by omega)
      unfold toDec at this
      rw [toDecRev_ge n h]
      simp only [List.reverse_cons, ofDigitsAux_append, this, Option.bind_some]
      simp [ofDigitsAux, isDigit_digitChar (n % 10) (by omega), digitVal_digitChar (n % 10) (by omega)]
      omega

theorem ofDigits_toDec (n : Nat) : ofDigits (toDec n) = some n := by
  unfold ofDigits; simp [toDec_ne_nil, ofDigitsAux_toDec]

/-! ### blanks -/
theorem digit_not_space (c : Char) (h : isDigit c = true) : isSpace c = false := by
  have : ∀ k : Fin 58, 48 ≤ k.val → Gen.whitespace.contains k.val = false := by decide
  unfold isDigit at h
  simp only [Bool.and_eq_true, decide_eq_true_eq] at h
  exact this ⟨c.toNat, by omega⟩ h.1

/-- a string without blanks at either end is its own `strip()` -/
theorem strip_id (s : Str) (h1 : ∀ c, s.head? = some c → isSpace c = false)
    (h2 : ∀ c, s.getLast? = some c → isSpace c = false) : strip s = s := by
  have l : lstrip s = s := by
    unfold lstrip
    cases s with
    | nil => rfl
    | cons a as => simp [List.dropWhile, h1 a rfl]
  have r : rstrip s = s := by
    unfold rstrip
    cases hs : s.reverse with
    | nil => simp at hs; subst hs; rfl
    | cons a as =>
      have : s.getLast? = some a := by rw [List.getLast?_eq_head?_reverse, hs]; rfl
      have ha := h2 a this
      rw [List.dropWhile_cons, ha]
      simp only [Bool.false_eq_true, if_false]
      rw [← hs, List.reverse_reverse]
  unfold strip; rw [l, r]

/-! ### port lists -/
theorem mem_portList_range (a b k : Nat) : k ∈ portList (.range a b) ↔ a ≤ k ∧ k ≤ b := by
  simp only [portList, List.mem_range'_1]; omega

theorem mem_portList_lt (n k : Nat) : k ∈ portList (.lt n) ↔ 1 ≤ k ∧ k < n := by
  simp only [portList, List.mem_range'_1]; omega

theorem mem_portList_gt (n k : Nat) (h : n ≤ 65535) : k ∈ portList (.gt n) ↔ n < k ∧ k ≤ 65535 := by
  simp only [portList, List.mem_range'_1]; omega

theorem mem_portList_neq (n k : Nat) : k ∈ portList (.neq n) ↔ (1 ≤ k ∧ k ≤ 65535) ∧ k ≠ n := by
  simp only [portList, List.mem_filter, List.mem_range'_1, bne_iff_ne]; omega

theorem portList_sorted (op : PortOp) : (portList op).Pairwise (· < ·) := by
  cases op <;> simp only [portList]
  · simp
  · exact List.pairwise_lt_range'
  · exact List.pairwise_lt_range'
  · exact List.pairwise_lt_range'
  · exact List.Pairwise.filter _ List.pairwise_lt_range'

/-! ### substring tests -/
theorem hasSub_false_of_head (p : Char) (ps s : Str) (h : ∀ c ∈ s, c ≠ p) :
    hasSub (p :: ps) s = false := by
  induction s with
  | nil => simp [hasSub]
  | cons a as ih =>
    have ha : a ≠ p := h a (by simp)
    have : (p == a) = false := by simp [Ne.symm ha]
    simp only [hasSub, List.isPrefixOf, this, Bool.false_and, Bool.false_or]
    exact ih (fun c hc => h c (by simp [hc]))

theorem hasSub_prefix (pat s : Str) : hasSub pat (pat ++ s) = true := by
  cases hp : pat ++ s with
  | nil => simp at hp; simp [hp.1, hasSub]
  | cons a as =>
    simp only [hasSub, Bool.or_eq_true]; left
    rw [← hp]; simp

/-! ### words -/
theorem words_single (t : Str) (hne : t ≠ []) (h : ∀ c ∈ t, isSpace c = false) : words t = [t] := by
  induction t with
  | nil => exact absurd rfl hne
  | cons a as ih =>
    have ha := h a (by simp)
    cases as with
    | nil => simp [words, ha]
    | cons b bs =>
      have hb := h b (by simp)
      have := ih (by simp) (fun c hc => h c (by simp [hc]))
      rw [words]; simp only [ha, hb, Bool.false_eq_true, if_false, this]

theorem words_cons_word (t rest : Str) (sp : Char) (hne : t ≠ []) (h : ∀ c ∈ t, isSpace c = false)
    (hsp : isSpace sp = true) : words (t ++ sp :: rest) = t :: words rest := by
  induction t with
  | nil => exact absurd rfl hne
  | cons a as ih =>
    have ha := h a (by simp)
    cases as with
    | nil => simp [words, ha, hsp]
    | cons b bs =>
      have hb := h b (by simp)
      have := ih (by simp) (fun c hc => h c (by simp [hc]))
      simp only [List.cons_append] at this ⊢
      rw [words.eq_def]
      simp only [ha, hb, Bool.false_eq_true, if_false, this]


/-- no service name starts with a digit (so a number is never shadowed by a name) -/
def noDigitNames (tbl : List (String × Nat)) : Bool :=
  tbl.all (fun p => match p.1.toList with | c :: _ => !isDigit c | [] => true)

theorem tcp_noDigitNames : noDigitNames Gen.asaTcpPorts = true := by decide +kernel
theorem udp_noDigitNames : noDigitNames Gen.asaUdpPorts = true := by decide +kernel

theorem toDec_cons (n : Nat) : ∃ c cs, toDec n = c :: cs ∧ isDigit c = true := by
  cases h : toDec n with
  | nil => exact absurd h (toDec_ne_nil n)
  | cons c cs => exact ⟨c, cs, rfl, toDec_digits n c (by simp [h])⟩

theorem toDec_space_free (n : Nat) : ∀ c ∈ toDec n, isSpace c = false :=
  fun c hc => digit_not_space c (toDec_digits n c hc)

theorem strip_toDec (n : Nat) : strip (toDec n) = toDec n := by
  apply strip_id
  · intro c hc; exact toDec_space_free n c (List.mem_of_mem_head? hc)
  · intro c hc; exact toDec_space_free n c (List.mem_of_mem_getLast? hc)

theorem pyInt_toDec (n : Nat) : pyInt (toDec n) = some (Int.ofNat n) := by
  unfold pyInt
  rw [strip_toDec]
  obtain ⟨c, cs, h, hd⟩ := toDec_cons n
  have := ofDigits_toDec n
  split
  · rename_i ds heq; rw [h] at heq; cases heq; simp [isDigit] at hd
  · rename_i ds heq; rw [h] at heq; cases heq; simp [isDigit] at hd
  · simp [this]

theorem portValue_toDec (tbl : List (String × Nat)) (ht : noDigitNames tbl = true) (n : Nat) :
    portValue tbl (toDec n) = .ok (Int.ofNat n) := by
  unfold portValue
  have : tbl.find? (fun p => p.1.toList = toDec n) = none := by
    rw [List.find?_eq_none]
    intro p hp
    have hp' := List.all_eq_true.mp ht p hp
    obtain ⟨c, cs, h, hd⟩ := toDec_cons n
    simp only [decide_eq_true_eq]
    intro heq
    rw [heq, h] at hp'
    simp [hd] at hp'
  rw [this]; simp [pyInt_toDec]


theorem toDec_ne_char (n : Nat) (p : Char) (hp : isDigit p = false) : ∀ c ∈ toDec n, c ≠ p := by
  intro c hc heq; subst heq; have := toDec_digits n c hc; simp [hp] at this

theorem lit_ne (l : Str) (p : Char) (h : l.all (· != p) = true) : ∀ c ∈ l, c ≠ p := by
  intro c hc; have := List.all_eq_true.mp h c hc; simpa using this

/-- an operator keyword, one blank, a decimal number: no character equals `p` -/
theorem kw_num_ne (kw : Str) (n : Nat) (p : Char) (h : kw.all (· != p) = true) (hp : isDigit p = false) :
    ∀ c ∈ kw ++ toDec n, c ≠ p := by
  intro c hc
  rcases List.mem_append.mp hc with hc | hc
  · exact lit_ne kw p h c hc
  · exact toDec_ne_char n p hp c hc

theorem words_kw_num (kw : Str) (n : Nat) (hne : kw ≠ []) (h : ∀ c ∈ kw, isSpace c = false) :
    words (kw ++ ' ' :: toDec n) = [kw, toDec n] := by
  have := words_cons_word kw (toDec n) ' ' hne h (by decide)
  rw [words_single (toDec n) (toDec_ne_nil n) (toDec_space_free n)] at this
  exact this

theorem bound_nat (lo hi n : Nat) :
    inPorts (Int.ofNat lo) (Int.ofNat hi) (Int.ofNat n) = decide (lo ≤ n ∧ n ≤ hi) := by
  simp only [inPorts, Int.ofNat_eq_natCast, Int.ofNat_le, Bool.decide_and]

theorem ladder_eq (tbl : List (String × Nat)) (ht : noDigitNames tbl = true) (n : Nat) :
    ladder tbl ("eq ".toList ++ toDec n) =
      if 1 ≤ n ∧ n ≤ 65535 then .ok (.eq n) else .error .requirementFailure := by
  have hw := words_kw_num "eq".toList n (by decide) (by decide)
  have h1 : hasSub "neq ".toList ("eq ".toList ++ toDec n) = false :=
    hasSub_false_of_head _ _ _ (kw_num_ne _ n _ (by decide) (by decide))
  have h2 : hasSub "eq ".toList ("eq ".toList ++ toDec n) = true := hasSub_prefix _ _
  unfold ladder
  simp at hw h1 h2
  simp [hw, h1, h2, portValue_toDec tbl ht n, bind, Except.bind, inPorts]
  by_cases h : 1 ≤ n ∧ n ≤ 65535
  · simp [h]; omega
  · simp [h]; omega

theorem has_blank (pre post : Str) :
    ¬ (pre ++ ' ' :: post ≠ [] ∧ (pre ++ ' ' :: post).all (fun c => !isSpace c) = true) := by
  intro h
  have := List.all_eq_true.mp h.2 ' ' (by simp)
  revert this; decide

theorem ladder_lt (tbl : List (String × Nat)) (ht : noDigitNames tbl = true) (n : Nat) :
    ladder tbl ("lt ".toList ++ toDec n) =
      if 2 ≤ n ∧ n ≤ 65535 then .ok (.lt n) else .error .requirementFailure := by
  have hw := words_kw_num "lt".toList n (by decide) (by decide)
  have e : "lt ".toList ++ toDec n = "lt".toList ++ ' ' :: toDec n := by simp
  have h1 : hasSub "neq ".toList ("lt ".toList ++ toDec n) = false :=
    hasSub_false_of_head _ _ _ (kw_num_ne _ n _ (by decide) (by decide))
  have h2 : hasSub "eq ".toList ("lt ".toList ++ toDec n) = false :=
    hasSub_false_of_head _ _ _ (kw_num_ne _ n _ (by decide) (by decide))
  have h3 : hasSub "range ".toList ("lt ".toList ++ toDec n) = false :=
    hasSub_false_of_head _ _ _ (kw_num_ne _ n _ (by decide) (by decide))
  have h4 : hasSub "lt ".toList ("lt ".toList ++ toDec n) = true := hasSub_prefix _ _
  have hc := has_blank "lt".toList (toDec n)
  rw [← e] at hw hc
  unfold ladder
  simp only [hw, h1, h2, h3, h4, hc, Bool.false_eq_true, if_false, if_true, List.getLast?_cons_cons,
    List.getLast?_singleton, Option.getD_some, portValue_toDec tbl ht n]
  simp [bind, Except.bind, inPorts]
  by_cases h : 2 ≤ n ∧ n ≤ 65535
  · simp [h]; omega
  · simp [h]; omega

theorem ladder_gt (tbl : List (String × Nat)) (ht : noDigitNames tbl = true) (n : Nat) :
    ladder tbl ("gt ".toList ++ toDec n) =
      if 1 ≤ n ∧ n ≤ 65534 then .ok (.gt n) else .error .requirementFailure := by
  have hw := words_kw_num "gt".toList n (by decide) (by decide)
  have e : "gt ".toList ++ toDec n = "gt".toList ++ ' ' :: toDec n := by simp
  have h1 : hasSub "neq ".toList ("gt ".toList ++ toDec n) = false :=
    hasSub_false_of_head _ _ _ (kw_num_ne _ n _ (by decide) (by decide))
  have h2 : hasSub "eq ".toList ("gt ".toList ++ toDec n) = false :=
    hasSub_false_of_head _ _ _ (kw_num_ne _ n _ (by decide) (by decide))
  have h3 : hasSub "range ".toList ("gt ".toList ++ toDec n) = false :=
    hasSub_false_of_head _ _ _ (kw_num_ne _ n _ (by decide) (by decide))
  have h4 : hasSub "lt ".toList ("gt ".toList ++ toDec n) = false :=
    hasSub_false_of_head _ _ _ (kw_num_ne _ n _ (by decide) (by decide))
  have h5 : hasSub "gt ".toList ("gt ".toList ++ toDec n) = true := hasSub_prefix _ _
  have hc := has_blank "gt".toList (toDec n)
  rw [← e] at hw hc
  unfold ladder
  simp only [hw, h1, h2, h3, h4, h5, hc, Bool.false_eq_true, if_false, if_true, List.getLast?_cons_cons,
    List.getLast?_singleton, Option.getD_some, portValue_toDec tbl ht n]
  simp [bind, Except.bind, inPorts]
  by_cases h : 1 ≤ n ∧ n ≤ 65534
  · simp [h]; omega
  · simp [h]; omega

theorem ladder_neq (tbl : List (String × Nat)) (ht : noDigitNames tbl = true) (n : Nat) :
    ladder tbl ("neq ".toList ++ toDec n) =
      if 1 ≤ n ∧ n ≤ 65535 then .ok (.neq n) else .error .requirementFailure := by
  have hw := words_kw_num "neq".toList n (by decide) (by decide)
  have e : "neq ".toList ++ toDec n = "neq".toList ++ ' ' :: toDec n := by simp
  have h1 : hasSub "neq ".toList ("neq ".toList ++ toDec n) = true := hasSub_prefix _ _
  rw [← e] at hw
  unfold ladder
  simp only [hw, h1, if_true, List.getLast?_cons_cons,
    List.getLast?_singleton, Option.getD_some, portValue_toDec tbl ht n]
  simp [bind, Except.bind, inPorts]
  by_cases h : 1 ≤ n ∧ n ≤ 65535
  · simp [h]; omega
  · simp [h]; omega

theorem ladder_bare (tbl : List (String × Nat)) (ht : noDigitNames tbl = true) (n : Nat) :
    ladder tbl (toDec n) =
      if 1 ≤ n ∧ n ≤ 65535 then .ok (.eq n) else .error .requirementFailure := by
  have h1 : hasSub "neq ".toList (toDec n) = false :=
    hasSub_false_of_head _ _ _ (toDec_ne_char n _ (by decide))
  have h2 : hasSub "eq ".toList (toDec n) = false :=
    hasSub_false_of_head _ _ _ (toDec_ne_char n _ (by decide))
  have hc : toDec n ≠ [] ∧ (toDec n).all (fun c => !isSpace c) = true := by
    refine ⟨toDec_ne_nil n, List.all_eq_true.mpr ?_⟩
    intro c hc; simp [toDec_space_free n c hc]
  unfold ladder
  simp only [h1, h2, Bool.false_eq_true, if_false]
  rw [if_pos hc]
  simp only [portValue_toDec tbl ht n]
  simp [bind, Except.bind, inPorts]
  by_cases h : 1 ≤ n ∧ n ≤ 65535
  · simp [h]; omega
  · simp [h]; omega

theorem two_nums_ne (a b : Nat) (p : Char) (hp : isDigit p = false) (hs : p ≠ ' ') :
    ∀ c ∈ toDec a ++ ' ' :: toDec b, c ≠ p := by
  intro c hc
  rcases List.mem_append.mp hc with hc | hc
  · exact toDec_ne_char a p hp c hc
  · rcases List.mem_cons.mp hc with hc | hc
    · subst hc; exact fun h => hs h.symm
    · exact toDec_ne_char b p hp c hc

theorem ladder_range (tbl : List (String × Nat)) (ht : noDigitNames tbl = true) (a b : Nat) :
    ladder tbl ("range ".toList ++ (toDec a ++ ' ' :: toDec b)) =
      if b < a then .error .requirementFailure
      else if 1 ≤ a ∧ b ≤ 65535 then .ok (.range a b) else .error .requirementFailure := by
  have e : "range ".toList ++ (toDec a ++ ' ' :: toDec b) = "range".toList ++ ' ' :: (toDec a ++ ' ' :: toDec b) := by simp
  have hw : words ("range ".toList ++ (toDec a ++ ' ' :: toDec b)) = ["range".toList, toDec a, toDec b] := by
    rw [e, words_cons_word _ _ ' ' (by decide) (by decide) (by decide),
      words_cons_word _ _ ' ' (toDec_ne_nil a) (toDec_space_free a) (by decide),
      words_single _ (toDec_ne_nil b) (toDec_space_free b)]
  have h1 : hasSub "neq ".toList ("range ".toList ++ (toDec a ++ ' ' :: toDec b)) = false := by
    have := hasSub_false_of_head 'n' "eq ".toList _ (two_nums_ne a b 'n' (by decide) (by decide))
    simp at this
    simp [hasSub, List.isPrefixOf, this]
  have h2 : hasSub "eq ".toList ("range ".toList ++ (toDec a ++ ' ' :: toDec b)) = false := by
    have := hasSub_false_of_head 'e' "q ".toList _ (two_nums_ne a b 'e' (by decide) (by decide))
    simp at this
    simp [hasSub, List.isPrefixOf, this]
  have h3 : hasSub "range ".toList ("range ".toList ++ (toDec a ++ ' ' :: toDec b)) = true := hasSub_prefix _ _
  have hc := has_blank "range".toList (toDec a ++ ' ' :: toDec b)
  rw [← e] at hc
  unfold ladder
  simp only [hw, h1, h2, h3, hc, Bool.false_eq_true, if_false, if_true,
    portValue_toDec tbl ht a, portValue_toDec tbl ht b]
  simp [bind, Except.bind]
  by_cases h : b < a
  · simp [h]
  · simp only [h, if_false]
    by_cases h' : 1 ≤ a ∧ b ≤ 65535
    · rw [if_pos h', if_pos (by omega)]
    · rw [if_neg h', if_neg (by omega)]

/-! ### the flattening specification -/

/-- **Spec.** `Flatten names tbl ms l`: `l` is the flattening of the member list `ms` in order:
a host contributes its (alias-resolved) address, a network its resolved address and mask (the
mask `255.255.255.255` makes it a host), a description nothing, a `group-object` the flattening of
the members of the group the table holds under that name. -/
inductive Flatten (names : List (Str × Str)) (tbl : List (Str × Group)) : List Member → List Str → Prop
  | nil : Flatten names tbl [] []
  | host {h ms l} : Flatten names tbl ms l → Flatten names tbl (.host h :: ms) (resolve names h :: l)
  | net32 {n ms l} : Flatten names tbl ms l → Flatten names tbl (.net n mask32 :: ms) (resolve names n :: l)
  | net {n m ms l} : m ≠ mask32 → Flatten names tbl ms l →
      Flatten names tbl (.net n m :: ms) ((resolve names n ++ '/' :: m) :: l)
  | descr {ms l} : Flatten names tbl ms l → Flatten names tbl (.descr :: ms) l
  | grp {g g' ms l l'} : dictGet tbl g = some g' → Flatten names tbl g'.members l' →
      Flatten names tbl ms l → Flatten names tbl (.grp g :: ms) (l' ++ l)

theorem Flatten.unique {names tbl ms l₁ l₂} (h₁ : Flatten names tbl ms l₁) (h₂ : Flatten names tbl ms l₂) :
    l₁ = l₂ := by
  induction h₁ generalizing l₂ with
  | nil => cases h₂; rfl
  | host _ ih => cases h₂ with | host h => rw [ih h]
  | net32 _ ih =>
    cases h₂ with
    | net32 h => rw [ih h]
    | net hne _ => exact absurd rfl hne
  | net hne _ ih =>
    cases h₂ with
    | net32 h => exact absurd rfl hne
    | net _ h => rw [ih h]
  | descr _ ih => cases h₂ with | descr h => exact ih h
  | grp hg _ _ ih' ih =>
    cases h₂ with
    | grp hg2 h2' h2 =>
      rw [hg] at hg2; cases hg2
      rw [ih' h2', ih h2]

/-- the members a (valid) group body may contain, and where its references point -/
def WellFormed (tbl : List (Str × Group)) (rank : Str → Nat) (self : Str) (ms : List Member) : Prop :=
  ∀ m ∈ ms, m ≠ .bad ∧ ∀ g, m = .grp g → ∃ g', dictGet tbl g = some g' ∧ g'.name = g ∧ rank g < rank self

/-- acyclic reference graph: every group of the table is well formed w.r.t. a rank function -/
def Acyclic (tbl : List (Str × Group)) (rank : Str → Nat) : Prop :=
  ∀ k g, dictGet tbl k = some g → WellFormed tbl rank g.name g.members

theorem expandList_flatten (names tbl) (rank : Str → Nat) (recur : Group → Except Err (List Str))
    (self : Str)
    (hrec : ∀ g g', dictGet tbl g = some g' → g'.name = g → rank g < rank self →
      ∃ l, recur g' = .ok l ∧ Flatten names tbl g'.members l)
    (ms : List Member) (hwf : WellFormed tbl rank self ms) :
    ∃ l, expandList names tbl recur self ms = .ok l ∧ Flatten names tbl ms l := by
  induction ms with
  | nil => exact ⟨[], rfl, .nil⟩
  | cons m ms ih =>
    obtain ⟨l, hl, hf⟩ := ih (fun m' hm' => hwf m' (by simp [hm']))
    have hm := hwf m (by simp)
    cases m with
    | host h => exact ⟨_, by simp [expandList, plainMember, hl, bind, Except.bind], .host hf⟩
    | net n k =>
      by_cases hk : k = mask32
      · subst hk; exact ⟨_, by simp [expandList, plainMember, hl, bind, Except.bind], .net32 hf⟩
      · exact ⟨_, by simp [expandList, plainMember, hk, hl, bind, Except.bind], .net hk hf⟩
    | descr => exact ⟨l, by simp [expandList, plainMember, hl, bind, Except.bind], .descr hf⟩
    | bad => exact absurd rfl hm.1
    | grp g =>
      obtain ⟨g', hg', hname, hrank⟩ := hm.2 g rfl
      obtain ⟨l', hl', hf'⟩ := hrec g g' hg' hname hrank
      have hne : g ≠ self := by intro h; subst h; omega
      exact ⟨l' ++ l, by simp [expandList, plainMember, hne, hg', hl', hl, bind, Except.bind], .grp hg' hf' hf⟩


theorem expand_flatten (names tbl) (rank : Str → Nat) (hac : Acyclic tbl rank) :
    ∀ (fuel : Nat) (g : Group), WellFormed tbl rank g.name g.members → rank g.name ≤ fuel →
      ∃ l, expand names tbl fuel g = .ok l ∧ Flatten names tbl g.members l := by
  intro fuel
  induction fuel with
  | zero =>
    intro g hwf hr
    exact expandList_flatten names tbl rank _ g.name (fun k g' _ _ hlt => by omega) g.members hwf
  | succ f ih =>
    intro g hwf hr
    refine expandList_flatten names tbl rank _ g.name ?_ g.members hwf
    intro k g' hk hname hlt
    have := hac k g' hk
    exact ih g' this (by rw [hname]; omega)

/-! ### any rank function can be replaced by one bounded by the number of table entries -/

theorem dictGet_foldl_mem {α : Type} (defs : List (Str × α)) (k : Str) (init : Option α) (v : α)
    (h : defs.foldl (fun acc p => if p.1 = k then some p.2 else acc) init = some v) :
    init = some v ∨ k ∈ defs.map (·.1) := by
  induction defs generalizing init with
  | nil => left; simpa using h
  | cons p ps ih =>
    simp only [List.foldl_cons] at h
    rcases ih _ h with h' | h'
    · by_cases hp : p.1 = k
      · right; simp [hp]
      · left; simpa [hp] using h'
    · right; simp [h']

theorem dictGet_mem_keys {α : Type} (defs : List (Str × α)) (k : Str) (v : α)
    (h : dictGet defs k = some v) : k ∈ defs.map (·.1) := by
  rcases dictGet_foldl_mem defs k none v h with h | h
  · cases h
  · exact h

theorem countP_lt_of_witness (l : List Str) (p q : Str → Bool) (himp : ∀ x, p x = true → q x = true)
    (m : Str) (hm : m ∈ l) (hq : q m = true) (hp : p m = false) : l.countP p < l.countP q := by
  induction l with
  | nil => cases hm
  | cons a as ih =>
    have hle : as.countP p ≤ as.countP q := List.countP_mono_left (fun x _ => himp x)
    rcases List.mem_cons.mp hm with h | h
    · subst h; simp only [List.countP_cons, hq, hp, if_true, Bool.false_eq_true, if_false]; omega
    · have := ih h
      simp only [List.countP_cons]
      by_cases hpa : p a = true
      · simp [hpa, himp a hpa]; omega
      · simp [hpa]; split <;> omega

/-- the number of table keys of smaller rank -/
def boundedRank (tbl : List (Str × Group)) (rank : Str → Nat) (n : Str) : Nat :=
  (tbl.map (·.1)).countP (fun k => rank k < rank n)

theorem boundedRank_le (tbl rank n) : boundedRank tbl rank n ≤ tbl.length := by
  unfold boundedRank; have := List.countP_le_length (p := fun k => decide (rank k < rank n)) (l := tbl.map (·.1)); simpa using this

theorem boundedRank_lt (tbl : List (Str × Group)) (rank : Str → Nat) (g self : Str) (hg : g ∈ tbl.map (·.1))
    (h : rank g < rank self) : boundedRank tbl rank g < boundedRank tbl rank self := by
  unfold boundedRank
  apply countP_lt_of_witness _ _ _ _ g hg
  · simpa using h
  · simp
  · intro x hx; simp at hx ⊢; omega

theorem wellFormed_bounded (tbl rank self ms) (h : WellFormed tbl rank self ms) :
    WellFormed tbl (boundedRank tbl rank) self ms := by
  intro m hm
  refine ⟨(h m hm).1, ?_⟩
  intro g hg
  obtain ⟨g', h1, h2, h3⟩ := (h m hm).2 g hg
  exact ⟨g', h1, h2, boundedRank_lt tbl rank g self (dictGet_mem_keys tbl g g' h1) h3⟩

/-- with the fuel the model uses (`number of table entries + 1`) every acyclic group expands -/
theorem expand_flatten_model_fuel (names tbl) (rank : Str → Nat) (hac : Acyclic tbl rank) (g : Group)
    (hwf : WellFormed tbl rank g.name g.members) :
    ∃ l, expand names tbl (tbl.length + 1) g = .ok l ∧ Flatten names tbl g.members l := by
  apply expand_flatten names tbl (boundedRank tbl rank)
  · intro k g' hk; exact wellFormed_bounded _ _ _ _ (hac k g' hk)
  · exact wellFormed_bounded _ _ _ _ hwf
  · have := boundedRank_le tbl rank g.name; omega

/-! ### dictionaries -/
theorem dict_foldl_init {α : Type} (d : List (Str × α)) (k : Str) (init : Option α) :
    d.foldl (fun acc p => if p.1 = k then some p.2 else acc) init =
      (d.foldl (fun acc p => if p.1 = k then some p.2 else acc) none).or init := by
  induction d generalizing init with
  | nil => simp
  | cons p ps ih =>
    simp only [List.foldl_cons]
    rw [ih, ih (init := if p.1 = k then some p.2 else none)]
    by_cases hp : p.1 = k
    · simp [hp]
    · simp [hp]

theorem dictGet_append {α : Type} (d₁ d₂ : List (Str × α)) (k : Str) :
    dictGet (d₁ ++ d₂) k = (dictGet d₂ k).or (dictGet d₁ k) := by
  unfold dictGet
  rw [List.foldl_append, dict_foldl_init]

theorem dictGet_cons {α : Type} (p : Str × α) (ps : List (Str × α)) (k : Str) :
    dictGet (p :: ps) k = (dictGet ps k).or (if p.1 = k then some p.2 else none) := by
  have := dictGet_append [p] ps k
  simpa [dictGet] using this

theorem dictGet_eq_none_iff {α : Type} (defs : List (Str × α)) (k : Str) :
    dictGet defs k = none ↔ k ∉ defs.map (·.1) := by
  induction defs with
  | nil => simp [dictGet]
  | cons p ps ih =>
    rw [dictGet_cons]
    by_cases hp : p.1 = k
    · simp [hp]
    · simp [hp, ih, Ne.symm hp]

/-- **last definition wins**: the table answers `v` for `k` exactly when some definition `(k, v)` is
followed by no further definition of `k` -/
theorem dictGet_eq_some_iff {α : Type} (defs : List (Str × α)) (k : Str) (v : α) :
    dictGet defs k = some v ↔
      ∃ pre post, defs = pre ++ (k, v) :: post ∧ k ∉ post.map (·.1) := by
  induction defs with
  | nil => simp [dictGet]
  | cons p ps ih =>
    rw [dictGet_cons]
    constructor
    · intro h
      cases hps : dictGet ps k with
      | some w =>
        rw [hps] at h; simp at h; subst h
        obtain ⟨pre, post, he, hn⟩ := (ih).mp hps
        exact ⟨p :: pre, post, by simp [he], hn⟩
      | none =>
        rw [hps] at h; simp at h
        obtain ⟨h1, h2⟩ := h
        refine ⟨[], ps, ?_, (dictGet_eq_none_iff ps k).mp hps⟩
        cases p; simp at h1 h2 ⊢; exact ⟨h1, h2⟩
    · rintro ⟨pre, post, he, hn⟩
      cases pre with
      | nil =>
        simp at he; obtain ⟨rfl, rfl⟩ := he
        have hnone := (dictGet_eq_none_iff _ k).mpr hn
        simp [hnone]
      | cons q qs =>
        simp at he; obtain ⟨rfl, rfl⟩ := he
        have := ih.mpr ⟨qs, post, rfl, hn⟩
        simp [this]

theorem nodup_eraseDups (l : List Str) : l.eraseDups.Nodup := by
  induction hn : l.length using Nat.strongRecOn generalizing l with
  | _ n ih =>
    cases l with
    | nil => simp
    | cons a as =>
      rw [List.eraseDups_cons, List.nodup_cons]
      constructor
      · rw [List.mem_eraseDups]; simp
      · exact ih _ (by subst hn; simp; exact Nat.lt_succ_of_le (List.length_filter_le _ _)) _ rfl

/-- the items of a table: one per defined key, carrying the last definition -/
theorem mem_dictItems {α : Type} (defs : List (Str × α)) (k : Str) (v : α) :
    (k, v) ∈ dictItems defs ↔ dictGet defs k = some v := by
  unfold dictItems
  simp only [List.mem_filterMap, List.mem_eraseDups, Option.map_eq_some_iff]
  constructor
  · rintro ⟨k', _, w, hw, heq⟩; cases heq; exact hw
  · intro h; exact ⟨k, dictGet_mem_keys defs k v h, v, h, rfl⟩

theorem mem_multiItems {α : Type} (defs : List (Str × α)) (k : Str) (vs : List α) :
    (k, vs) ∈ multiItems defs ↔ k ∈ defs.map (·.1) ∧ vs = (defs.filter (·.1 = k)).map (·.2) := by
  unfold multiItems multiGet
  simp only [List.mem_map, List.mem_eraseDups]
  constructor
  · rintro ⟨k', hk', heq⟩; cases heq; exact ⟨hk', rfl⟩
  · rintro ⟨h, rfl⟩; exact ⟨k, h, rfl⟩


/-! ### canonical text of a port specification -/

/-- `eq N`, `range A B`, `lt N`, `gt N`, `neq N` with decimal operands -/
def specText : PortOp → Str
  | .eq n => "eq ".toList ++ toDec n
  | .range a b => "range ".toList ++ (toDec a ++ ' ' :: toDec b)
  | .lt n => "lt ".toList ++ toDec n
  | .gt n => "gt ".toList ++ toDec n
  | .neq n => "neq ".toList ++ toDec n

/-- the operand bounds under which the operator denotes a non-empty subset of 1..65535 -/
def valid : PortOp → Bool
  | .eq n => 1 ≤ n && n ≤ 65535
  | .range a b => 1 ≤ a && a ≤ b && b ≤ 65535
  | .lt n => 2 ≤ n && n ≤ 65535
  | .gt n => 1 ≤ n && n ≤ 65534
  | .neq n => 1 ≤ n && n ≤ 65535

theorem ladder_specText (tbl : List (String × Nat)) (ht : noDigitNames tbl = true) (op : PortOp) :
    ladder tbl (specText op) = if valid op then .ok op else .error .requirementFailure := by
  cases op with
  | eq n => show ladder tbl ("eq ".toList ++ toDec n) = _; rw [ladder_eq tbl ht n]; simp [valid]
  | lt n => show ladder tbl ("lt ".toList ++ toDec n) = _; rw [ladder_lt tbl ht n]; simp [valid]
  | gt n => show ladder tbl ("gt ".toList ++ toDec n) = _; rw [ladder_gt tbl ht n]; simp [valid]
  | neq n => show ladder tbl ("neq ".toList ++ toDec n) = _; rw [ladder_neq tbl ht n]; simp [valid]
  | range a b =>
    show ladder tbl ("range ".toList ++ (toDec a ++ ' ' :: toDec b)) = _
    rw [ladder_range tbl ht a b]
    simp only [valid]
    by_cases h1 : b < a
    · have : ¬ a ≤ b := by omega
      simp [h1, this]
    · have : a ≤ b := by omega
      simp [h1, this]

theorem last_toDec_not_space (pre : Str) (n : Nat) (c : Char) (h : (pre ++ toDec n).getLast? = some c) :
    isSpace c = false := by
  rw [List.getLast?_append] at h
  cases hl : (toDec n).getLast? with
  | none => exact absurd (List.getLast?_eq_none_iff.mp hl) (toDec_ne_nil n)
  | some x =>
    rw [hl] at h; simp at h; subst h
    exact toDec_space_free n x (List.mem_of_mem_getLast? hl)

theorem kw_initials_not_space : ∀ c ∈ ['e', 'r', 'l', 'g', 'n'], isSpace c = false := by decide +kernel

theorem strip_specText (op : PortOp) : strip (specText op) = specText op := by
  apply strip_id
  · intro c hc
    cases op with
    | eq n => have e : (specText (.eq n)).head? = some 'e' := rfl
              rw [e] at hc; cases hc; exact kw_initials_not_space _ (by simp)
    | range a b => have e : (specText (.range a b)).head? = some 'r' := rfl
                   rw [e] at hc; cases hc; exact kw_initials_not_space _ (by simp)
    | lt n => have e : (specText (.lt n)).head? = some 'l' := rfl
              rw [e] at hc; cases hc; exact kw_initials_not_space _ (by simp)
    | gt n => have e : (specText (.gt n)).head? = some 'g' := rfl
              rw [e] at hc; cases hc; exact kw_initials_not_space _ (by simp)
    | neq n => have e : (specText (.neq n)).head? = some 'n' := rfl
               rw [e] at hc; cases hc; exact kw_initials_not_space _ (by simp)
  · intro c hc
    cases op with
    | range a b =>
      change ("range ".toList ++ (toDec a ++ ' ' :: toDec b)).getLast? = some c at hc
      have e : "range ".toList ++ (toDec a ++ ' ' :: toDec b) = ("range ".toList ++ toDec a ++ [' ']) ++ toDec b := by simp
      rw [e] at hc
      exact last_toDec_not_space ("range ".toList ++ toDec a ++ [' ']) b c hc
    | eq n => exact last_toDec_not_space "eq ".toList n c hc
    | lt n => exact last_toDec_not_space "lt ".toList n c hc
    | gt n => exact last_toDec_not_space "gt ".toList n c hc
    | neq n => exact last_toDec_not_space "neq ".toList n c hc

/-- the two protocols `L4Object` knows -/
def isProto (p : Str) : Prop := p = "tcp".toList ∨ p = "udp".toList

theorem parseSpec_specText (proto : Str) (hp : isProto proto) (op : PortOp) :
    parseSpec proto "asa".toList (specText op) = if valid op then .ok op else .error .requirementFailure := by
  rcases hp with rfl | rfl
  · simp only [parseSpec, strip_specText]
    rw [← ladder_specText _ tcp_noDigitNames op]
    simp
  · simp only [parseSpec, strip_specText]
    rw [← ladder_specText _ udp_noDigitNames op]
    simp

theorem parseSpec_bare (proto : Str) (hp : isProto proto) (n : Nat) :
    parseSpec proto "asa".toList (toDec n) = if valid (.eq n) then .ok (.eq n) else .error .requirementFailure := by
  have hv : (valid (.eq n) = true) ↔ (1 ≤ n ∧ n ≤ 65535) := by simp [valid]
  rcases hp with rfl | rfl
  · simp only [parseSpec, strip_toDec, ladder_bare _ tcp_noDigitNames n, hv]
    simp
  · simp only [parseSpec, strip_toDec, ladder_bare _ udp_noDigitNames n, hv]
    simp


/-- the exception class of a failed call -/
def errOf {α : Type} : Except Err α → Option Err
  | .error e => some e
  | .ok _ => none

/-! ### named services -/
def okIs (r : Except Err PortOp) (op : PortOp) : Bool :=
  match r with
  | .ok o => o == op
  | .error _ => false

theorem okIs_eq {r : Except Err PortOp} {op : PortOp} (h : okIs r op = true) : r = .ok op := by
  cases r with
  | error e => simp [okIs] at h
  | ok o => simp [okIs] at h; rw [h]

/-- every operator, written with the service name `p.1`, parses to the operator over the number `p.2` -/
def namedOk (proto : Str) (p : String × Nat) : Bool :=
  let nm := p.1.toList
  okIs (parseSpec proto "asa".toList ("eq ".toList ++ nm)) (.eq p.2) &&
  okIs (parseSpec proto "asa".toList nm) (.eq p.2) &&
  okIs (parseSpec proto "asa".toList ("neq ".toList ++ nm)) (.neq p.2) &&
  okIs (parseSpec proto "asa".toList ("lt ".toList ++ nm)) (.lt p.2) &&
  okIs (parseSpec proto "asa".toList ("gt ".toList ++ nm)) (.gt p.2) &&
  okIs (parseSpec proto "asa".toList ("range ".toList ++ (nm ++ ' ' :: nm))) (.range p.2 p.2)

theorem tcp_named : Gen.asaTcpPorts.all (namedOk "tcp".toList) = true := by decide +kernel
theorem udp_named : Gen.asaUdpPorts.all (namedOk "udp".toList) = true := by decide +kernel

theorem tcp_in_range : Gen.asaTcpPorts.all (fun p => 1 ≤ p.2 && p.2 ≤ 65535) = true := by decide +kernel
theorem udp_in_range : Gen.asaUdpPorts.all (fun p => 1 ≤ p.2 && p.2 ≤ 65535) = true := by decide +kernel

end Ccp.Asa
