import Ccp.Proofs.EditFrame
/-!
Prefix locality of the parent links (C06 deepening, banner / macro configs included): the
parents of the first `n` lines after passes 1–3 depend on the first `n` lines only.  Pass 1
looks backwards; a banner / macro walk goes forwards from its start line and writes its own
index as parent, so what it does to the lines before `n` is decided by the lines before `n`.
Hence an edit never changes the parent of a line above the edited position, in any config.
Core Lean only.
-/
namespace Ccp.Tree
open Ccp.Py

/-- the parents of the first `n` lines agree -/
def Pre (n : Nat) (t1 t2 : T) : Prop := t1.parents.take n = t2.parents.take n

theorem take_set_ge {α} (l : List α) (n c : Nat) (x : α) (h : n ≤ c) : (l.set c x).take n = l.take n := by
  rw [List.take_set]
  apply List.set_eq_of_length_le
  simp; omega

theorem pre_reparent_beyond {n : Nat} {t1 t2 : T} (h : Pre n t1 t2) (p c : Nat) (hc : n ≤ c) :
    Pre n (reparent t1 p c) t2 := by
  unfold Pre reparent at *
  simp only
  rw [take_set_ge _ _ _ _ hc]; exact h

theorem pre_reparent_both {n : Nat} {t1 t2 : T} (h : Pre n t1 t2) (p c : Nat) :
    Pre n (reparent t1 p c) (reparent t2 p c) := by
  unfold Pre reparent at *
  simp only
  rw [List.take_set, List.take_set, h]

theorem pre_setKeep_left {n : Nat} {t1 t2 : T} (h : Pre n t1 t2) (i : Nat) : Pre n (setKeep t1 i) t2 := h
theorem pre_setKeep_both {n : Nat} {t1 t2 : T} (h : Pre n t1 t2) (i j : Nat) :
    Pre n (setKeep t1 i) (setKeep t2 j) := h

/-! ### banners -/

theorem bannerWalk_beyond (d : Char) (p n : Nat) (rest : List Str) :
    ∀ (idx : Nat) (t1 t2 : T), n ≤ idx → Pre n t1 t2 → Pre n (bannerWalk d p idx rest t1) t2 := by
  induction rest with
  | nil => intro _ _ _ _ h; exact h
  | cons x r ih =>
    intro idx t1 t2 hi h
    unfold bannerWalk
    split
    · exact pre_reparent_beyond h p idx hi
    · exact ih (idx + 1) _ t2 (by omega) (pre_setKeep_left (pre_reparent_beyond h p idx hi) idx)

theorem bannerWalk_sim (d : Char) (p n : Nat) (B : List Str) (r1 : List Str) :
    ∀ (idx : Nat) (t1 t2 : T), idx + r1.length = n → Pre n t1 t2 →
      Pre n (bannerWalk d p idx (r1 ++ B) t1) (bannerWalk d p idx r1 t2) := by
  induction r1 with
  | nil =>
    intro idx t1 t2 hi h
    simp only [List.nil_append]
    show Pre n _ t2
    exact bannerWalk_beyond d p n B idx t1 t2 (by simp at hi; omega) h
  | cons x r ih =>
    intro idx t1 t2 hi h
    simp only [List.cons_append]
    unfold bannerWalk
    split
    · exact pre_reparent_both h p idx
    · exact ih (idx + 1) _ _ (by simp at hi; omega) (pre_setKeep_both (pre_reparent_both h p idx) idx idx)

theorem markBanner_beyond {n : Nat} {t1 t2 : T} (h : Pre n t1 t2) (p : Nat) (x : Str) (hp : n ≤ p) :
    Pre n (markBanner t1 p x) t2 := by
  unfold markBanner
  split
  · exact h
  · split
    · exact h
    · exact bannerWalk_beyond _ p n _ (p + 1) _ t2 (by omega) (pre_setKeep_left h p)

theorem markBanner_sim {n : Nat} {t1 t2 : T} {A B : List Str} (h : Pre n t1 t2) (hn : A.length = n)
    (h1 : t1.texts = A ++ B) (h2 : t2.texts = A) (p : Nat) (x : Str) (hp : p < n) :
    Pre n (markBanner t1 p x) (markBanner t2 p x) := by
  unfold markBanner
  split
  · exact h
  · split
    · exact h
    · rename_i d _ _
      have e1 : t1.texts.drop (p + 1) = A.drop (p + 1) ++ B := by
        rw [h1, List.drop_append_of_le_length (by omega)]
      have e2 : t2.texts.drop (p + 1) = A.drop (p + 1) := by rw [h2]
      show Pre n (bannerWalk d p (p + 1) (t1.texts.drop (p + 1)) (setKeep t1 p))
        (bannerWalk d p (p + 1) (t2.texts.drop (p + 1)) (setKeep t2 p))
      rw [e1, e2]
      exact bannerWalk_sim _ p n B (A.drop (p + 1)) (p + 1) _ _ (by simp; omega) (pre_setKeep_both h p p)

theorem markBannersFrom_beyond (n : Nat) (l : List Str) :
    ∀ (i : Nat) (t1 t2 : T), n ≤ i → Pre n t1 t2 → Pre n (markBannersFrom i l t1) t2 := by
  induction l with
  | nil => intro _ _ _ _ h; exact h
  | cons x r ih =>
    intro i t1 t2 hi h
    unfold markBannersFrom
    apply ih (i + 1) _ t2 (by omega)
    split
    · exact markBanner_beyond h i x hi
    · exact h

theorem markBannersFrom_sim (n : Nat) (A B : List Str) (hn : A.length = n) (r1 : List Str) :
    ∀ (i : Nat) (t1 t2 : T), i + r1.length = n → t1.texts = A ++ B → t2.texts = A → Pre n t1 t2 →
      Pre n (markBannersFrom i (r1 ++ B) t1) (markBannersFrom i r1 t2) ∧
      (markBannersFrom i (r1 ++ B) t1).texts = A ++ B ∧ (markBannersFrom i r1 t2).texts = A := by
  induction r1 with
  | nil =>
    intro i t1 t2 hi h1 h2 h
    simp only [List.nil_append]
    refine ⟨?_, by rw [markBannersFrom_texts]; exact h1, h2⟩
    show Pre n _ t2
    exact markBannersFrom_beyond n B i t1 t2 (by simp at hi; omega) h
  | cons x r ih =>
    intro i t1 t2 hi h1 h2 h
    simp only [List.cons_append]
    unfold markBannersFrom
    apply ih (i + 1) _ _ (by simp at hi; omega)
    · split
      · rw [markBanner_texts]; exact h1
      · exact h1
    · split
      · rw [markBanner_texts]; exact h2
      · exact h2
    · split
      · exact markBanner_sim h hn h1 h2 i x (by simp at hi; omega)
      · exact h

/-! ### macros -/

theorem macroWalk_beyond (p n : Nat) (rest : List Str) :
    ∀ (idx : Nat) (t1 t2 : T), n ≤ idx → Pre n t1 t2 → Pre n (macroWalk p idx rest t1) t2 := by
  induction rest with
  | nil => intro _ _ _ _ h; exact h
  | cons x r ih =>
    intro idx t1 t2 hi h
    unfold macroWalk
    have h' : Pre n (reparent (setKeep t1 idx) p idx) t2 := pre_reparent_beyond (pre_setKeep_left h idx) p idx hi
    dsimp only
    split
    · exact h'
    · exact ih (idx + 1) _ t2 (by omega) h'

theorem macroWalk_sim (p n : Nat) (B : List Str) (r1 : List Str) :
    ∀ (idx : Nat) (t1 t2 : T), idx + r1.length = n → Pre n t1 t2 →
      Pre n (macroWalk p idx (r1 ++ B) t1) (macroWalk p idx r1 t2) := by
  induction r1 with
  | nil =>
    intro idx t1 t2 hi h
    simp only [List.nil_append]
    show Pre n _ t2
    exact macroWalk_beyond p n B idx t1 t2 (by simp at hi; omega) h
  | cons x r ih =>
    intro idx t1 t2 hi h
    simp only [List.cons_append]
    unfold macroWalk
    have h' : Pre n (reparent (setKeep t1 idx) p idx) (reparent (setKeep t2 idx) p idx) :=
      pre_reparent_both (pre_setKeep_both h idx idx) p idx
    dsimp only
    split
    · exact h'
    · exact ih (idx + 1) _ _ (by simp at hi; omega) h'

theorem markMacrosFrom_beyond (n : Nat) (l : List Str) :
    ∀ (i : Nat) (t1 t2 : T), n ≤ i → Pre n t1 t2 → Pre n (markMacrosFrom i l t1) t2 := by
  induction l with
  | nil => intro _ _ _ _ h; exact h
  | cons x r ih =>
    intro i t1 t2 hi h
    unfold markMacrosFrom
    apply ih (i + 1) _ t2 (by omega)
    split
    · exact macroWalk_beyond i n _ (i + 1) _ t2 (by omega) (pre_setKeep_left h i)
    · exact h

theorem markMacrosFrom_sim (n : Nat) (A B : List Str) (hn : A.length = n) (r1 : List Str) :
    ∀ (i : Nat) (t1 t2 : T), i + r1.length = n → t1.texts = A ++ B → t2.texts = A → Pre n t1 t2 →
      Pre n (markMacrosFrom i (r1 ++ B) t1) (markMacrosFrom i r1 t2) := by
  induction r1 with
  | nil =>
    intro i t1 t2 hi h1 h2 h
    simp only [List.nil_append]
    show Pre n _ t2
    exact markMacrosFrom_beyond n B i t1 t2 (by simp at hi; omega) h
  | cons x r ih =>
    intro i t1 t2 hi h1 h2 h
    simp only [List.cons_append]
    unfold markMacrosFrom
    have hin : i < n := by simp at hi; omega
    apply ih (i + 1) _ _ (by simp at hi; omega)
    · split
      · rw [macroWalk_texts]; exact h1
      · exact h1
    · split
      · rw [macroWalk_texts]; exact h2
      · exact h2
    · split
      · have e1 : t1.texts.drop (i + 1) = A.drop (i + 1) ++ B := by
          rw [h1, List.drop_append_of_le_length (by omega)]
        have e2 : t2.texts.drop (i + 1) = A.drop (i + 1) := by rw [h2]
        rw [e1, e2]
        exact macroWalk_sim i n B (A.drop (i + 1)) (i + 1) _ _ (by simp; omega) (pre_setKeep_both h i i)
      · exact h

/-! ### passes 1–3 -/

theorem linkByIndent_prefix (cfg : Cfg) (A B : List Str) :
    (linkByIndent cfg (A ++ B)).take A.length = linkByIndent cfg A := by
  rw [linkByIndent_eq_map, linkByIndent_eq_map]
  simp only [List.length_append, ← List.map_take]
  have : (List.range (A.length + B.length)).take A.length = List.range A.length := by
    rw [List.take_range]; congr 1; omega
  rw [this]
  apply List.map_congr_left
  intro j hj
  have hj' : j < A.length := List.mem_range.mp hj
  apply specParent_congr
  intro m hm
  simp only [List.map_append]
  rw [List.getElem?_append_left (by simp; omega)]

/-- **prefix locality**: the parents of the first `|A|` lines of `A ++ B` after passes 1–3 are
those of `A` alone — banner and macro starts anywhere included -/
theorem link_prefix (cfg : Cfg) (A B : List Str) :
    (link cfg (A ++ B)).parents.take A.length = (link cfg A).parents.take A.length := by
  unfold link
  have h0 : Pre A.length
      { texts := A ++ B, parents := linkByIndent cfg (A ++ B), keep := (A ++ B).map (fun _ => false) }
      { texts := A, parents := linkByIndent cfg A, keep := A.map (fun _ => false) } := by
    unfold Pre
    simp only
    rw [linkByIndent_prefix]
    have : (linkByIndent cfg A).length = A.length := linkByIndent_length_ll cfg A
    rw [List.take_of_length_le (by omega)]
  obtain ⟨hb, hb1, hb2⟩ := markBannersFrom_sim A.length A B rfl A 0 _ _ (by simp) rfl rfl h0
  unfold markBanners markMacros
  simp only
  split
  · rw [hb1, hb2]
    exact markMacrosFrom_sim A.length A B rfl A 0 _ _ (by simp) hb1 hb2 hb
  · exact hb

/-- two configs with the same first `|A|` lines give these lines the same parents -/
theorem link_parent_prefix (cfg : Cfg) (A B B' : List Str) (j : Nat) (hj : j < A.length) :
    parentOf (link cfg (A ++ B)) j = parentOf (link cfg (A ++ B')) j := by
  have h : (link cfg (A ++ B)).parents.take A.length = (link cfg (A ++ B')).parents.take A.length := by
    rw [link_prefix, link_prefix]
  have h' := congrArg (fun l => l[j]?) h
  simp only [List.getElem?_take, hj, if_true] at h'
  unfold parentOf
  rw [List.getD_eq_getElem?_getD, List.getD_eq_getElem?_getD, h']

/-- the same for `parse` when blank lines are kept -/
theorem parse_parent_prefix (cfg : Cfg) (hi : cfg.ignoreBlank = false) (ls ls' : List Str) (n : Nat)
    (hn : n ≤ ls.length) (h : ls'.take n = ls.take n) (j : Nat) (hj : j < n) :
    parentOf (parse cfg ls') j = parentOf (parse cfg ls) j := by
  rw [Ccp.Edit.parse_eq_bootstrap, Ccp.Edit.parse_eq_bootstrap, Ccp.Edit.bootstrap_noignore cfg _ hi,
    Ccp.Edit.bootstrap_noignore cfg _ hi]
  have e1 : ls' = ls.take n ++ ls'.drop n := by rw [← h]; simp
  have g1 : parentOf (link cfg ls') j = parentOf (link cfg (ls.take n ++ ls'.drop n)) j := by rw [← e1]
  have g2 : parentOf (link cfg ls) j = parentOf (link cfg (ls.take n ++ ls.drop n)) j := by
    rw [List.take_append_drop]
  rw [g1, g2]
  exact link_parent_prefix cfg (ls.take n) _ _ j (by simp; omega)

end Ccp.Tree

namespace Ccp.Edit
open Ccp.Py Ccp.Tree

/-- the state after a step from a committed auto-commit state is committed again, and holds
the parse of its texts -/
theorem step_tree_parse (s : S) (op : Op) (hd : s.dirty = false) (hinv : FreshInv s) (ha : s.auto = true) :
    (step s op).1.tree = parse s.cfg (step s op).1.texts := by
  have hinv' := step_fresh s op hinv
  have hcfg := (step_frame s op).1
  have hd' : (step s op).1.dirty = false := by
    rcases step_cases s op with e | e | ⟨its, st, e, _⟩ <;> rw [e]
    · exact hd
    · rfl
    · rw [autoCommit_on _ (show ({ s with items := its, stale := st, dirty := true } : S).auto = true from ha)]; rfl
  rw [← hcfg]
  exact (hinv' hd').1

/-- **no edit changes the parent of a line above the edited position — in any config, banner
and macro families included** (blank lines kept): if the step leaves the first `n` lines as
they were, these lines keep their parents -/
theorem above_edit_parents (s : S) (op : Op) (hd : s.dirty = false) (hinv : FreshInv s) (ha : s.auto = true)
    (hig : s.cfg.ignoreBlank = false) (n : Nat) (hn : n ≤ s.texts.length)
    (hpre : (step s op).1.texts.take n = s.texts.take n) :
    ∀ j, j < n → parentOf (step s op).1.tree j = parentOf s.tree j := by
  intro j hj
  rw [step_tree_parse s op hd hinv ha, (hinv hd).1]
  exact parse_parent_prefix s.cfg hig _ _ n hn hpre j hj

end Ccp.Edit
