import Ccp.Model.RangeX
import Ccp.Proofs.Range
/-! Helper lemmas for the option forms of `CiscoRange` on integers (`Ccp.Model.RangeX`). -/
namespace Ccp.RangeX
open Ccp.Py Ccp.Range

-- so that closed examples about `Except` values are decided by evaluation
deriving instance DecidableEq for Except

theorem mem_insertDup (x y : Nat) (l : List Nat) : y ∈ insertDup x l ↔ y = x ∨ y ∈ l := by
  induction l with
  | nil => simp [insertDup]
  | cons a l ih =>
    unfold insertDup
    split
    · simp
    · simp [ih]; grind

theorem length_insertDup (x : Nat) (l : List Nat) : (insertDup x l).length = l.length + 1 := by
  induction l with
  | nil => simp [insertDup]
  | cons a l ih => unfold insertDup; split <;> simp [ih]

theorem count_insertDup (x y : Nat) (l : List Nat) :
    (insertDup x l).count y = l.count y + (if x = y then 1 else 0) := by
  induction l with
  | nil => simp [insertDup, List.count_cons]
  | cons a l ih =>
    unfold insertDup
    split
    · simp [List.count_cons]
    · simp [List.count_cons, ih]; omega

theorem insertDup_sorted (x : Nat) (l : List Nat) (h : l.Pairwise (· ≤ ·)) :
    (insertDup x l).Pairwise (· ≤ ·) := by
  induction l with
  | nil => simp [insertDup]
  | cons a l ih =>
    unfold insertDup
    split
    · rename_i hxa
      rw [List.pairwise_cons] at h
      refine List.pairwise_cons.mpr ⟨?_, List.pairwise_cons.mpr h⟩
      intro y hy
      rcases List.mem_cons.mp hy with rfl | hy
      · exact hxa
      · exact Nat.le_trans hxa (h.1 y hy)
    · rename_i hxa
      rw [List.pairwise_cons] at h
      refine List.pairwise_cons.mpr ⟨?_, ih h.2⟩
      intro y hy
      rcases (mem_insertDup x y l).mp hy with rfl | hy
      · omega
      · exact h.1 y hy

theorem mem_sortDup (l : List Nat) (y : Nat) : y ∈ sortDup l ↔ y ∈ l := by
  induction l with
  | nil => simp [sortDup]
  | cons a l ih =>
    have : sortDup (a :: l) = insertDup a (sortDup l) := rfl
    rw [this, mem_insertDup, ih]; simp

theorem length_sortDup (l : List Nat) : (sortDup l).length = l.length := by
  induction l with
  | nil => rfl
  | cons a l ih =>
    have : sortDup (a :: l) = insertDup a (sortDup l) := rfl
    rw [this, length_insertDup, ih]; simp

theorem count_sortDup (l : List Nat) (y : Nat) : (sortDup l).count y = l.count y := by
  induction l with
  | nil => rfl
  | cons a l ih =>
    have : sortDup (a :: l) = insertDup a (sortDup l) := rfl
    rw [this, count_insertDup, ih, List.count_cons]
    by_cases h : a = y <;> simp [h]

theorem sortDup_sorted (l : List Nat) : (sortDup l).Pairwise (· ≤ ·) := by
  induction l with
  | nil => simp [sortDup]
  | cons a l ih => exact insertDup_sorted a _ ih

/-- inserting a value that is not there: `sorted` and `sorted(set(..))` do the same -/
theorem insertDup_eq_insertAsc (x : Nat) (l : List Nat) (h : x ∉ l) : insertDup x l = insertAsc x l := by
  induction l with
  | nil => rfl
  | cons a l ih =>
    have hxa : x ≠ a := fun e => h (by simp [e])
    have hl : x ∉ l := fun e => h (by simp [e])
    unfold insertDup insertAsc
    by_cases hlt : x < a
    · simp [hlt, Nat.le_of_lt hlt]
    · have : ¬ x ≤ a := by omega
      simp [hlt, this, hxa, ih hl]

theorem sortDup_eq_sortedSet (l : List Nat) (h : l.Nodup) : sortDup l = sortedSet l := by
  induction l with
  | nil => rfl
  | cons a l ih =>
    rw [List.nodup_cons] at h
    have e1 : sortDup (a :: l) = insertDup a (sortDup l) := rfl
    have e2 : sortedSet (a :: l) = insertAsc a (sortedSet l) := rfl
    rw [e1, e2, ih h.2]
    exact insertDup_eq_insertAsc a _ (fun hm => h.1 ((mem_sortedSet l a).mp hm))

theorem nodup_of_asc (d : List Nat) (hd : d.Pairwise (· < ·)) : d.Nodup :=
  hd.imp (fun h => Nat.ne_of_lt h)

theorem nodup_append_new (d : List Nat) (v : Nat) (hd : d.Pairwise (· < ·)) (hv : v ∉ d) :
    (d ++ [v]).Nodup := by
  rw [List.nodup_append]
  refine ⟨nodup_of_asc d hd, by simp, ?_⟩
  intro a ha b hb
  simp at hb
  subst hb
  exact fun e => hv (e ▸ ha)

theorem filter_length_lt_iff (d : List Nat) (v : Nat) :
    (d.filter (· != v)).length < d.length ↔ v ∈ d := by
  induction d with
  | nil => simp
  | cons a d ih =>
    by_cases h : a = v
    · subst h
      simp
      have := List.length_filter_le (· != a) d
      omega
    · have hne : (a != v) = true := by simp [h]
      simp [hne, ih]
      intro e; exact absurd e.symm h

end Ccp.RangeX
