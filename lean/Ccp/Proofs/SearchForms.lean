import Ccp.Proofs.Search
import Ccp.Model.SearchForms
/-!
Helper lemmas for the argument-form theorems of `Ccp.Props.C04` (`Ccp.SearchForms`).  Core library only.
-/
namespace Ccp.SearchForms
open Ccp.Tree Ccp.Search

theorem filter_range_eq (m n : Nat) (q : Nat → Bool) :
    (List.range m).filter (fun j => j == n && q j) = if n < m ∧ q n = true then [n] else [] := by
  induction m with
  | zero => simp
  | succ m ih =>
    rw [List.range_succ, List.filter_append, ih]
    by_cases h1 : n < m
    · have : ¬ (m = n) := by omega
      by_cases hq : q n = true <;> simp [h1, hq, this, Nat.lt_succ_of_lt h1]
    · by_cases h2 : m = n
      · subst h2
        by_cases hq : q m = true <;> simp [hq]
      · have : ¬ n < m + 1 := by omega
        simp [h1, h2, this]

theorem eqLines_eq (t : T) (a : Arg) :
    eqLines t a = if a.num < t.size ∧ t.texts.getD a.num [] = a.text then [a.num] else [] := by
  unfold eqLines
  rw [filter_range_eq]
  simp


theorem mem_revIf (b : Bool) (l : List Nat) (i : Nat) : i ∈ revIf b l ↔ i ∈ l := by
  unfold revIf; cases b <;> simp

theorem length_revIf (b : Bool) (l : List Nat) : (revIf b l).length = l.length := by
  unfold revIf; cases b <;> simp

end Ccp.SearchForms
