import Ccp.Model.Tree
/-!
Helper lemmas for C03 (family relations form a consistent forest). Core Lean only.

Specification vocabulary (`Forest`, `ancestors`, `IsAncestor`) first, then
* part 1: every pass of `bootstrap` keeps "the parent index of a line is ≤ its own index";
* part 2: the derived child lists;
* part 3: the family views, under `Forest`.
-/
namespace Ccp.Tree
open Ccp.Py

/-! ## specification vocabulary -/

/-- One parent index per line, and no line's parent comes after it.  Hence a line is a
root iff `parentOf t i = i`, and a parent strictly precedes each of its children. -/
def Forest (t : T) : Prop :=
  t.parents.length = t.texts.length ∧ ∀ i, i < t.size → parentOf t i ≤ i

/-- the chain parent, grandparent, … of line `j`, nearest first, ending with its root
(empty for a root) -/
def ancestors (t : T) (j : Nat) : List Nat :=
  if parentOf t j < j then parentOf t j :: ancestors t (parentOf t j) else []
termination_by j

/-- `a` is a proper ancestor of `j`: the transitive closure of "is the parent of" -/
inductive IsAncestor (t : T) : Nat → Nat → Prop
  | parent {j} : parentOf t j ≠ j → IsAncestor t (parentOf t j) j
  | step {a j} : parentOf t j ≠ j → IsAncestor t a (parentOf t j) → IsAncestor t a j

/-! ## part 1: the passes -/

theorem parentOf_le_of_forest {t : T} (h : Forest t) (i : Nat) : parentOf t i ≤ i := by
  by_cases hi : i < t.size
  · exact h.2 i hi
  · have : t.parents.length ≤ i := by have := h.1; simp only [T.size] at hi; omega
    simp [parentOf, List.getD_eq_getElem?_getD, List.getElem?_eq_none this]

/-- all entries of a parent list are ≤ their position (shifted by `base`) -/
def Below (ps : List Nat) (base : Nat) : Prop := ∀ k (h : k < ps.length), ps[k] ≤ base + k

theorem below_cons {p : Nat} {ps : List Nat} {base : Nat} (hp : p ≤ base) (h : Below ps (base + 1)) :
    Below (p :: ps) base := by
  intro k hk
  cases k with
  | zero => simpa using hp
  | succ k =>
    have := h k (by simpa using hk)
    simp only [List.getElem_cons_succ]; omega

/-- state invariant of the pass-1 loop before line `i`: the cache and the list of
processed lines only name lines before `i` -/
def StOk (st : St) (i : Nat) : Prop :=
  (∀ kp ∈ st.cache, kp.2 < i) ∧ (∀ x ∈ st.revPre, x.1 < i)

theorem lookup_lt {c : Cache} {k p i : Nat} (hc : ∀ kp ∈ c, kp.2 < i) (h : lookup c k = some p) :
    p < i := by
  induction c with
  | nil => simp [lookup] at h
  | cons a r ih =>
    obtain ⟨k', q⟩ := a
    simp only [lookup] at h
    split at h
    · cases h; exact hc (k', p) (by simp)
    · exact ih (fun kp hkp => hc kp (by simp [hkp])) h

theorem walkBack_lt {rp : List (Nat × Info)} {k p i : Nat} (hr : ∀ x ∈ rp, x.1 < i)
    (h : walkBack rp k = some p) : p < i := by
  induction rp with
  | nil => simp [walkBack] at h
  | cons a r ih =>
    obtain ⟨j, l⟩ := a
    simp only [walkBack] at h
    split at h
    · cases h; exact hr (p, l) (by simp)
    · exact ih (fun x hx => hr x (by simp [hx])) h

theorem maintain_ok {st : St} {i : Nat} (h : StOk st i) (l : Info) :
    (∀ kp ∈ (maintain st.cache st.mx l).1, kp.2 < i) ∧
    (∀ p, (maintain st.cache st.mx l).2 = some p → p < i) := by
  unfold maintain
  split
  · refine ⟨fun kp hkp => h.1 kp (List.mem_filter.mp hkp).1, ?_⟩
    intro p hp; cases hp
  · exact ⟨h.1, fun p hp => lookup_lt h.1 hp⟩

theorem build_ok {rp : List (Nat × Info)} {cp : Cache × Option Nat} {i : Nat} (l : Info)
    (hr : ∀ x ∈ rp, x.1 < i) (hc : ∀ kp ∈ cp.1, kp.2 < i) (hp : ∀ p, cp.2 = some p → p < i) :
    (∀ kp ∈ (build rp cp l).1, kp.2 < i) ∧ (∀ p, (build rp cp l).2 = some p → p < i) := by
  unfold build
  split
  · exact ⟨hc, fun p hp' => by cases hp'⟩
  · split
    · rename_i p hcp
      exact ⟨hc, fun q hq => by cases hq; exact hp _ hcp⟩
    · split
      · rename_i p hw
        have hlt := walkBack_lt hr hw
        refine ⟨?_, fun q hq => by cases hq; exact hlt⟩
        intro kp hkp
        rcases List.mem_cons.mp hkp with rfl | hkp
        · exact hlt
        · exact hc kp hkp
      · exact ⟨hc, fun p hp' => by cases hp'⟩

theorem attach_le {rp : List (Nat × Info)} {i : Nat} (l : Info) {cand : Option Nat}
    (h : ∀ p, cand = some p → p < i) : attach rp i l cand ≤ i := by
  unfold attach
  split
  · exact Nat.le_refl _
  · rename_i p
    have := h p rfl
    split
    · split <;> omega
    · omega

theorem step_ok {st : St} {i : Nat} (h : StOk st i) (l : Info) :
    StOk (step st i l).1 (i + 1) ∧ (step st i l).2 ≤ i := by
  have hm := maintain_ok h l
  have hb := build_ok (rp := st.revPre) (cp := maintain st.cache st.mx l) l h.2 hm.1 hm.2
  refine ⟨⟨?_, ?_⟩, ?_⟩
  · intro kp hkp
    have := hb.1 kp hkp
    omega
  · intro x hx
    simp only [step] at hx
    rcases List.mem_cons.mp hx with rfl | hx
    · simp
    · have := h.2 x hx; omega
  · exact attach_le l hb.2

theorem linkLoop_length (st : St) (i : Nat) (ls : List Info) : (linkLoop st i ls).length = ls.length := by
  induction ls generalizing st i with
  | nil => simp [linkLoop]
  | cons l ls ih => simp [linkLoop, ih]

theorem linkLoop_below {st : St} {i : Nat} (h : StOk st i) (ls : List Info) :
    Below (linkLoop st i ls) i := by
  induction ls generalizing st i with
  | nil => intro k hk; simp [linkLoop] at hk
  | cons l ls ih =>
    have hs := step_ok h l
    simp only [linkLoop]
    exact below_cons hs.2 (ih hs.1)

theorem linkByIndent_length (cfg : Cfg) (ls : List Str) : (linkByIndent cfg ls).length = ls.length := by
  simp [linkByIndent, linkLoop_length]

/-- pass 1: every parent index is ≤ the line's own index -/
theorem linkByIndent_below (cfg : Cfg) (ls : List Str) : Below (linkByIndent cfg ls) 0 :=
  linkLoop_below (by simp [StOk, St.init]) _

/-- the invariant carried through passes 2 and 3 -/
def Inv (n : Nat) (t : T) : Prop :=
  t.texts.length = n ∧ t.parents.length = n ∧ Below t.parents 0

theorem inv_setKeep {n : Nat} {t : T} (h : Inv n t) (i : Nat) : Inv n (setKeep t i) := h

theorem inv_reparent {n : Nat} {t : T} (h : Inv n t) {p c : Nat} (hpc : p ≤ c) : Inv n (reparent t p c) := by
  refine ⟨h.1, by simp [reparent, h.2.1], ?_⟩
  intro k hk
  simp only [reparent, List.getElem_set]
  split
  · omega
  · exact h.2.2 k (by simpa [reparent] using hk)

theorem setKeep_texts (t : T) (i : Nat) : (setKeep t i).texts = t.texts := rfl
theorem reparent_texts (t : T) (p c : Nat) : (reparent t p c).texts = t.texts := rfl

theorem inv_bannerWalk {n : Nat} (d : Char) (p : Nat) (idx : Nat) (rest : List Str) {t : T}
    (h : Inv n t) (hp : p ≤ idx) : Inv n (bannerWalk d p idx rest t) := by
  induction rest generalizing idx t with
  | nil => exact h
  | cons txt rest ih =>
    simp only [bannerWalk]
    split
    · exact inv_reparent h hp
    · exact ih (idx + 1) (inv_setKeep (inv_reparent h hp) idx) (by omega)

theorem inv_markBanner {n : Nat} {t : T} (h : Inv n t) (p : Nat) (txt : Str) : Inv n (markBanner t p txt) := by
  unfold markBanner
  split
  · exact inv_setKeep h p
  · split
    · exact inv_setKeep h p
    · exact inv_bannerWalk _ p (p + 1) _ (inv_setKeep h p) (by omega)

theorem inv_markBannersFrom {n : Nat} (i : Nat) (l : List Str) {t : T} (h : Inv n t) :
    Inv n (markBannersFrom i l t) := by
  induction l generalizing i t with
  | nil => exact h
  | cons txt rest ih =>
    simp only [markBannersFrom]
    apply ih
    split
    · exact inv_markBanner h i txt
    · exact h

theorem inv_macroWalk {n : Nat} (p : Nat) (idx : Nat) (rest : List Str) {t : T}
    (h : Inv n t) (hp : p ≤ idx) : Inv n (macroWalk p idx rest t) := by
  induction rest generalizing idx t with
  | nil => exact h
  | cons txt rest ih =>
    simp only [macroWalk]
    have h1 : Inv n (reparent (setKeep t idx) p idx) := inv_reparent (inv_setKeep h idx) hp
    split
    · exact h1
    · exact ih (idx + 1) h1 (by omega)

theorem inv_markMacrosFrom {n : Nat} (i : Nat) (l : List Str) {t : T} (h : Inv n t) :
    Inv n (markMacrosFrom i l t) := by
  induction l generalizing i t with
  | nil => exact h
  | cons txt rest ih =>
    simp only [markMacrosFrom]
    apply ih
    split
    · exact inv_macroWalk i (i + 1) _ (inv_setKeep h i) (by omega)
    · exact h

theorem inv_link (cfg : Cfg) (ls : List Str) : Inv ls.length (link cfg ls) := by
  unfold link markMacros markBanners
  have h0 : Inv ls.length
      { texts := ls, parents := linkByIndent cfg ls, keep := ls.map (fun _ => false) } :=
    ⟨rfl, linkByIndent_length cfg ls, linkByIndent_below cfg ls⟩
  have h1 := inv_markBannersFrom 0 ls h0
  split
  · exact inv_markMacrosFrom 0 _ h1
  · exact h1

theorem forest_of_inv {n : Nat} {t : T} (h : Inv n t) : Forest t := by
  refine ⟨by rw [h.1, h.2.1], ?_⟩
  intro i hi
  have hi' : i < t.parents.length := by simp only [T.size] at hi; have := h.1; have := h.2.1; omega
  have := h.2.2 i hi'
  simp only [parentOf, List.getD_eq_getElem?_getD, List.getElem?_eq_getElem hi', Option.getD_some]
  omega

/-- passes 1–3 produce a forest -/
theorem link_forest (cfg : Cfg) (ls : List Str) : Forest (link cfg ls) := forest_of_inv (inv_link cfg ls)

/-- passes 1–3 neither add, drop nor reorder lines -/
theorem link_texts (cfg : Cfg) (ls : List Str) : (link cfg ls).texts.length = ls.length := (inv_link cfg ls).1

/-- passes 1–3 keep the line texts -/
theorem link_texts_eq (cfg : Cfg) (ls : List Str) : (link cfg ls).texts = ls := by
  have h : ∀ (t : T), (markMacros cfg (markBanners t)).texts = t.texts := by
    intro t
    have hb : ∀ (l : List Str) (i : Nat) (t : T), (markBannersFrom i l t).texts = t.texts := by
      intro l
      induction l with
      | nil => intro i t; rfl
      | cons txt rest ih =>
        intro i t
        simp only [markBannersFrom]
        rw [ih]
        split
        · unfold markBanner
          have hw : ∀ (rest : List Str) (d : Char) (p idx : Nat) (t : T),
              (bannerWalk d p idx rest t).texts = t.texts := by
            intro rest
            induction rest with
            | nil => intros; rfl
            | cons x xs ih2 =>
              intro d p idx t
              simp only [bannerWalk]
              split
              · rfl
              · rw [ih2]; rfl
          split
          · rfl
          · split
            · rfl
            · rw [hw]; rfl
        · rfl
    have hm : ∀ (l : List Str) (i : Nat) (t : T), (markMacrosFrom i l t).texts = t.texts := by
      intro l
      induction l with
      | nil => intro i t; rfl
      | cons txt rest ih =>
        intro i t
        simp only [markMacrosFrom]
        rw [ih]
        split
        · have hw : ∀ (rest : List Str) (p idx : Nat) (t : T),
              (macroWalk p idx rest t).texts = t.texts := by
            intro rest
            induction rest with
            | nil => intros; rfl
            | cons x xs ih2 =>
              intro p idx t
              simp only [macroWalk]
              split
              · rfl
              · rw [ih2]; rfl
          rw [hw]; rfl
        · rfl
    unfold markMacros markBanners
    split
    · rw [hm, hb]
    · rw [hb]
  exact h _

theorem bootstrapFuel_forest (cfg : Cfg) (fuel : Nat) (ls : List Str) : Forest (bootstrapFuel cfg fuel ls) := by
  induction fuel generalizing ls with
  | zero => exact link_forest cfg ls
  | succ fuel ih =>
    simp only [bootstrapFuel]
    split
    · split
      · exact ih _
      · exact link_forest cfg ls
    · exact link_forest cfg ls

theorem bootstrap_forest (cfg : Cfg) (ls : List Str) : Forest (bootstrap cfg ls) :=
  bootstrapFuel_forest cfg _ ls

/-! ## part 2: derived child lists -/

theorem mem_children {t : T} {i j : Nat} :
    j ∈ children t i ↔ j < t.size ∧ parentOf t j = i ∧ j ≠ i := by
  simp only [children, List.mem_filter, List.mem_range, Bool.and_eq_true, bne_iff_ne, beq_iff_eq]
  constructor
  · rintro ⟨a, b, c⟩; exact ⟨a, c, b⟩
  · rintro ⟨a, b, c⟩; exact ⟨a, c, b⟩

theorem children_sorted (t : T) (i : Nat) : (children t i).Pairwise (· < ·) :=
  List.Pairwise.filter _ List.pairwise_lt_range

theorem nodup_of_sorted {l : List Nat} (h : l.Pairwise (· < ·)) : l.Nodup :=
  h.imp (fun hab => Nat.ne_of_lt hab)

/-! ## ancestors -/

theorem ancestors_of_lt {t : T} {j : Nat} (h : parentOf t j < j) :
    ancestors t j = parentOf t j :: ancestors t (parentOf t j) := by
  rw [ancestors]; simp [h]

theorem ancestors_of_not_lt {t : T} {j : Nat} (h : ¬ parentOf t j < j) : ancestors t j = [] := by
  rw [ancestors]; simp [h]

theorem ancestors_lt {t : T} {a j : Nat} (h : a ∈ ancestors t j) : a < j := by
  induction j using Nat.strongRecOn with
  | ind j ih =>
    by_cases hp : parentOf t j < j
    · rw [ancestors_of_lt hp] at h
      rcases List.mem_cons.mp h with rfl | h
      · exact hp
      · have := ih _ hp h; omega
    · rw [ancestors_of_not_lt hp] at h; cases h

/-- the chain is strictly descending -/
theorem ancestors_desc (t : T) (j : Nat) : (ancestors t j).Pairwise (· > ·) := by
  induction j using Nat.strongRecOn with
  | ind j ih =>
    by_cases hp : parentOf t j < j
    · rw [ancestors_of_lt hp]
      exact List.pairwise_cons.mpr ⟨fun a ha => ancestors_lt ha, ih _ hp⟩
    · rw [ancestors_of_not_lt hp]; exact List.Pairwise.nil

theorem ancestors_trans {t : T} {a b c : Nat} (hab : a ∈ ancestors t b) (hbc : b ∈ ancestors t c) :
    a ∈ ancestors t c := by
  induction c using Nat.strongRecOn with
  | ind c ih =>
    by_cases hp : parentOf t c < c
    · rw [ancestors_of_lt hp] at hbc ⊢
      rcases List.mem_cons.mp hbc with rfl | hbc
      · exact List.mem_cons_of_mem _ hab
      · exact List.mem_cons_of_mem _ (ih _ hp hbc)
    · rw [ancestors_of_not_lt hp] at hbc; cases hbc

theorem isAncestor_of_mem {t : T} {a j : Nat} (h : a ∈ ancestors t j) : IsAncestor t a j := by
  induction j using Nat.strongRecOn with
  | ind j ih =>
    by_cases hp : parentOf t j < j
    · rw [ancestors_of_lt hp] at h
      rcases List.mem_cons.mp h with rfl | h
      · exact .parent (by omega)
      · exact .step (by omega) (ih _ hp h)
    · rw [ancestors_of_not_lt hp] at h; cases h

theorem mem_of_isAncestor {t : T} (hf : Forest t) {a j : Nat} (h : IsAncestor t a j) : a ∈ ancestors t j := by
  induction h with
  | @parent j hne =>
    have := parentOf_le_of_forest hf j
    rw [ancestors_of_lt (by omega)]; simp
  | @step a j hne _ ih =>
    have := parentOf_le_of_forest hf j
    rw [ancestors_of_lt (by omega)]; exact List.mem_cons_of_mem _ ih

/-- the top-down reading of the chain: below a proper ancestor `i` of `j` there is a child
of `i` that is `j` or an ancestor of `j` -/
theorem ancestors_child {t : T} {i j : Nat} (h : i ∈ ancestors t j) :
    ∃ c, parentOf t c = i ∧ i < c ∧ (c = j ∨ c ∈ ancestors t j) := by
  induction j using Nat.strongRecOn with
  | ind j ih =>
    by_cases hp : parentOf t j < j
    · rw [ancestors_of_lt hp] at h
      rcases List.mem_cons.mp h with rfl | h
      · exact ⟨j, rfl, hp, .inl rfl⟩
      · obtain ⟨c, hc1, hc2, hc3⟩ := ih _ hp h
        refine ⟨c, hc1, hc2, .inr ?_⟩
        rw [ancestors_of_lt hp]
        rcases hc3 with rfl | hc3
        · simp
        · exact List.mem_cons_of_mem _ hc3
    · rw [ancestors_of_not_lt hp] at h; cases h

/-- two lines on the chain of `j` are comparable -/
theorem ancestors_linear {t : T} {a b j : Nat} (ha : a ∈ ancestors t j) (hb : b ∈ ancestors t j) :
    a = b ∨ a ∈ ancestors t b ∨ b ∈ ancestors t a := by
  induction j using Nat.strongRecOn with
  | ind j ih =>
    by_cases hp : parentOf t j < j
    · rw [ancestors_of_lt hp] at ha hb
      rcases List.mem_cons.mp ha with rfl | ha <;> rcases List.mem_cons.mp hb with rfl | hb
      · exact .inl rfl
      · exact .inr (.inr hb)
      · exact .inr (.inl ha)
      · exact ih _ hp ha hb
    · rw [ancestors_of_not_lt hp] at ha; cases ha

theorem ancestors_lt_size {t : T} (hf : Forest t) {a j : Nat} (h : a ∈ ancestors t j) : j < t.size := by
  by_cases hp : parentOf t j < j
  · apply Classical.byContradiction
    intro hj
    have : t.parents.length ≤ j := by have := hf.1; simp only [T.size] at hj; omega
    simp [parentOf, List.getD_eq_getElem?_getD, List.getElem?_eq_none this] at hp
  · rw [ancestors_of_not_lt hp] at h; cases h


/-! ## part 3: sorting helpers -/

theorem insertAsc_append {x : Nat} {l : List Nat} (h : ∀ y ∈ l, y < x) : insertAsc x l = l ++ [x] := by
  induction l with
  | nil => rfl
  | cons y ys ih =>
    have hy := h y (by simp)
    have : ¬ x < y := by omega
    have : ¬ x = y := by omega
    simp [insertAsc, *]
    exact ih (fun z hz => h z (by simp [hz]))

/-- `sorted(set(l))` of a strictly descending list is its reversal -/
theorem sortDedup_desc {l : List Nat} (h : l.Pairwise (· > ·)) : sortDedup l = l.reverse := by
  induction l with
  | nil => rfl
  | cons x xs ih =>
    have hx := List.pairwise_cons.mp h
    simp only [sortDedup, List.foldr_cons] at ih ⊢
    rw [ih hx.2, List.reverse_cons]
    exact insertAsc_append (fun y hy => hx.1 y (List.mem_reverse.mp hy))

theorem insertKeep_perm (x : Nat) (l : List Nat) : (insertKeep x l).Perm (x :: l) := by
  induction l with
  | nil => exact List.Perm.refl _
  | cons y ys ih =>
    simp only [insertKeep]
    split
    · exact List.Perm.refl _
    · exact ((List.Perm.cons y ih).trans (List.Perm.swap x y ys))

theorem sortKeep_perm (l : List Nat) : (sortKeep l).Perm l := by
  induction l with
  | nil => exact List.Perm.refl _
  | cons x xs ih =>
    simp only [sortKeep, List.foldr_cons] at ih ⊢
    exact (insertKeep_perm x _).trans (List.Perm.cons x ih)

theorem mem_sortKeep {l : List Nat} {x : Nat} : x ∈ sortKeep l ↔ x ∈ l := (sortKeep_perm l).mem_iff

theorem insertKeep_sorted {x : Nat} {l : List Nat} (h : l.Pairwise (· ≤ ·)) :
    (insertKeep x l).Pairwise (· ≤ ·) := by
  induction l with
  | nil => simp [insertKeep]
  | cons y ys ih =>
    have hy := List.pairwise_cons.mp h
    simp only [insertKeep]
    split
    · rename_i hxy
      refine List.pairwise_cons.mpr ⟨?_, h⟩
      intro b hb
      rcases List.mem_cons.mp hb with rfl | hb
      · exact hxy
      · have := hy.1 b hb; omega
    · rename_i hxy
      refine List.pairwise_cons.mpr ⟨?_, ih hy.2⟩
      intro b hb
      rcases List.mem_cons.mp ((insertKeep_perm x ys).mem_iff.mp hb) with rfl | hb
      · omega
      · exact hy.1 b hb

theorem sortKeep_sorted (l : List Nat) : (sortKeep l).Pairwise (· ≤ ·) := by
  induction l with
  | nil => exact List.Pairwise.nil
  | cons x xs ih => exact insertKeep_sorted ih

/-- `sorted` of a duplicate-free list is strictly ascending -/
theorem sortKeep_strict {l : List Nat} (h : l.Nodup) : (sortKeep l).Pairwise (· < ·) := by
  have h1 := sortKeep_sorted l
  have h2 : (sortKeep l).Nodup := (sortKeep_perm l).nodup_iff.mpr h
  generalize sortKeep l = s at h1 h2
  induction s with
  | nil => exact List.Pairwise.nil
  | cons x xs ih =>
    have a := List.pairwise_cons.mp h1
    have b := List.pairwise_cons.mp h2
    refine List.pairwise_cons.mpr ⟨?_, ih a.2 b.2⟩
    intro y hy
    have := a.1 y hy; have := b.1 y hy; omega

/-- `sorted` of an ascending list is that list -/
theorem sortKeep_id {l : List Nat} (h : l.Pairwise (· ≤ ·)) : sortKeep l = l := by
  induction l with
  | nil => rfl
  | cons x xs ih =>
    have hx := List.pairwise_cons.mp h
    simp only [sortKeep, List.foldr_cons] at ih ⊢
    rw [ih hx.2]
    cases xs with
    | nil => rfl
    | cons y ys => simp [insertKeep, hx.1 y (by simp)]

theorem nodup_flatMap {α β : Type} {l : List α} {f : α → List β} (hl : l.Nodup)
    (hf : ∀ x ∈ l, (f x).Nodup)
    (hd : ∀ x ∈ l, ∀ y ∈ l, ∀ z, z ∈ f x → z ∈ f y → x = y) : (l.flatMap f).Nodup := by
  induction l with
  | nil => simp
  | cons a as ih =>
    have ha := List.pairwise_cons.mp hl
    rw [List.flatMap_cons, List.nodup_append]
    refine ⟨hf a (by simp), ih ha.2 (fun x hx => hf x (by simp [hx]))
      (fun x hx y hy => hd x (by simp [hx]) y (by simp [hy])), ?_⟩
    intro z hz w hw hzw
    subst hzw
    obtain ⟨y, hy, hzy⟩ := List.mem_flatMap.mp hw
    have := hd a (by simp) y (by simp [hy]) z hz hzy
    exact ha.1 y hy this

/-! ## all_parents -/

theorem allParentsFuel_eq {t : T} (hf : Forest t) (fuel i : Nat) (h : i ≤ fuel ∨ parentOf t i = i) :
    allParentsFuel t fuel i = ancestors t i := by
  induction fuel generalizing i with
  | zero =>
    have hp := parentOf_le_of_forest hf i
    rw [ancestors_of_not_lt (by omega)]; rfl
  | succ fuel ih =>
    have hp := parentOf_le_of_forest hf i
    simp only [allParentsFuel]
    split
    · rw [ancestors_of_not_lt (by omega)]
    · rename_i hne
      rw [ancestors_of_lt (by omega), ih _ (by omega)]

theorem allParentsFuel_size {t : T} (hf : Forest t) (i : Nat) :
    allParentsFuel t t.size i = ancestors t i := by
  apply allParentsFuel_eq hf
  by_cases hi : i < t.size
  · exact .inl (by omega)
  · right
    have : t.parents.length ≤ i := by have := hf.1; simp only [T.size] at hi; omega
    simp [parentOf, List.getD_eq_getElem?_getD, List.getElem?_eq_none this]

theorem allParents_eq {t : T} (hf : Forest t) (i : Nat) : allParents t i = (ancestors t i).reverse := by
  rw [allParents, allParentsFuel_size hf, sortDedup_desc (ancestors_desc t i)]

/-! ## all_children -/

theorem allChildrenFuel_sound {t : T} (hf : Forest t) (fuel : Nat) {i j : Nat}
    (h : j ∈ allChildrenFuel t fuel i) : i ∈ ancestors t j := by
  induction fuel generalizing i with
  | zero => simp [allChildrenFuel] at h
  | succ fuel ih =>
    simp only [allChildrenFuel, List.mem_flatMap, List.mem_cons] at h
    obtain ⟨c, hc, hj⟩ := h
    obtain ⟨_, hpc, hne⟩ := mem_children.mp hc
    have hle := parentOf_le_of_forest hf c
    have hic : i ∈ ancestors t c := by
      rw [ancestors_of_lt (by omega), hpc]; simp
    rcases hj with rfl | hj
    · exact hic
    · exact ancestors_trans hic (ih hj)

theorem allChildrenFuel_complete {t : T} (hf : Forest t) (fuel : Nat) {i j : Nat}
    (h : i ∈ ancestors t j) (hfuel : j ≤ fuel + i) : j ∈ allChildrenFuel t fuel i := by
  induction fuel generalizing i with
  | zero => have := ancestors_lt h; omega
  | succ fuel ih =>
    obtain ⟨c, hc1, hc2, hc3⟩ := ancestors_child h
    have hj := ancestors_lt_size hf h
    simp only [allChildrenFuel, List.mem_flatMap, List.mem_cons]
    have hcj : c ≤ j := by
      rcases hc3 with rfl | hc3
      · exact Nat.le_refl _
      · exact Nat.le_of_lt (ancestors_lt hc3)
    refine ⟨c, mem_children.mpr ⟨by omega, hc1, by omega⟩, ?_⟩
    rcases hc3 with rfl | hc3
    · exact .inl rfl
    · exact .inr (ih hc3 (by omega))

theorem allChildrenFuel_nodup {t : T} (hf : Forest t) (fuel i : Nat) : (allChildrenFuel t fuel i).Nodup := by
  induction fuel generalizing i with
  | zero => simp [allChildrenFuel]
  | succ fuel ih =>
    simp only [allChildrenFuel]
    refine nodup_flatMap (nodup_of_sorted (children_sorted t i)) ?_ ?_
    · intro c _
      refine List.nodup_cons.mpr ⟨?_, ih c⟩
      intro hc
      have := ancestors_lt (allChildrenFuel_sound hf fuel hc); omega
    · intro c hc c' hc' z hz hz'
      obtain ⟨_, hpc, hne⟩ := mem_children.mp hc
      obtain ⟨_, hpc', hne'⟩ := mem_children.mp hc'
      have hle := parentOf_le_of_forest hf c
      have hle' := parentOf_le_of_forest hf c'
      have key : ∀ {a b : Nat}, parentOf t a = i → a ≠ i → parentOf t b = i → b ≠ i → a ∈ ancestors t b → False := by
        intro a b ha hai hb hbi hab
        have hlb := parentOf_le_of_forest hf b
        rw [ancestors_of_lt (by omega), hb] at hab
        have hla := parentOf_le_of_forest hf a
        rcases List.mem_cons.mp hab with h | h
        · exact hai h
        · have := ancestors_lt h; omega
      have hz1 : z = c ∨ c ∈ ancestors t z := by
        rcases List.mem_cons.mp hz with h | h
        · exact .inl h
        · exact .inr (allChildrenFuel_sound hf fuel h)
      have hz2 : z = c' ∨ c' ∈ ancestors t z := by
        rcases List.mem_cons.mp hz' with h | h
        · exact .inl h
        · exact .inr (allChildrenFuel_sound hf fuel h)
      rcases hz1 with rfl | hz1 <;> rcases hz2 with rfl | hz2
      · rfl
      · exact (key hpc' hne' hpc hne hz2).elim
      · exact (key hpc hne hpc' hne' hz1).elim
      · rcases ancestors_linear hz1 hz2 with h | h | h
        · exact h
        · exact (key hpc hne hpc' hne' h).elim
        · exact (key hpc' hne' hpc hne h).elim

theorem mem_allChildren {t : T} (hf : Forest t) {i j : Nat} : j ∈ allChildren t i ↔ i ∈ ancestors t j := by
  rw [allChildren, mem_sortKeep]
  constructor
  · exact allChildrenFuel_sound hf _
  · intro h
    have := ancestors_lt_size hf h
    exact allChildrenFuel_complete hf _ h (by omega)

theorem allChildren_sorted {t : T} (hf : Forest t) (i : Nat) : (allChildren t i).Pairwise (· < ·) :=
  sortKeep_strict (allChildrenFuel_nodup hf _ i)

/-! ## lineage, geneology, family_endpoint, siblings -/

theorem allParents_sorted {t : T} (hf : Forest t) (i : Nat) : (allParents t i).Pairwise (· < ·) := by
  rw [allParents_eq hf, List.pairwise_reverse]
  exact (ancestors_desc t i).imp (fun h => h)

theorem mem_allParents {t : T} (hf : Forest t) {i a : Nat} : a ∈ allParents t i ↔ a ∈ ancestors t i := by
  rw [allParents_eq hf, List.mem_reverse]

theorem allChildren_nil_of_children_nil {t : T} {i : Nat} (h : children t i = []) : allChildren t i = [] := by
  unfold allChildren
  cases t.size with
  | zero => rfl
  | succ n => simp [allChildrenFuel, h, sortKeep]

/-- parents, the line, descendants — in this order — is strictly ascending -/
theorem family_sorted {t : T} (hf : Forest t) (i : Nat) :
    (allParents t i ++ [i] ++ allChildren t i).Pairwise (· < ·) := by
  rw [List.pairwise_append, List.pairwise_append]
  refine ⟨⟨allParents_sorted hf i, by simp, ?_⟩, allChildren_sorted hf i, ?_⟩
  · intro a ha b hb
    have := ancestors_lt ((mem_allParents hf).mp ha)
    simp at hb; omega
  · intro a ha b hb
    have hb' := ancestors_lt ((mem_allChildren hf).mp hb)
    rcases List.mem_append.mp ha with ha | ha
    · have := ancestors_lt ((mem_allParents hf).mp ha); omega
    · simp at ha; omega

theorem lineage_eq {t : T} (hf : Forest t) (i : Nat) :
    lineage t i = allParents t i ++ [i] ++ allChildren t i := by
  have h : (if (children t i).isEmpty then [] else allChildren t i) = allChildren t i := by
    split
    · rename_i he
      rw [allChildren_nil_of_children_nil (List.isEmpty_iff.mp he)]
    · rfl
  rw [lineage, h]
  exact sortKeep_id ((family_sorted hf i).imp (fun h => Nat.le_of_lt h))

theorem getLast?_sorted_max {l : List Nat} (h : l.Pairwise (· < ·)) {m : Nat} (hm : l.getLast? = some m) :
    m ∈ l ∧ ∀ x ∈ l, x ≤ m := by
  refine ⟨List.mem_of_getLast? hm, ?_⟩
  obtain ⟨ys, rfl⟩ := List.getLast?_eq_some_iff.mp hm
  intro x hx
  rcases List.mem_append.mp hx with hx | hx
  · have := (List.pairwise_append.mp h).2.2 x hx m (by simp); omega
  · simp at hx; omega

theorem familyEndpoint_max {t : T} (hf : Forest t) (i : Nat) :
    familyEndpoint t i ∈ i :: allChildren t i ∧ ∀ j ∈ i :: allChildren t i, j ≤ familyEndpoint t i := by
  unfold familyEndpoint
  cases hl : (allChildren t i).getLast? with
  | none =>
    have : allChildren t i = [] := List.getLast?_eq_none_iff.mp hl
    simp [this]
  | some m =>
    obtain ⟨h1, h2⟩ := getLast?_sorted_max (allChildren_sorted hf i) hl
    have him := ancestors_lt ((mem_allChildren hf).mp h1)
    simp only [Option.getD_some]
    refine ⟨List.mem_cons_of_mem _ h1, ?_⟩
    intro j hj
    rcases List.mem_cons.mp hj with rfl | hj
    · omega
    · exact h2 j hj

theorem mem_siblings {t : T} {i j : Nat} :
    j ∈ siblings t i ↔ j < t.size ∧ parentOf t j = parentOf t i ∧ j ≠ parentOf t i ∧ indentOf t j = indentOf t i := by
  simp only [siblings, List.mem_filter, mem_children, beq_iff_eq]
  constructor
  · rintro ⟨⟨a, b, c⟩, d⟩; exact ⟨a, b, c, d⟩
  · rintro ⟨a, b, c, d⟩; exact ⟨⟨a, b, c⟩, d⟩

theorem siblings_sorted (t : T) (i : Nat) : (siblings t i).Pairwise (· < ·) :=
  List.Pairwise.filter _ (children_sorted t _)

/-! ## extras -/

/-- strictly ascending lists with the same members are equal -/
theorem sorted_ext {l₁ l₂ : List Nat} (h₁ : l₁.Pairwise (· < ·)) (h₂ : l₂.Pairwise (· < ·))
    (h : ∀ x, x ∈ l₁ ↔ x ∈ l₂) : l₁ = l₂ := by
  induction l₁ generalizing l₂ with
  | nil =>
    cases l₂ with
    | nil => rfl
    | cons b bs => exact absurd ((h b).mpr (by simp)) (by simp)
  | cons a as ih =>
    cases l₂ with
    | nil => exact absurd ((h a).mp (by simp)) (by simp)
    | cons b bs =>
      have ha := List.pairwise_cons.mp h₁
      have hb := List.pairwise_cons.mp h₂
      have hab : a = b := by
        rcases List.mem_cons.mp ((h a).mp (by simp)) with e | e
        · exact e
        · rcases List.mem_cons.mp ((h b).mpr (by simp)) with e' | e'
          · exact e'.symm
          · have := ha.1 b e'; have := hb.1 a e; omega
      subst hab
      congr 1
      apply ih ha.2 hb.2
      intro x
      constructor
      · intro hx
        have := ha.1 x hx
        rcases List.mem_cons.mp ((h x).mp (List.mem_cons_of_mem _ hx)) with e | e
        · omega
        · exact e
      · intro hx
        have := hb.1 x hx
        rcases List.mem_cons.mp ((h x).mpr (List.mem_cons_of_mem _ hx)) with e | e
        · omega
        · exact e

/-- `all_children` as a list: the lines having `i` on their ancestor chain, in line order -/
theorem allChildren_eq_filter {t : T} (hf : Forest t) (i : Nat) :
    allChildren t i = (List.range t.size).filter (fun j => decide (i ∈ ancestors t j)) := by
  apply sorted_ext (allChildren_sorted hf i) (List.Pairwise.filter _ List.pairwise_lt_range)
  intro j
  rw [mem_allChildren hf, List.mem_filter, List.mem_range]
  constructor
  · intro h; exact ⟨ancestors_lt_size hf h, by simpa using h⟩
  · intro h; simpa using h.2

/-- the chain ends at a root -/
theorem ancestors_last_root {t : T} (hf : Forest t) {j r : Nat} (h : (ancestors t j).getLast? = some r) :
    parentOf t r = r := by
  induction j using Nat.strongRecOn with
  | ind j ih =>
    by_cases hp : parentOf t j < j
    · rw [ancestors_of_lt hp] at h
      by_cases hpp : parentOf t (parentOf t j) < parentOf t j
      · rw [ancestors_of_lt hpp, List.getLast?_cons_cons, ← ancestors_of_lt hpp] at h
        exact ih _ hp h
      · rw [ancestors_of_not_lt hpp] at h
        simp at h
        have := parentOf_le_of_forest hf (parentOf t j)
        subst h; omega
    · rw [ancestors_of_not_lt hp] at h; simp at h

theorem children_count (t : T) (i j : Nat) :
    (children t i).count j = if j < t.size ∧ parentOf t j = i ∧ j ≠ i then 1 else 0 := by
  rw [(nodup_of_sorted (children_sorted t i)).count]
  simp only [mem_children]

/-! ## closure form of all_children -/

theorem mem_ancestors_of_child {t : T} (hf : Forest t) {i c : Nat} (hc : c ∈ children t i) :
    i ∈ ancestors t c := by
  obtain ⟨_, hpc, hne⟩ := mem_children.mp hc
  have hle := parentOf_le_of_forest hf c
  rw [ancestors_of_lt (by omega), hpc]; simp

/-- "children and, recursively, theirs" -/
theorem mem_allChildren_closure {t : T} (hf : Forest t) {i j : Nat} :
    j ∈ allChildren t i ↔ ∃ c ∈ children t i, j = c ∨ j ∈ allChildren t c := by
  constructor
  · intro h
    have h' := (mem_allChildren hf).mp h
    obtain ⟨c, hc1, hc2, hc3⟩ := ancestors_child h'
    have hj := ancestors_lt_size hf h'
    have hcj : c ≤ j := by
      rcases hc3 with rfl | hc3
      · exact Nat.le_refl _
      · exact Nat.le_of_lt (ancestors_lt hc3)
    refine ⟨c, mem_children.mpr ⟨by omega, hc1, by omega⟩, ?_⟩
    rcases hc3 with rfl | hc3
    · exact .inl rfl
    · exact .inr ((mem_allChildren hf).mpr hc3)
  · rintro ⟨c, hc, hj⟩
    have hic := mem_ancestors_of_child hf hc
    rw [mem_allChildren hf]
    rcases hj with rfl | hj
    · exact hic
    · exact ancestors_trans hic ((mem_allChildren hf).mp hj)

end Ccp.Tree
