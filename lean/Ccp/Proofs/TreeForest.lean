import Ccp.Model.Tree
/-!
Helper lemmas for C03 (family relations form a consistent forest). Core Lean only.

Specification vocabulary (`Forest`, `ancestors`, `IsAncestor`) first, then
* part 1: every pass of `bootstrap` keeps "the parent index of a line is ≤ its own index";
* part 2: the derived child lists;
* part 3: the family views, under `Forest`.
-/
namespace Ccp.Tree
open Ccp.Py

/-! ## specification vocabulary -/

/-- One parent index per line, and no line's parent comes after it.  Hence a line is a
root iff `parentOf t i = i`, and a parent strictly precedes each of its children. -/
def Forest (t : T) : Prop :=
  t.parents.length = t.texts.length ∧ ∀ i, i < t.size → parentOf t i ≤ i

/-- the chain parent, grandparent, … of line `j`, nearest first, ending with its root
(empty for a root) -/
def ancestors (t : T) (j : Nat) : List Nat :=
  if parentOf t j < j then parentOf t j :: ancestors t (parentOf t j) else []
termination_by j

/-- `a` is a proper ancestor of `j`: the transitive closure of "is the parent of" -/
inductive IsAncestor (t : T) : Nat → Nat → Prop
  | parent {j} : parentOf t j ≠ j → IsAncestor t (parentOf t j) j
  | step {a j} : parentOf t j ≠ j → IsAncestor t a (parentOf t j) → IsAncestor t a j

/-! ## part 1: the passes -/

theorem parentOf_le_of_forest {t : T} (h : Forest t) (i : Nat) : parentOf t i ≤ i := by
  by_cases hi : i < t.size
  · exact h.2 i hi
  · have : t.parents.length ≤ i := by have := h.1; simp only [T.size] at hi; omega
    simp [parentOf, List.getD_eq_getElem?_getD, List.getElem?_eq_none this]

/-- all entries of a parent list are ≤ their position (shifted by `base`) -/
def Below (ps : List Nat) (base : Nat) : Prop := ∀ k (h : k < ps.length), ps[k] ≤ base + k

theorem below_cons {p : Nat} {ps : List Nat} {base : Nat} (hp : p ≤ base) (h : Below ps (base + 1)) :
    Below (p :: ps) base := by
  intro k hk
  cases k with
  | zero => simpa using hp
  | succ k =>
    have := h k (by simpa using hk)
    simp only [List.getElem_cons_succ]; omega

/-- state invariant of the pass-1 loop before line `i`: the cache and the list of
processed lines only name lines before `i` -/
def StOk (st : St) (i : Nat) : Prop :=
  (∀ kp ∈ st.cache, kp.2 < i) ∧ (∀ x ∈ st.revPre, x.1 < i)

theorem lookup_lt {c : Cache} {k p i : Nat} (hc : ∀ kp ∈ c, kp.2 < i) (h : lookup c k = some p) :
    p < i := by
  induction c with
  | nil => simp [lookup] at h
  | cons a r ih =>
    obtain ⟨k', q⟩ := a
    simp only [lookup] at h
    split at h
    · cases h; exact hc (k', p) (by simp)
    · exact ih (fun kp hkp => hc kp (by simp [hkp])) h

theorem walkBack_lt {rp : List (Nat × Info)} {k p i : Nat} (hr : ∀ x ∈ rp, x.1 < i)
    (h : walkBack rp k = some p) : p < i := by
  induction rp with
  | nil => simp [walkBack] at h
  | cons a r ih =>
    obtain ⟨j, l⟩ := a
    simp only [walkBack] at h
    split at h
    · cases h; exact hr (p, l) (by simp)
    · exact ih (fun x hx => hr x (by simp [hx])) h

theorem maintain_ok {st : St} {i : Nat} (h : StOk st i) (l : Info) :
    (∀ kp ∈ (maintain st.cache st.mx l).1, kp.2 < i) ∧
    (∀ p, (maintain st.cache st.mx l).2 = some p → p < i) := by
  unfold maintain
  split
  · refine ⟨fun kp hkp => h.1 kp (List.mem_filter.mp hkp).1, ?_⟩
    intro p hp; cases hp
  · exact ⟨h.1, fun p hp => lookup_lt h.1 hp⟩

theorem build_ok {rp : List (Nat × Info)} {cp : Cache × Option Nat} {i : Nat} (l : Info)
    (hr : ∀ x ∈ rp, x.1 < i) (hc : ∀ kp ∈ cp.1, kp.2 < i) (hp : ∀ p, cp.2 = some p → p < i) :
    (∀ kp ∈ (build rp cp l).1, kp.2 < i) ∧ (∀ p, (build rp cp l).2 = some p → p < i) := by
  unfold build
  split
  · exact ⟨hc, fun p hp' => by cases hp'⟩
  · split
    · rename_i p hcp
      exact ⟨hc, fun q hq => by cases hq; exact hp _ hcp⟩
    · split
      · rename_i p hw
        have hlt := walkBack_lt hr hw
        refine ⟨?_, fun q hq => by cases hq; exact hlt⟩
        intro kp hkp
        rcases List.mem_cons.mp hkp with rfl | hkp
        · exact hlt
        · exact hc kp hkp
      · exact ⟨hc, fun p hp' => by cases hp'⟩

theorem attach_le {rp : List (Nat × Info)} {i : Nat} (l : Info) {cand : Option Nat}
    (h : ∀ p, cand = some p → p < i) : attach rp i l cand ≤ i := by
  unfold attach
  split
  · exact Nat.le_refl _
  · rename_i p
    have := h p rfl
    split
    · split <;> omega
    · omega

theorem step_ok {st : St} {i : Nat} (h : StOk st i) (l : Info) :
    StOk (step st i l).1 (i + 1) ∧ (step st i l).2 ≤ i := by
  have hm := maintain_ok h l
  have hb := build_ok (rp := st.revPre) (cp := maintain st.cache st.mx l) l h.2 hm.1 hm.2
  refine ⟨⟨?_, ?_⟩, ?_⟩
  · intro kp hkp
    have := hb.1 kp hkp
    omega
  · intro x hx
    simp only [step] at hx
    rcases List.mem_cons.mp hx with rfl | hx
    · simp
    · have := h.2 x hx; omega
  · exact attach_le l hb.2

theorem linkLoop_length (st : St) (i : Nat) (ls : List Info) : (linkLoop st i ls).length = ls.length := by
  induction ls generalizing st i with
  | nil => simp [linkLoop]
  | cons l ls ih => simp [linkLoop, ih]

theorem linkLoop_below {st : St} {i : Nat} (h : StOk st i) (ls : List Info) :
    Below (linkLoop st i ls) i := by
  induction ls generalizing st i with
  | nil => intro k hk; simp [linkLoop] at hk
  | cons l ls ih =>
    have hs := step_ok h l
    simp only [linkLoop]
    exact below_cons hs.2 (ih hs.1)

theorem linkByIndent_length (cfg : Cfg) (ls : List Str) : (linkByIndent cfg ls).length = ls.length := by
  simp [linkByIndent, linkLoop_length]

/-- pass 1: every parent index is ≤ the line's own index -/
theorem linkByIndent_below (cfg : Cfg) (ls : List Str) : Below (linkByIndent cfg ls) 0 :=
  linkLoop_below (by simp [StOk, St.init]) _

/-- the invariant carried through passes 2 and 3 -/
def Inv (n : Nat) (t : T) : Prop :=
  t.texts.length = n ∧ t.parents.length = n ∧ Below t.parents 0

theorem inv_setKeep {n : Nat} {t : T} (h : Inv n t) (i : Nat) : Inv n (setKeep t i) := h

theorem inv_reparent {n : Nat} {t : T} (h : Inv n t) {p c : Nat} (hpc : p ≤ c) : Inv n (reparent t p c) := by
  refine ⟨h.1, by simp [reparent, h.2.1], ?_⟩
  intro k hk
  simp only [reparent, List.getElem_set]
  split
  · omega
  · exact h.2.2 k (by simpa [reparent] using hk)

theorem setKeep_texts (t : T) (i : Nat) : (setKeep t i).texts = t.texts := rfl
theorem reparent_texts (t : T) (p c : Nat) : (reparent t p c).texts = t.texts := rfl

theorem inv_bannerWalk {n : Nat} (d : Char) (p : Nat) (idx : Nat) (rest : List Str) {t : T}
    (h : Inv n t) (hp : p ≤ idx) : Inv n (bannerWalk d p idx rest t) := by
  induction rest generalizing idx t with
  | nil => exact h
  | cons txt rest ih =>
    simp only [bannerWalk]
    split
    · exact inv_reparent h hp
    · exact ih (idx + 1) (inv_setKeep (inv_reparent h hp) idx) (by omega)

theorem inv_markBanner {n : Nat} {t : T} (h : Inv n t) (p : Nat) (txt : Str) : Inv n (markBanner t p txt) := by
  unfold markBanner
  split
  · exact inv_setKeep h p
  · split
    · exact inv_setKeep h p
    · exact inv_bannerWalk _ p (p + 1) _ (inv_setKeep h p) (by omega)

theorem inv_markBannersFrom {n : Nat} (i : Nat) (l : List Str) {t : T} (h : Inv n t) :
    Inv n (markBannersFrom i l t) := by
  induction l generalizing i t with
  | nil => exact h
  | cons txt rest ih =>
    simp only [markBannersFrom]
    apply ih
    split
    · exact inv_markBanner h i txt
    · exact h

theorem inv_macroWalk {n : Nat} (p : Nat) (idx : Nat) (rest : List Str) {t : T}
    (h : Inv n t) (hp : p ≤ idx) : Inv n (macroWalk p idx rest t) := by
  induction rest generalizing idx t with
  | nil => exact h
  | cons txt rest ih =>
    simp only [macroWalk]
    have h1 : Inv n (reparent (setKeep t idx) p idx) := inv_reparent (inv_setKeep h idx) hp
    split
    · exact h1
    · exact ih (idx + 1) h1 (by omega)

theorem inv_markMacrosFrom {n : Nat} (i : Nat) (l : List Str) {t : T} (h : Inv n t) :
    Inv n (markMacrosFrom i l t) := by
  induction l generalizing i t with
  | nil => exact h
  | cons txt rest ih =>
    simp only [markMacrosFrom]
    apply ih
    split
    · exact inv_macroWalk i (i + 1) _ (inv_setKeep h i) (by omega)
    · exact h

theorem inv_link (cfg : Cfg) (ls : List Str) : Inv ls.length (link cfg ls) := by
  unfold link markMacros markBanners
  have h0 : Inv ls.length
      { texts := ls, parents := linkByIndent cfg ls, keep := ls.map (fun _ => false) } :=
    ⟨rfl, linkByIndent_length cfg ls, linkByIndent_below cfg ls⟩
  have h1 := inv_markBannersFrom 0 ls h0
  split
  · exact inv_markMacrosFrom 0 _ h1
  · exact h1

theorem forest_of_inv {n : Nat} {t : T} (h : Inv n t) : Forest t := by
  refine ⟨by rw [h.1, h.2.1], ?_⟩
  intro i hi
  have hi' : i < t.parents.length := by simp only [T.size] at hi; have := h.1; have := h.2.1; omega
  have := h.2.2 i hi'
  simp only [parentOf, List.getD_eq_getElem?_getD, List.getElem?_eq_getElem hi', Option.getD_some]
  omega

/-- passes 1–3 produce a forest -/
theorem link_forest (cfg : Cfg) (ls : List Str) : Forest (link cfg ls) := forest_of_inv (inv_link cfg ls)

/-- passes 1–3 neither add, drop nor reorder lines -/
theorem link_texts (cfg : Cfg) (ls : List Str) : (link cfg ls).texts.length = ls.length := (inv_link cfg ls).1

theorem bootstrapFuel_forest (cfg : Cfg) (fuel : Nat) (ls : List Str) : Forest (bootstrapFuel cfg fuel ls) := by
  induction fuel generalizing ls with
  | zero => exact link_forest cfg ls
  | succ fuel ih =>
    simp only [bootstrapFuel]
    split
    · split
      · exact ih _
      · exact link_forest cfg ls
    · exact link_forest cfg ls

theorem bootstrap_forest (cfg : Cfg) (ls : List Str) : Forest (bootstrap cfg ls) :=
  bootstrapFuel_forest cfg _ ls

end Ccp.Tree
