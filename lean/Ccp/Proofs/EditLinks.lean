import Ccp.Proofs.Edit
import Ccp.Proofs.TreeLink
import Ccp.Proofs.TreeLossless
/-!
Parent links after an edit (C06 deepening): how `specParent` (the indentation rule of C02)
behaves when one line is inserted into / a set of lines is removed from a config, and the
lift to the edit state machine for configs without banner / macro starts.  Core Lean only.
-/
namespace Ccp.Tree
open Ccp.Py

/-! ## `specParent` under insertion of one line -/

theorem nearestShallower_congr (A B : List Info) (k n : Nat) (h : ∀ m, m < n → A[m]? = B[m]?) :
    nearestShallower A k n = nearestShallower B k n := by
  induction n with
  | zero => rfl
  | succ n ih =>
    unfold nearestShallower
    rw [h n (Nat.lt_succ_self n), ih (fun m hm => h m (by omega))]

theorem commentUnderDeeper_congr (A B : List Info) (j : Nat) (h : ∀ m, m ≤ j → A[m]? = B[m]?) :
    commentUnderDeeper A j = commentUnderDeeper B j := by
  unfold commentUnderDeeper
  cases j with
  | zero => rw [h 0 (Nat.le_refl _)]
  | succ j =>
    rw [h (j + 1) (Nat.le_refl _)]
    cases B[j + 1]? with
    | none => rfl
    | some l => simp only [h j (by omega)]

theorem specParent_congr (A B : List Info) (j : Nat) (h : ∀ m, m ≤ j → A[m]? = B[m]?) :
    specParent A j = specParent B j := by
  unfold specParent
  have hns : ∀ k, nearestShallower A k j = nearestShallower B k j :=
    fun k => nearestShallower_congr A B k j (fun m hm => h m (by omega))
  simp only [h j (Nat.le_refl _), commentUnderDeeper_congr A B j h, hns]

/-- `nearestShallower` past an inserted line `x` at position `c` -/
theorem nearestShallower_insert (infos : List Info) (x : Info) (c : Nat) (hc : c ≤ infos.length) (k d : Nat) :
    nearestShallower (infos.take c ++ x :: infos.drop c) k (c + d + 1) =
      match nearestShallower infos k (c + d) with
      | some p => if c ≤ p then some (p + 1)
                  else if x.isCfg = true ∧ x.indent < k then some c else some p
      | none => if x.isCfg = true ∧ x.indent < k then some c else none := by
  have hf := Ccp.Edit.inserted_frame infos c x hc
  induction d with
  | zero =>
    have hx : (infos.take c ++ x :: infos.drop c)[c]? = some x := hf.2.1
    have hpre : nearestShallower (infos.take c ++ x :: infos.drop c) k c = nearestShallower infos k c :=
      nearestShallower_congr _ _ k c (fun m hm => hf.2.2.2.1 m hm)
    rw [Nat.add_zero]
    conv => lhs; unfold nearestShallower
    simp only [hx, hpre]
    cases hn : nearestShallower infos k c with
    | none => rfl
    | some p =>
      have := ((nearestShallower_eq_some infos k c p).mp hn).1
      simp only [show ¬ c ≤ p by omega, if_false]
  | succ d ih =>
    have hget : (infos.take c ++ x :: infos.drop c)[c + d + 1]? = infos[c + d]? := hf.2.2.2.2 (c + d) (by omega)
    have e1 : c + (d + 1) + 1 = (c + d + 1) + 1 := by omega
    have e2 : c + (d + 1) = (c + d) + 1 := by omega
    rw [e1, e2]
    conv => lhs; unfold nearestShallower
    conv => rhs; unfold nearestShallower
    rw [hget, ih]
    cases hl : infos[c + d]? with
    | none => rfl
    | some l =>
      simp only
      split
      · simp only [show c ≤ c + d by omega, if_true]
      · rfl


/-- **child-level insertion on the specification level**.  `i` is a configuration line, the
payload `x` is a configuration line (not a comment) indented deeper than `i`, it is put at
`e + 1` where `i ≤ e`; every configuration line in `(i, e]` is indented at least as deep
as the payload (`H1`), and no line after `e` has its parent inside `[i, e]` (`H3`: the block
`[i, e]` is closed — true when `e` is the family endpoint of `i`).  Then the new line's
parent is `i`, the lines up to `e` keep their parents, and every line after `e` keeps its
parent (shifted by one when it lies after `e`) — except possibly a comment directly after
the insertion point, whose attachment depends on the line above it. -/
theorem specParent_insert_child (infos : List Info) (i e : Nat) (x li : Info)
    (hi : infos[i]? = some li) (hie : i ≤ e) (he : e < infos.length)
    (hli : li.isCfg = true) (hxc : x.isCmt = false) (hlt : li.indent < x.indent)
    (H1 : ∀ m l, i < m → m ≤ e → infos[m]? = some l → l.isCfg = true → x.indent ≤ l.indent)
    (H3 : ∀ j, e < j → j < infos.length → ¬ (i ≤ specParent infos j ∧ specParent infos j ≤ e)) :
    specParent (infos.take (e + 1) ++ x :: infos.drop (e + 1)) (e + 1) = i ∧
    (∀ j, j ≤ e → specParent (infos.take (e + 1) ++ x :: infos.drop (e + 1)) j = specParent infos j) ∧
    (∀ j l, e < j → infos[j]? = some l → ¬ (j = e + 1 ∧ l.isCmt = true) →
      specParent (infos.take (e + 1) ++ x :: infos.drop (e + 1)) (j + 1)
        = if specParent infos j ≤ e then specParent infos j else specParent infos j + 1) := by
  have hf := Ccp.Edit.inserted_frame infos (e + 1) x (by omega)
  generalize hnew : infos.take (e + 1) ++ x :: infos.drop (e + 1) = new at hf ⊢
  simp only at hf
  obtain ⟨_, hxat, _, hpre, hpost⟩ := hf
  refine ⟨?_, ?_, ?_⟩
  · -- the new line
    unfold specParent
    rw [hxat]
    have hcud : commentUnderDeeper new (e + 1) = false := by
      unfold commentUnderDeeper; simp [hxat, hxc]
    have h0 : ¬ x.indent = 0 := by omega
    simp only [hcud, h0, false_or, Bool.false_eq_true, if_false]
    have : nearestShallower new x.indent (e + 1) = some i := by
      rw [nearestShallower_congr new infos x.indent (e + 1) (fun m hm => hpre m hm)]
      rw [nearestShallower_eq_some]
      refine ⟨by omega, ⟨li, hi, hli, hlt⟩, ?_⟩
      intro m l h1 h2 h3 h4
      have := H1 m l h1 (by omega) h3 h4.1
      omega
    rw [this]; rfl
  · intro j hj
    exact specParent_congr new infos j (fun m hm => hpre m (by omega))
  · intro j l hej hl hcm
    have hjl : j < infos.length := (List.getElem?_eq_some_iff.mp hl).1
    have hnl : new[j + 1]? = some l := by rw [hpost j (by omega), hl]
    -- the line above
    have hcud : commentUnderDeeper new (j + 1) = commentUnderDeeper infos j := by
      by_cases hc : l.isCmt = true
      · have hne : j ≠ e + 1 := fun h => hcm ⟨h, hc⟩
        obtain ⟨j', rfl⟩ : ∃ j', j = j' + 1 := ⟨j - 1, by omega⟩
        unfold commentUnderDeeper
        simp only [hnl, hl]
        rw [hpost j' (by omega)]
      · have hc' : l.isCmt = false := by simpa using hc
        unfold commentUnderDeeper
        cases j with
        | zero => simp [hnl, hc']
        | succ j' => simp [hnl, hl, hc']
    unfold specParent
    rw [hnl, hl]
    simp only [hcud]
    split
    · -- a root stays a root
      have : ¬ j ≤ e := by omega
      simp [this]
    · rename_i hroot
      have hsp : specParent infos j = (nearestShallower infos l.indent j).getD j := by
        unfold specParent; rw [hl]; simp only [hroot, if_false]
      obtain ⟨d, rfl⟩ : ∃ d, j = e + 1 + d := ⟨j - (e + 1), by omega⟩
      rw [← hnew, nearestShallower_insert infos x (e + 1) (by omega) l.indent d]
      have h3 := H3 (e + 1 + d) hej hjl
      rw [hsp] at h3
      cases hn : nearestShallower infos l.indent (e + 1 + d) with
      | none =>
        simp only [Option.getD_none]
        have hnone := (nearestShallower_eq_none infos l.indent (e + 1 + d)).mp hn
        have hnc : ¬ (x.isCfg = true ∧ x.indent < l.indent) := by
          intro hc
          exact hnone i li (by omega) hi ⟨hli, by omega⟩
        simp [hnc]; omega
      | some p =>
        simp only [Option.getD_some]
        rw [hn] at h3
        simp only [Option.getD_some] at h3
        obtain ⟨hp1, _, hp3⟩ := (nearestShallower_eq_some infos l.indent (e + 1 + d) p).mp hn
        by_cases hpe : e + 1 ≤ p
        · simp [hpe, show ¬ p ≤ e by omega]
        · have hnc : ¬ (x.isCfg = true ∧ x.indent < l.indent) := by
            intro hc
            -- `i` is then a candidate, so `p ≥ i`, contradicting `H3`
            have hip : i ≤ p := by
              apply Classical.byContradiction
              intro hlt'
              exact hp3 i li (by omega) (by omega) hi ⟨hli, by omega⟩
            exact h3 ⟨hip, by omega⟩
          simp [hpe, hnc, show p ≤ e by omega]

/-! ## trees whose parents are the specified ones -/

/-- `t` is a forest over `infos` whose parent links are `specParent`, and a configuration
line is not a comment -/
def SpecTree (t : T) (infos : List Info) : Prop :=
  Forest t ∧ infos.length = t.size ∧ (∀ j, j < t.size → parentOf t j = specParent infos j) ∧
  (∀ (j : Nat) (l : Info), infos[j]? = some l → l.isCfg = true → l.isCmt = false)

/-- what it means to have a parent other than oneself -/
theorem specTree_parent {t : T} {infos : List Info} (h : SpecTree t infos) {j : Nat} (hj : j < t.size)
    (hne : parentOf t j ≠ j) :
    ∃ lp lj, infos[parentOf t j]? = some lp ∧ infos[j]? = some lj ∧ parentOf t j < j ∧
      lp.isCfg = true ∧ lp.indent < lj.indent ∧
      nearestShallower infos lj.indent j = some (parentOf t j) := by
  obtain ⟨hf, hlen, hpar, _⟩ := h
  have hp := hpar j hj
  have hjl : j < infos.length := by omega
  have hl : infos[j]? = some infos[j] := List.getElem?_eq_getElem hjl
  have hroot : ¬ (infos[j].indent = 0 ∨ commentUnderDeeper infos j = true) := by
    intro hr; apply hne; rw [hp]; unfold specParent; rw [hl]; simp [hr]
  have hsp : specParent infos j = (nearestShallower infos infos[j].indent j).getD j := by
    unfold specParent; rw [hl]; simp only [hroot, if_false]
  cases hn : nearestShallower infos infos[j].indent j with
  | none => exfalso; apply hne; rw [hp, hsp, hn]; rfl
  | some p =>
    have hpp : parentOf t j = p := by rw [hp, hsp, hn]; rfl
    rw [hpp]
    obtain ⟨h1, ⟨lp, h2, h3, h4⟩, _⟩ := (nearestShallower_eq_some infos _ j p).mp hn
    exact ⟨lp, infos[j], h2, hl, h1, h3, h4, hn⟩

/-- up the ancestor chain: configuration lines, strictly decreasing indentation -/
theorem specTree_ancestor {t : T} {infos : List Info} (h : SpecTree t infos) {a j : Nat}
    (ha : a ∈ ancestors t j) :
    ∃ la lj, infos[a]? = some la ∧ infos[j]? = some lj ∧ la.isCfg = true ∧ la.indent < lj.indent := by
  induction j using Nat.strongRecOn with
  | ind j ih =>
    by_cases hp : parentOf t j < j
    · have hj : j < t.size := ancestors_lt_size h.1 ha
      obtain ⟨lp, lj, h1, h2, _, h4, h5, _⟩ := specTree_parent h hj (by omega)
      rw [ancestors_of_lt hp] at ha
      rcases List.mem_cons.mp ha with rfl | ha
      · exact ⟨lp, lj, h1, h2, h4, h5⟩
      · obtain ⟨la, lp', h6, h7, h8, h9⟩ := ih _ hp ha
        rw [h1] at h7; cases h7
        exact ⟨la, lj, h6, h2, h8, by omega⟩
    · rw [ancestors_of_not_lt hp] at ha; cases ha

/-- every configuration line between `i` and a descendant `e` of `i` is indented deeper than `i` -/
theorem specTree_sandwich {t : T} {infos : List Info} (h : SpecTree t infos) {i e : Nat} {li : Info}
    (hi : infos[i]? = some li) (he : i ∈ ancestors t e) :
    ∀ m l, i < m → m ≤ e → infos[m]? = some l → l.isCfg = true → li.indent < l.indent := by
  induction e using Nat.strongRecOn with
  | ind e ih =>
    intro m l him hme hl hc
    have hpe : parentOf t e < e := by
      apply Classical.byContradiction; intro hn
      rw [ancestors_of_not_lt hn] at he; cases he
    have hes : e < t.size := ancestors_lt_size h.1 he
    obtain ⟨lp, le, h1, h2, _, h4, h5, h6⟩ := specTree_parent h hes (by omega)
    rw [ancestors_of_lt hpe] at he
    -- the parent is `i` or a descendant of `i`: its indent is ≥ that of `i`
    have hpi : li.indent ≤ lp.indent ∧ i ≤ parentOf t e := by
      rcases List.mem_cons.mp he with heq | he'
      · rw [← heq] at h1; rw [hi] at h1; cases h1; exact ⟨Nat.le_refl _, by omega⟩
      · have hip := ancestors_lt he'
        have := ih _ hpe he' (parentOf t e) lp hip (Nat.le_refl _) h1 h4
        exact ⟨by omega, by omega⟩
    by_cases hmp : m ≤ parentOf t e
    · rcases List.mem_cons.mp he with heq | he'
      · omega
      · exact ih _ hpe he' m l him hmp hl hc
    · by_cases hme' : m = e
      · subst hme'; rw [h2] at hl; cases hl; omega
      · have := ((nearestShallower_eq_some infos le.indent e _).mp h6).2.2 m l (by omega) (by omega) hl
        have : ¬ l.indent < le.indent := fun hh => this ⟨hc, hh⟩
        omega

/-- a configuration line after `i` such that all configuration lines in between (and itself)
are indented deeper than `i` is a descendant of `i` -/
theorem specTree_descendant {t : T} {infos : List Info} (h : SpecTree t infos) {i : Nat} {li : Info}
    (hi : infos[i]? = some li) (hli : li.isCfg = true) :
    ∀ m l, i < m → infos[m]? = some l → l.isCfg = true →
      (∀ m' l', i < m' → m' ≤ m → infos[m']? = some l' → l'.isCfg = true → li.indent < l'.indent) →
      i ∈ ancestors t m := by
  intro m
  induction m using Nat.strongRecOn with
  | ind m ih =>
    intro l him hl hc hall
    have hms : m < t.size := by
      have := (List.getElem?_eq_some_iff.mp hl).1; have := h.2.1; omega
    have hlm := hall m l him (Nat.le_refl _) hl hc
    have hpar := h.2.2.1 m hms
    have hcud : commentUnderDeeper infos m = false := by
      have hcm := h.2.2.2 m l hl hc
      unfold commentUnderDeeper
      cases m with
      | zero => rfl
      | succ m' => simp [hl, hcm]
    have hsp : specParent infos m = (nearestShallower infos l.indent m).getD m := by
      unfold specParent; rw [hl]
      simp [hcud, show ¬ l.indent = 0 by omega]
    cases hn : nearestShallower infos l.indent m with
    | none =>
      exact absurd ⟨hli, hlm⟩ ((nearestShallower_eq_none infos l.indent m).mp hn i li him hi)
    | some q =>
      obtain ⟨hq1, ⟨lq, hq2, hq3, hq4⟩, hq5⟩ := (nearestShallower_eq_some infos l.indent m q).mp hn
      have hpq : parentOf t m = q := by rw [hpar, hsp, hn]; rfl
      have hiq : i ≤ q := by
        apply Classical.byContradiction; intro hlt
        exact hq5 i li (by omega) him hi ⟨hli, hlm⟩
      rw [ancestors_of_lt (by omega), hpq]
      by_cases hqi : q = i
      · simp [hqi]
      · refine List.mem_cons_of_mem _ (ih q hq1 lq (by omega) hq2 hq3 ?_)
        intro m' l' h1 h2 h3 h4
        exact hall m' l' h1 (by omega) h3 h4

/-- all configuration lines inside the span of `i`'s family are descendants of `i` -/
theorem specTree_between {t : T} {infos : List Info} (h : SpecTree t infos) {i e : Nat} {li : Info}
    (hi : infos[i]? = some li) (hli : li.isCfg = true) (he : i ∈ ancestors t e) :
    ∀ m l, i < m → m ≤ e → infos[m]? = some l → l.isCfg = true → i ∈ ancestors t m := by
  intro m l him hme hl hc
  refine specTree_descendant h hi hli m l him hl hc ?_
  intro m' l' h1 h2 h3 h4
  exact specTree_sandwich h hi he m' l' h1 (by omega) h3 h4


/-- **child-level insertion after the family of `i`** in a tree whose links are the
specified ones: `i` has children, the payload `x` is not a comment and is indented deeper
than `i`, and every direct child of `i` that is a configuration line is indented at least
as deep as the payload.  Inserting `x` directly after the last descendant of `i` makes `x` a
child of `i` and leaves every other line's parent as it was (shifted) — except possibly a
comment directly after the insertion point. -/
theorem specTree_insert_child {t : T} {infos : List Info} (h : SpecTree t infos) (i : Nat) (x : Info)
    (hk : children t i ≠ []) (hxc : x.isCmt = false)
    (hlt : ∀ li, infos[i]? = some li → li.indent < x.indent)
    (Hc : ∀ c l, c ∈ children t i → infos[c]? = some l → l.isCfg = true → x.indent ≤ l.indent) :
    i ≤ familyEndpoint t i ∧ familyEndpoint t i < infos.length ∧
    specParent (infos.take (familyEndpoint t i + 1) ++ x :: infos.drop (familyEndpoint t i + 1))
      (familyEndpoint t i + 1) = i ∧
    (∀ j, j ≤ familyEndpoint t i →
      specParent (infos.take (familyEndpoint t i + 1) ++ x :: infos.drop (familyEndpoint t i + 1)) j
        = specParent infos j) ∧
    (∀ j l, familyEndpoint t i < j → infos[j]? = some l → ¬ (j = familyEndpoint t i + 1 ∧ l.isCmt = true) →
      specParent (infos.take (familyEndpoint t i + 1) ++ x :: infos.drop (familyEndpoint t i + 1)) (j + 1)
        = if specParent infos j ≤ familyEndpoint t i then specParent infos j else specParent infos j + 1) := by
  have hf := h.1
  obtain ⟨c, hc⟩ := List.exists_mem_of_ne_nil _ hk
  obtain ⟨hcs, hpc, hci⟩ := mem_children.mp hc
  obtain ⟨li, lc, hli, _, hic, hlicfg, _, _⟩ := specTree_parent h hcs (by omega)
  rw [hpc] at hli hic
  have his : i < t.size := by omega
  have hmax := familyEndpoint_max hf i
  have hes : familyEndpoint t i < t.size := Ccp.Edit.familyEndpoint_lt_size hf his
  have hcall : c ∈ allChildren t i := (mem_allChildren hf).mpr (mem_ancestors_of_child hf hc)
  have hce : c ≤ familyEndpoint t i := hmax.2 c (List.mem_cons_of_mem _ hcall)
  have hie : i ∈ ancestors t (familyEndpoint t i) := by
    rcases List.mem_cons.mp hmax.1 with heq | hm
    · omega
    · exact (mem_allChildren hf).mp hm
  have hlen := h.2.1
  have H1 : ∀ m l, i < m → m ≤ familyEndpoint t i → infos[m]? = some l → l.isCfg = true →
      x.indent ≤ l.indent := by
    intro m l him hme hl hcfg
    have hanc := specTree_between h hli hlicfg hie m l him hme hl hcfg
    obtain ⟨c', hc1, hc2, hc3⟩ := ancestors_child hanc
    have hms : m < t.size := ancestors_lt_size hf hanc
    rcases hc3 with rfl | hc3
    · exact Hc c' l (mem_children.mpr ⟨hms, hc1, by omega⟩) hl hcfg
    · have hcm := ancestors_lt hc3
      obtain ⟨la, lj, h1, h2, h3, h4⟩ := specTree_ancestor h hc3
      rw [hl] at h2; cases h2
      have := Hc c' la (mem_children.mpr ⟨by omega, hc1, by omega⟩) h1 h3
      omega
  have H3 : ∀ j, familyEndpoint t i < j → j < infos.length →
      ¬ (i ≤ specParent infos j ∧ specParent infos j ≤ familyEndpoint t i) := by
    intro j hej hjl ⟨hp1, hp2⟩
    have hjs : j < t.size := by omega
    have hpar := h.2.2.1 j hjs
    rw [← hpar] at hp1 hp2
    have hne : parentOf t j ≠ j := by omega
    obtain ⟨lp, lj, h1, h2, h3, h4, h5, _⟩ := specTree_parent h hjs hne
    have hij : i ∈ ancestors t j := by
      rw [ancestors_of_lt h3]
      by_cases hpi : parentOf t j = i
      · simp [hpi]
      · exact List.mem_cons_of_mem _ (specTree_between h hli hlicfg hie _ lp (by omega) hp2 h1 h4)
    have := hmax.2 j (List.mem_cons_of_mem _ ((mem_allChildren hf).mpr hij))
    omega
  obtain ⟨r1, r2, r3⟩ := specParent_insert_child infos i (familyEndpoint t i) x li hli (by omega) (by omega)
    hlicfg hxc (hlt li hli) H1 H3
  exact ⟨by omega, by omega, r1, r2, r3⟩

/-! ## lift to `parse` for configs without banner / macro starts -/

/-- no line starts a banner, none starts a macro under syntax ios -/
def Plain (cfg : Cfg) (ls : List Str) : Prop :=
  (∀ x ∈ ls, isBannerStart x = false) ∧ (cfg.ios = true → ∀ x ∈ ls, isMacroStart x = false)

theorem parse_plain (cfg : Cfg) (ls : List Str) (hp : Plain cfg ls) (hi : cfg.ignoreBlank = false) :
    parse cfg ls = { texts := ls, parents := linkByIndent cfg ls, keep := ls.map (fun _ => false) } := by
  rw [Ccp.Tree.parse_eq_bootstrap, bootstrap, bootstrapFuel_noIgnore cfg hi, link_plain cfg ls hp.1 hp.2]

theorem parse_parentOf (cfg : Cfg) (ls : List Str) (hp : Plain cfg ls) (hi : cfg.ignoreBlank = false)
    (j : Nat) (hj : j < ls.length) : parentOf (parse cfg ls) j = specParent (ls.map (info cfg)) j := by
  rw [parse_plain cfg ls hp hi]
  simp [parentOf, linkByIndent_eq_map, hj]

theorem parse_specTree (cfg : Cfg) (ls : List Str) (hp : Plain cfg ls) (hi : cfg.ignoreBlank = false) :
    SpecTree (parse cfg ls) (ls.map (info cfg)) := by
  refine ⟨bootstrap_forest cfg _, ?_, ?_, ?_⟩
  · rw [parse_plain cfg ls hp hi]; simp [T.size]
  · intro j hj
    have : (parse cfg ls).size = ls.length := by rw [parse_plain cfg ls hp hi]; rfl
    exact parse_parentOf cfg ls hp hi j (by omega)
  · intro j l hl hc
    simp only [List.getElem?_map, Option.map_eq_some_iff] at hl
    obtain ⟨txt, _, rfl⟩ := hl
    simp only [info, isConfigLine, Bool.and_eq_true, Bool.not_eq_true'] at hc ⊢
    exact hc.2

theorem plain_insert (cfg : Cfg) (ls : List Str) (k : Nat) (txt : Str) (hp : Plain cfg ls)
    (hb : isBannerStart txt = false) (hm : cfg.ios = true → isMacroStart txt = false) :
    Plain cfg (ls.take k ++ txt :: ls.drop k) := by
  constructor
  · intro x hx
    rcases List.mem_append.mp hx with h | h
    · exact hp.1 x (List.mem_of_mem_take h)
    · rcases List.mem_cons.mp h with rfl | h
      · exact hb
      · exact hp.1 x (List.mem_of_mem_drop h)
  · intro hios x hx
    rcases List.mem_append.mp hx with h | h
    · exact hp.2 hios x (List.mem_of_mem_take h)
    · rcases List.mem_cons.mp h with rfl | h
      · exact hm hios
      · exact hp.2 hios x (List.mem_of_mem_drop h)


/-- the parent-index shift caused by inserting a line at `e + 1` -/
def shiftAfter (e p : Nat) : Nat := if p ≤ e then p else p + 1

/-- **`parse` after a child-level insertion behind the family of `i`** (no banner / macro
starts, blank lines kept): the new line is a child of `i`, every old line keeps its parent
(shifted), except possibly a comment directly after the insertion point. -/
theorem parse_insert_child (cfg : Cfg) (ls : List Str) (i : Nat) (txt : Str)
    (hp : Plain cfg ls) (hi : cfg.ignoreBlank = false)
    (hb : isBannerStart txt = false) (hm : cfg.ios = true → isMacroStart txt = false)
    (hk : children (parse cfg ls) i ≠ []) (hxc : isComment cfg txt = false)
    (hlt : indent (ls.getD i []) < indent txt)
    (Hc : ∀ c, c ∈ children (parse cfg ls) i → isConfigLine cfg (ls.getD c []) = true →
      indent txt ≤ indent (ls.getD c [])) :
    let e := familyEndpoint (parse cfg ls) i
    let t' := parse cfg (ls.take (e + 1) ++ txt :: ls.drop (e + 1))
    i ≤ e ∧ e < ls.length ∧
    t'.texts = ls.take (e + 1) ++ txt :: ls.drop (e + 1) ∧
    parentOf t' (e + 1) = i ∧
    (∀ j, j ≤ e → parentOf t' j = parentOf (parse cfg ls) j) ∧
    (∀ j, e < j → j < ls.length → ¬ (j = e + 1 ∧ isComment cfg (ls.getD j []) = true) →
      parentOf t' (j + 1) = shiftAfter e (parentOf (parse cfg ls) j)) := by
  intro e t'
  have hst := parse_specTree cfg ls hp hi
  have hget : ∀ (j : Nat) (l : Info), (ls.map (info cfg))[j]? = some l → j < ls.length ∧ l = info cfg (ls.getD j []) := by
    intro j l hl
    simp only [List.getElem?_map, Option.map_eq_some_iff] at hl
    obtain ⟨x, hx, rfl⟩ := hl
    have hj := (List.getElem?_eq_some_iff.mp hx).1
    refine ⟨hj, ?_⟩
    rw [List.getD_eq_getElem?_getD, hx]; rfl
  obtain ⟨r0, r1, r2, r3, r4⟩ := specTree_insert_child hst i (info cfg txt) hk hxc
    (by intro li hli; obtain ⟨_, rfl⟩ := hget i li hli; exact hlt)
    (by intro c l hc hl hcfg; obtain ⟨_, rfl⟩ := hget c l hl; exact Hc c hc hcfg)
  have hlen : (ls.map (info cfg)).length = ls.length := by simp
  rw [hlen] at r1
  have hnew : (ls.map (info cfg)).take (e + 1) ++ info cfg txt :: (ls.map (info cfg)).drop (e + 1)
      = (ls.take (e + 1) ++ txt :: ls.drop (e + 1)).map (info cfg) := by simp [List.map_take, List.map_drop]
  have hp' := plain_insert cfg ls (e + 1) txt hp hb hm
  have hnl : (ls.take (e + 1) ++ txt :: ls.drop (e + 1)).length = ls.length + 1 := by
    simp; omega
  have hpo : ∀ k, k < ls.length + 1 → parentOf t' k
      = specParent ((ls.map (info cfg)).take (e + 1) ++ info cfg txt :: (ls.map (info cfg)).drop (e + 1)) k := by
    intro k hk'
    rw [hnew]; exact parse_parentOf cfg _ hp' hi k (by omega)
  refine ⟨r0, r1, ?_, ?_, ?_, ?_⟩
  · show (parse cfg _).texts = _
    rw [parse_plain cfg _ hp' hi]
  · rw [hpo _ (by omega)]; exact r2
  · intro j hj
    rw [hpo j (by omega), r3 j hj, parse_parentOf cfg ls hp hi j (by omega)]
  · intro j hej hjl hcm
    have hl : (ls.map (info cfg))[j]? = some (info cfg (ls.getD j [])) := by
      simp [List.getElem?_map, List.getD_eq_getElem?_getD, List.getElem?_eq_getElem hjl]
    rw [hpo (j + 1) (by omega), r4 j _ hej hl hcm, parse_parentOf cfg ls hp hi j hjl]
    rfl

/-! ## `specParent` when a set of lines is removed -/

/-- the kept elements, in order (`c` = index of the head of the list) -/
def sel (keep : Nat → Bool) : Nat → List α → List α
  | _, [] => []
  | c, a :: as => if keep c then a :: sel keep (c + 1) as else sel keep (c + 1) as

/-- number of kept positions below `n` = new position of a kept line `n` -/
def rank (keep : Nat → Bool) : Nat → Nat
  | 0 => 0
  | n + 1 => rank keep n + (if keep n then 1 else 0)

theorem sel_append (keep : Nat → Bool) (c : Nat) (l1 l2 : List α) :
    sel keep c (l1 ++ l2) = sel keep c l1 ++ sel keep (c + l1.length) l2 := by
  induction l1 generalizing c with
  | nil => simp [sel]
  | cons a as ih =>
    simp only [List.cons_append, sel, ih, List.length_cons]
    have : c + 1 + as.length = c + (as.length + 1) := by omega
    rw [this]
    split <;> simp

theorem sel_take_length (keep : Nat → Bool) (l : List α) (n : Nat) (hn : n ≤ l.length) :
    (sel keep 0 (l.take n)).length = rank keep n := by
  induction n with
  | zero => simp [sel, rank]
  | succ n ih =>
    have hlt : n < l.length := by omega
    rw [List.take_succ_eq_append_getElem hlt, sel_append, List.length_append, ih (by omega)]
    simp only [List.length_take, Nat.min_eq_left (Nat.le_of_lt hlt), Nat.zero_add, sel, rank]
    split <;> simp

/-- a kept line `n` is found at position `rank n` of the new list -/
theorem sel_getElem? (keep : Nat → Bool) (l : List α) (n : Nat) (hn : n < l.length) (hk : keep n = true) :
    (sel keep 0 l)[rank keep n]? = l[n]? := by
  have h1 : l = l.take n ++ l[n] :: l.drop (n + 1) := by simp
  have h2 : sel keep 0 l = sel keep 0 (l.take n) ++ (l[n] :: sel keep (n + 1) (l.drop (n + 1))) := by
    conv => lhs; rw [h1]
    rw [sel_append]
    simp only [List.length_take, Nat.min_eq_left (Nat.le_of_lt hn), Nat.zero_add, sel, hk, if_true]
  rw [h2, List.getElem?_append_right (by rw [sel_take_length keep l n (by omega)]; exact Nat.le_refl _),
    sel_take_length keep l n (by omega)]
  simp [List.getElem?_eq_getElem hn]

theorem sel_eq_filter (keep : Nat → Bool) (l : List α) (c : Nat) :
    sel keep c l = ((l.zipIdx c).filter (fun p => keep p.2)).map (·.1) := by
  induction l generalizing c with
  | nil => rfl
  | cons a as ih =>
    simp only [sel, List.zipIdx_cons, List.filter_cons, ih (c + 1)]
    split <;> simp

theorem eraseAll_eq_sel (l : List α) (idxs : List Nat) :
    Ccp.Edit.eraseAll l idxs = sel (fun j => !idxs.contains j) 0 l := by
  rw [Ccp.Edit.eraseAll_eq_filter, sel_eq_filter]

/-- `nearestShallower` over the kept lines: an answer that is kept stays the answer -/
theorem nearestShallower_sel (keep : Nat → Bool) (infos : List Info) (k n : Nat) (hn : n ≤ infos.length) :
    (nearestShallower infos k n = none → nearestShallower (sel keep 0 infos) k (rank keep n) = none) ∧
    (∀ p, nearestShallower infos k n = some p → keep p = true →
      nearestShallower (sel keep 0 infos) k (rank keep n) = some (rank keep p)) := by
  induction n with
  | zero => simp [nearestShallower, rank]
  | succ n ih =>
    have hlt : n < infos.length := by omega
    obtain ⟨ih1, ih2⟩ := ih (by omega)
    have hr : infos[n]? = some infos[n] := List.getElem?_eq_getElem hlt
    have hold : nearestShallower infos k (n + 1)
        = if infos[n].isCfg = true ∧ infos[n].indent < k then some n else nearestShallower infos k n := by
      conv => lhs; unfold nearestShallower
      rw [hr]
    rw [hold]
    by_cases hk : keep n = true
    · have hrank : rank keep (n + 1) = rank keep n + 1 := by simp [rank, hk]
      have hnew : nearestShallower (sel keep 0 infos) k (rank keep n + 1)
          = if infos[n].isCfg = true ∧ infos[n].indent < k then some (rank keep n)
            else nearestShallower (sel keep 0 infos) k (rank keep n) := by
        conv => lhs; unfold nearestShallower
        rw [sel_getElem? keep infos n hlt hk, hr]
      rw [hrank, hnew]
      by_cases hc : infos[n].isCfg = true ∧ infos[n].indent < k
      · simp only [hc, and_self, if_true]
        refine ⟨fun h => (by cases h), fun p hp _ => ?_⟩
        cases hp; rfl
      · simp only [hc, if_false]
        exact ⟨ih1, ih2⟩
    · have hrank : rank keep (n + 1) = rank keep n := by simp [rank, hk]
      rw [hrank]
      by_cases hc : infos[n].isCfg = true ∧ infos[n].indent < k
      · simp only [hc, and_self, if_true]
        refine ⟨fun h => (by cases h), fun p hp hkp => ?_⟩
        cases hp; exact absurd hkp hk
      · simp only [hc, if_false]
        exact ⟨ih1, ih2⟩


/-- **removing lines on the specification level**: a kept line `j` whose parent is itself
or a kept line, and whose comment-under-a-deeper-line status is not disturbed, has the new
position of its old parent as its parent in the new list. -/
theorem specParent_sel (keep : Nat → Bool) (infos : List Info) (j : Nat) (hj : j < infos.length)
    (hkj : keep j = true)
    (hcud : commentUnderDeeper (sel keep 0 infos) (rank keep j) = commentUnderDeeper infos j)
    (hpar : specParent infos j = j ∨ keep (specParent infos j) = true) :
    specParent (sel keep 0 infos) (rank keep j) = rank keep (specParent infos j) := by
  have hl : infos[j]? = some infos[j] := List.getElem?_eq_getElem hj
  have hnl := sel_getElem? keep infos j hj hkj
  rw [hl] at hnl
  have hold : specParent infos j = if infos[j].indent = 0 ∨ commentUnderDeeper infos j = true then j
      else (nearestShallower infos infos[j].indent j).getD j := by
    unfold specParent; rw [hl]
  have hnew : specParent (sel keep 0 infos) (rank keep j)
      = if infos[j].indent = 0 ∨ commentUnderDeeper infos j = true then rank keep j
        else (nearestShallower (sel keep 0 infos) infos[j].indent (rank keep j)).getD (rank keep j) := by
    unfold specParent; rw [hnl]; simp only [hcud]
  rw [hold] at hpar
  rw [hnew, hold]
  split
  · rfl
  · rename_i hroot
    simp only [hroot, if_false] at hpar
    obtain ⟨h1, h2⟩ := nearestShallower_sel keep infos infos[j].indent j (by omega)
    cases hn : nearestShallower infos infos[j].indent j with
    | none => rw [h1 hn]; rfl
    | some p =>
      rw [hn] at hpar
      simp only [Option.getD_some] at hpar ⊢
      have hp := ((nearestShallower_eq_some infos _ j p).mp hn).1
      rcases hpar with hpar | hpar
      · omega
      · rw [h2 p hn hpar]; rfl

/-- the comment status is undisturbed when the line is not a comment, or the line directly
above it is kept as well -/
theorem commentUnderDeeper_sel (keep : Nat → Bool) (infos : List Info) (j : Nat) (hj : j < infos.length)
    (hkj : keep j = true)
    (h : infos[j].isCmt = false ∨ ∃ j', j = j' + 1 ∧ keep j' = true) :
    commentUnderDeeper (sel keep 0 infos) (rank keep j) = commentUnderDeeper infos j := by
  have hl : infos[j]? = some infos[j] := List.getElem?_eq_getElem hj
  have hnl := sel_getElem? keep infos j hj hkj
  rw [hl] at hnl
  rcases h with h | ⟨j', rfl, hk'⟩
  · have e1 : commentUnderDeeper infos j = false := by
      unfold commentUnderDeeper; cases j <;> simp [hl, h]
    have e2 : commentUnderDeeper (sel keep 0 infos) (rank keep j) = false := by
      unfold commentUnderDeeper
      cases hr : rank keep j with
      | zero => rfl
      | succ r => rw [hr] at hnl; simp [hnl, h]
    rw [e1, e2]
  · have hr : rank keep (j' + 1) = rank keep j' + 1 := by simp [rank, hk']
    rw [hr] at hnl ⊢
    have hp := sel_getElem? keep infos j' (by omega) hk'
    unfold commentUnderDeeper
    simp only [hnl, hl, hp]

theorem plain_sublist (cfg : Cfg) {ls ls' : List Str} (h : ls'.Sublist ls) (hp : Plain cfg ls) : Plain cfg ls' :=
  ⟨fun x hx => hp.1 x (h.subset hx), fun hios x hx => hp.2 hios x (h.subset hx)⟩

/-- **`parse` after deleting line `i` and its descendants** (no banner / macro starts, blank
lines kept): a surviving line `j` sits at `rank keep j` with its old text, and its parent
is the new position of its old parent — except possibly a comment whose directly preceding
line was deleted. -/
theorem parse_delete (cfg : Cfg) (ls : List Str) (i : Nat)
    (hp : Plain cfg ls) (hi : cfg.ignoreBlank = false) :
    let t := parse cfg ls
    let dead := Ccp.Edit.descendantsAndSelf t i
    let keep : Nat → Bool := fun j => !dead.contains j
    let t' := parse cfg (Ccp.Edit.eraseAll ls dead)
    t'.texts = Ccp.Edit.eraseAll ls dead ∧
    ∀ j, j < ls.length → keep j = true →
      t'.texts[rank keep j]? = ls[j]? ∧
      (keep (parentOf t j) = true) ∧
      (¬ (isComment cfg (ls.getD j []) = true ∧ ∃ j', j = j' + 1 ∧ keep j' = false) →
        parentOf t' (rank keep j) = rank keep (parentOf t j)) := by
  intro t dead keep t'
  have hst := parse_specTree cfg ls hp hi
  have hf : Forest t := hst.1
  have hp' : Plain cfg (Ccp.Edit.eraseAll ls dead) := plain_sublist cfg (Ccp.Edit.eraseAll_sublist ls dead) hp
  have htx : t'.texts = Ccp.Edit.eraseAll ls dead := by
    show (parse cfg _).texts = _; rw [parse_plain cfg _ hp' hi]
  have hsel : Ccp.Edit.eraseAll ls dead = sel keep 0 ls := eraseAll_eq_sel ls dead
  have hinf : (Ccp.Edit.eraseAll ls dead).map (info cfg) = sel keep 0 (ls.map (info cfg)) := by
    rw [Ccp.Edit.eraseAll_map, eraseAll_eq_sel]
  refine ⟨htx, fun j hj hkj => ?_⟩
  have hget : (sel keep 0 ls)[rank keep j]? = ls[j]? := sel_getElem? keep ls j hj hkj
  have hrl : rank keep j < (Ccp.Edit.eraseAll ls dead).length := by
    rw [hsel]
    have : (sel keep 0 ls)[rank keep j]? = some ls[j] := by rw [hget, List.getElem?_eq_getElem hj]
    exact (List.getElem?_eq_some_iff.mp this).1
  -- the parent of a survivor survives
  have hjd : j ∉ dead := by simpa [keep] using hkj
  have hkp : keep (parentOf t j) = true := by
    by_cases hpj : parentOf t j = j
    · rw [hpj]; exact hkj
    · have hlt : parentOf t j < j := by have := parentOf_le_of_forest hf j; omega
      have : parentOf t j ∉ dead := by
        intro hm
        apply hjd
        simp only [dead, Ccp.Edit.descendantsAndSelf, List.mem_cons] at hm ⊢
        right
        rw [mem_allChildren hf, ancestors_of_lt hlt]
        rcases hm with hm | hm
        · simp [hm]
        · exact List.mem_cons_of_mem _ ((mem_allChildren hf).mp hm)
      simpa [keep] using this
  refine ⟨by rw [htx, hsel]; exact hget, hkp, fun hex => ?_⟩
  have hjl : j < (ls.map (info cfg)).length := by simpa using hj
  have hcud : commentUnderDeeper (sel keep 0 (ls.map (info cfg))) (rank keep j)
      = commentUnderDeeper (ls.map (info cfg)) j := by
    cases j with
    | zero => simp [rank, commentUnderDeeper]
    | succ j' =>
      apply commentUnderDeeper_sel keep _ _ hjl hkj
      by_cases hc : isComment cfg (ls.getD (j' + 1) []) = true
      · right
        refine ⟨j', rfl, ?_⟩
        cases hk' : keep j' with
        | true => rfl
        | false => exact absurd ⟨hc, j', rfl, hk'⟩ hex
      · left
        simp only [List.getElem_map, info]
        rw [List.getD_eq_getElem?_getD, List.getElem?_eq_getElem hj] at hc
        simpa using hc
  have hpo := parse_parentOf cfg ls hp hi j hj
  rw [parse_parentOf cfg _ hp' hi _ hrl, hinf,
    specParent_sel keep _ j hjl hkj hcud (by rw [← hpo]; exact .inr hkp), ← hpo]

end Ccp.Tree

namespace Ccp.Edit
open Ccp.Py Ccp.Tree

theorem tdiv_eq_one_pos (a b : Int) (hb : 0 ≤ b) (h : Int.tdiv a b = 1) : 0 < a := by
  apply Classical.byContradiction
  intro hn
  have ha : a ≤ 0 := by omega
  have h1 : Int.tdiv (-a) b ≥ 0 := Int.tdiv_nonneg (by omega) hb
  rw [Int.neg_tdiv] at h1
  omega

/-- a payload classified one level below the target is indented deeper than it -/
theorem cfi_one_lt (w si : Nat) (txt : Str) (h : cfi w si txt = some 1) : si < indent txt := by
  unfold cfi at h
  dsimp only at h
  split at h
  · cases h
  · split at h
    · cases h
    · split at h
      · cases h
      · injection h with h
        have := tdiv_eq_one_pos _ _ (by omega) h
        omega

/-- with auto-commit on, the tree after a text change is the parse of the changed texts -/
theorem auto_tree_after (s : S) (ha : s.auto = true) (its : List Item) (st : Bool) :
    (autoCommit { s with items := its, stale := st, dirty := true }).tree
      = parse s.cfg (its.map Item.text) := by
  simp only [autoCommit, ha, if_true, commit]
  rw [parse_eq_bootstrap]; rfl

end Ccp.Edit
