import Ccp.Proofs.Edit
import Ccp.Proofs.TreeLink
import Ccp.Proofs.TreeLossless
/-!
Parent links after an edit (C06 deepening): how `specParent` (the indentation rule of C02)
behaves when one line is inserted into / a set of lines is removed from a config, and the
lift to the edit state machine for configs without banner / macro starts.  Core Lean only.
-/
namespace Ccp.Tree
open Ccp.Py

/-! ## `specParent` under insertion of one line -/

theorem nearestShallower_congr (A B : List Info) (k n : Nat) (h : ∀ m, m < n → A[m]? = B[m]?) :
    nearestShallower A k n = nearestShallower B k n := by
  induction n with
  | zero => rfl
  | succ n ih =>
    unfold nearestShallower
    rw [h n (Nat.lt_succ_self n), ih (fun m hm => h m (by omega))]

theorem commentUnderDeeper_congr (A B : List Info) (j : Nat) (h : ∀ m, m ≤ j → A[m]? = B[m]?) :
    commentUnderDeeper A j = commentUnderDeeper B j := by
  unfold commentUnderDeeper
  cases j with
  | zero => rw [h 0 (Nat.le_refl _)]
  | succ j =>
    rw [h (j + 1) (Nat.le_refl _)]
    cases B[j + 1]? with
    | none => rfl
    | some l => simp only [h j (by omega)]

theorem specParent_congr (A B : List Info) (j : Nat) (h : ∀ m, m ≤ j → A[m]? = B[m]?) :
    specParent A j = specParent B j := by
  unfold specParent
  have hns : ∀ k, nearestShallower A k j = nearestShallower B k j :=
    fun k => nearestShallower_congr A B k j (fun m hm => h m (by omega))
  simp only [h j (Nat.le_refl _), commentUnderDeeper_congr A B j h, hns]

/-- `nearestShallower` past an inserted line `x` at position `c` -/
theorem nearestShallower_insert (infos : List Info) (x : Info) (c : Nat) (hc : c ≤ infos.length) (k d : Nat) :
    nearestShallower (infos.take c ++ x :: infos.drop c) k (c + d + 1) =
      match nearestShallower infos k (c + d) with
      | some p => if c ≤ p then some (p + 1)
                  else if x.isCfg = true ∧ x.indent < k then some c else some p
      | none => if x.isCfg = true ∧ x.indent < k then some c else none := by
  have hf := Ccp.Edit.inserted_frame infos c x hc
  induction d with
  | zero =>
    have hx : (infos.take c ++ x :: infos.drop c)[c]? = some x := hf.2.1
    have hpre : nearestShallower (infos.take c ++ x :: infos.drop c) k c = nearestShallower infos k c :=
      nearestShallower_congr _ _ k c (fun m hm => hf.2.2.2.1 m hm)
    rw [Nat.add_zero]
    conv => lhs; unfold nearestShallower
    simp only [hx, hpre]
    cases hn : nearestShallower infos k c with
    | none => rfl
    | some p =>
      have := ((nearestShallower_eq_some infos k c p).mp hn).1
      simp only [show ¬ c ≤ p by omega, if_false]
  | succ d ih =>
    have hget : (infos.take c ++ x :: infos.drop c)[c + d + 1]? = infos[c + d]? := hf.2.2.2.2 (c + d) (by omega)
    have e1 : c + (d + 1) + 1 = (c + d + 1) + 1 := by omega
    have e2 : c + (d + 1) = (c + d) + 1 := by omega
    rw [e1, e2]
    conv => lhs; unfold nearestShallower
    conv => rhs; unfold nearestShallower
    rw [hget, ih]
    cases hl : infos[c + d]? with
    | none => rfl
    | some l =>
      simp only
      split
      · simp only [show c ≤ c + d by omega, if_true]
      · rfl


/-- **child-level insertion on the specification level**.  `i` is a configuration line, the
payload `x` is a configuration line (not a comment) indented deeper than `i`, it is put at
`e + 1` where `i ≤ e`; every configuration line in `(i, e]` is indented at least as deep
as the payload (`H1`), and no line after `e` has its parent inside `[i, e]` (`H3`: the block
`[i, e]` is closed — true when `e` is the family endpoint of `i`).  Then the new line's
parent is `i`, the lines up to `e` keep their parents, and every line after `e` keeps its
parent (shifted by one when it lies after `e`) — except possibly a comment directly after
the insertion point, whose attachment depends on the line above it. -/
theorem specParent_insert_child (infos : List Info) (i e : Nat) (x li : Info)
    (hi : infos[i]? = some li) (hie : i ≤ e) (he : e < infos.length)
    (hli : li.isCfg = true) (hxc : x.isCmt = false) (hlt : li.indent < x.indent)
    (H1 : ∀ m l, i < m → m ≤ e → infos[m]? = some l → l.isCfg = true → x.indent ≤ l.indent)
    (H3 : ∀ j, e < j → j < infos.length → ¬ (i ≤ specParent infos j ∧ specParent infos j ≤ e)) :
    specParent (infos.take (e + 1) ++ x :: infos.drop (e + 1)) (e + 1) = i ∧
    (∀ j, j ≤ e → specParent (infos.take (e + 1) ++ x :: infos.drop (e + 1)) j = specParent infos j) ∧
    (∀ j l, e < j → infos[j]? = some l → ¬ (j = e + 1 ∧ l.isCmt = true) →
      specParent (infos.take (e + 1) ++ x :: infos.drop (e + 1)) (j + 1)
        = if specParent infos j ≤ e then specParent infos j else specParent infos j + 1) := by
  have hf := Ccp.Edit.inserted_frame infos (e + 1) x (by omega)
  generalize hnew : infos.take (e + 1) ++ x :: infos.drop (e + 1) = new at hf ⊢
  simp only at hf
  obtain ⟨_, hxat, _, hpre, hpost⟩ := hf
  refine ⟨?_, ?_, ?_⟩
  · -- the new line
    unfold specParent
    rw [hxat]
    have hcud : commentUnderDeeper new (e + 1) = false := by
      unfold commentUnderDeeper; simp [hxat, hxc]
    have h0 : ¬ x.indent = 0 := by omega
    simp only [hcud, h0, false_or, Bool.false_eq_true, if_false]
    have : nearestShallower new x.indent (e + 1) = some i := by
      rw [nearestShallower_congr new infos x.indent (e + 1) (fun m hm => hpre m hm)]
      rw [nearestShallower_eq_some]
      refine ⟨by omega, ⟨li, hi, hli, hlt⟩, ?_⟩
      intro m l h1 h2 h3 h4
      have := H1 m l h1 (by omega) h3 h4.1
      omega
    rw [this]; rfl
  · intro j hj
    exact specParent_congr new infos j (fun m hm => hpre m (by omega))
  · intro j l hej hl hcm
    have hjl : j < infos.length := (List.getElem?_eq_some_iff.mp hl).1
    have hnl : new[j + 1]? = some l := by rw [hpost j (by omega), hl]
    -- the line above
    have hcud : commentUnderDeeper new (j + 1) = commentUnderDeeper infos j := by
      by_cases hc : l.isCmt = true
      · have hne : j ≠ e + 1 := fun h => hcm ⟨h, hc⟩
        obtain ⟨j', rfl⟩ : ∃ j', j = j' + 1 := ⟨j - 1, by omega⟩
        unfold commentUnderDeeper
        simp only [hnl, hl]
        rw [hpost j' (by omega)]
      · have hc' : l.isCmt = false := by simpa using hc
        unfold commentUnderDeeper
        cases j with
        | zero => simp [hnl, hc']
        | succ j' => simp [hnl, hl, hc']
    unfold specParent
    rw [hnl, hl]
    simp only [hcud]
    split
    · -- a root stays a root
      have : ¬ j ≤ e := by omega
      simp [this]
    · rename_i hroot
      have hsp : specParent infos j = (nearestShallower infos l.indent j).getD j := by
        unfold specParent; rw [hl]; simp only [hroot, if_false]
      obtain ⟨d, rfl⟩ : ∃ d, j = e + 1 + d := ⟨j - (e + 1), by omega⟩
      rw [← hnew, nearestShallower_insert infos x (e + 1) (by omega) l.indent d]
      have h3 := H3 (e + 1 + d) hej hjl
      rw [hsp] at h3
      cases hn : nearestShallower infos l.indent (e + 1 + d) with
      | none =>
        simp only [Option.getD_none]
        have hnone := (nearestShallower_eq_none infos l.indent (e + 1 + d)).mp hn
        have hnc : ¬ (x.isCfg = true ∧ x.indent < l.indent) := by
          intro hc
          exact hnone i li (by omega) hi ⟨hli, by omega⟩
        simp [hnc]; omega
      | some p =>
        simp only [Option.getD_some]
        rw [hn] at h3
        simp only [Option.getD_some] at h3
        obtain ⟨hp1, _, hp3⟩ := (nearestShallower_eq_some infos l.indent (e + 1 + d) p).mp hn
        by_cases hpe : e + 1 ≤ p
        · simp [hpe, show ¬ p ≤ e by omega]
        · have hnc : ¬ (x.isCfg = true ∧ x.indent < l.indent) := by
            intro hc
            -- `i` is then a candidate, so `p ≥ i`, contradicting `H3`
            have hip : i ≤ p := by
              apply Classical.byContradiction
              intro hlt'
              exact hp3 i li (by omega) (by omega) hi ⟨hli, by omega⟩
            exact h3 ⟨hip, by omega⟩
          simp [hpe, hnc, show p ≤ e by omega]

end Ccp.Tree
