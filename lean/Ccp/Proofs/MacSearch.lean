import Ccp.Proofs.Mac
/-!
Helper lemmas for the C16 additions: `str()` / `repr()` of `MACObj` / `EUI64Obj` (the canonical
upper-case text of macaddress re-parses to the same value) and the literal regex fragment used by
the `search_all_formats` stream.  Core Lean only.
-/
namespace Ccp.Mac
open Ccp.Py

/-! ## the upper-case canonical text -/

/-- the upper-case hex digit of `d < 16` (`_HEX_DIGITS[d]`) -/
def hexU (d : Nat) : Char := hexDigits.getD d '0'

/-- spec of `format(v, "0{w}X")` -/
def toHexU : Nat → Nat → Str
  | 0, _ => []
  | w + 1, v => toHexU w (v / 16) ++ [hexU (v % 16)]

theorem hexVal_hexU : ∀ d, d < 16 → hexVal (hexU d) = d := by decide
theorem isHex_hexU : ∀ d, d < 16 → isHex (hexU d) = true := by decide
theorem lowerChar_hexU : ∀ d, d < 16 → lowerChar (hexU d) = hexL d := by decide
theorem hexU_ne_dash : ∀ d, d < 16 → (hexU d = '-') = False := by decide

theorem ofHex_toHexU (w : Nat) : ∀ v, ofHex (toHexU w v) = v % 16 ^ w := by
  induction w with
  | zero => intro v; simp [toHexU, ofHex, Nat.mod_one]
  | succ w ih =>
    intro v
    rw [toHexU, ofHex_append, ih, hexVal_hexU _ (Nat.mod_lt _ (by omega)), Nat.pow_succ', Nat.mod_mul]
    omega

theorem toHexU_length (w : Nat) : ∀ v, (toHexU w v).length = w := by
  induction w with
  | zero => intro v; rfl
  | succ w ih => intro v; simp [toHexU, ih]

theorem toHexU_digits (w : Nat) : ∀ v, ∀ c ∈ toHexU w v, ∃ d, d < 16 ∧ c = hexU d := by
  induction w with
  | zero => intro v c hc; simp [toHexU] at hc
  | succ w ih =>
    intro v c hc
    simp only [toHexU, List.mem_append, List.mem_singleton] at hc
    rcases hc with hc | hc
    · exact ih _ c hc
    · exact ⟨v % 16, Nat.mod_lt _ (by omega), hc⟩

theorem nibU (v : Nat) : hexDigits[v % 16]?.getD '0' = hexU (v % 16) := by
  simp [hexU, List.getD]

theorem hexU_nib_ne_dash (v : Nat) : (hexU (v % 16) = '-') = False :=
  hexU_ne_dash _ (Nat.mod_lt _ (by omega))

/-- `str(self.mac)` is the canonical template filled with the upper-case digits -/
theorem str_mac (v : Nat) : hwStr eui48 v = fill (eui48.formats.headD []) (toHexU 12 v) := by
  simp [hwStr, eui48, offset, strLoop, and15, shr4, nibU, fill, toHexU]

theorem str_eui64 (v : Nat) : hwStr eui64 v = fill (eui64.formats.headD []) (toHexU 16 v) := by
  simp [hwStr, eui64, offset, strLoop, and15, shr4, nibU, fill, toHexU]

theorem str_eq (k : Kind) (v : Nat) : hwStr k.cls v = fill (tpl k 0) (toHexU (2 * k.nbytes) v) := by
  cases k
  · exact str_mac v
  · exact str_eui64 v

/-- the canonical (upper-case) text constructs the same value -/
theorem parse_str (k : Kind) (v : Nat) (hv : v < 2 ^ (8 * k.nbytes)) :
    parseObj k (hwStr k.cls v) = .ok v := by
  rw [str_eq, parse_fill_digits k _ (tpl_mem k 0 (by omega)) _ _ (toHexU_length _ _), ofHex_toHexU,
    pow_bits, Nat.mod_eq_of_lt hv]
  intro d hd
  obtain ⟨n, hn, rfl⟩ := toHexU_digits _ _ d hd
  exact isHex_hexU n hn

/-! ## the literal regex fragment -/

theorem rxMatchChar_self (c : Char) : rxMatchChar c c = true := by
  unfold rxMatchChar
  split
  · next h => subst h; decide
  · simp

theorem rxAt_self : ∀ t : Str, rxAt t t = true
  | [] => rfl
  | c :: cs => by simp [rxAt, rxMatchChar_self, rxAt_self cs]

theorem rxAt_append : ∀ (p t s : Str), rxAt p t = true → rxAt p (t ++ s) = true
  | [], _, _, _ => by simp [rxAt]
  | _ :: _, [], _, h => by simp [rxAt] at h
  | p :: ps, c :: cs, s, h => by
    simp only [rxAt, Bool.and_eq_true, List.cons_append] at h ⊢
    exact ⟨h.1, rxAt_append ps cs s h.2⟩

theorem rxSearch_of_at (p : Str) : ∀ t, rxAt p t = true → rxSearch p t = true
  | [], h => by simpa [rxSearch] using h
  | c :: cs, h => by simp [rxSearch, h]

/-- a regex is found in every text that contains (a text matching) it -/
theorem rxSearch_infix (p : Str) : ∀ (pre suf : Str), rxSearch p (pre ++ p ++ suf) = true
  | [], suf => by
    rw [List.nil_append]
    exact rxSearch_of_at p _ (rxAt_append p p suf (rxAt_self p))
  | c :: pre, suf => by
    simp only [List.cons_append, rxSearch, Bool.or_eq_true]
    exact Or.inr (rxSearch_infix p pre suf)

/-- a pattern without `.` whose characters and the text's characters are unchanged by lower-casing
(lower-case hex digits, separators) matches at the start iff it is a prefix -/
theorem rxAt_literal : ∀ (p t : Str), (∀ c ∈ p, c ≠ '.' ∧ lowerChar c = c) → (∀ c ∈ t, lowerChar c = c) →
    (rxAt p t = true ↔ p <+: t)
  | [], t, _, _ => by simp [rxAt]
  | _ :: _, [], _, _ => by simp [rxAt]
  | p :: ps, c :: cs, hp, ht => by
    have hp0 := hp p (List.mem_cons_self ..)
    have hc0 := ht c (List.mem_cons_self ..)
    have ih := rxAt_literal ps cs (fun x hx => hp x (List.mem_cons_of_mem _ hx))
      (fun x hx => ht x (List.mem_cons_of_mem _ hx))
    simp only [rxAt, rxMatchChar, hp0.1, if_false, hp0.2, hc0, Bool.and_eq_true, beq_iff_eq, ih,
      List.cons_prefix_cons]

/-- … and is found iff it is a substring -/
theorem rxSearch_literal (p : Str) (hp : ∀ c ∈ p, c ≠ '.' ∧ lowerChar c = c) :
    ∀ t : Str, (∀ c ∈ t, lowerChar c = c) → (rxSearch p t = true ↔ p <:+: t)
  | [], _ => by
    rw [rxSearch, rxAt_literal p [] hp (by simp)]
    simp [List.prefix_nil, List.infix_nil]
  | c :: cs, ht => by
    rw [rxSearch, Bool.or_eq_true, rxAt_literal p (c :: cs) hp ht,
      rxSearch_literal p hp cs (fun x hx => ht x (List.mem_cons_of_mem _ hx)), List.infix_cons_iff]

/-- the four searched texts consist of lower-case hex digits and separators -/
theorem searchTexts_lower (k : Kind) (v : Nat) : ∀ t ∈ searchTexts k v, ∀ c ∈ t, lowerChar c = c := by
  have hd : ∀ c ∈ lowerDigits, lowerChar c = c := by decide
  have key : ∀ i, i < 4 → ∀ c ∈ fill (tpl k i) (toHex (2 * k.nbytes) v), lowerChar c = c := by
    intro i hi c hc
    rcases fill_chars k _ (tpl_mem k i hi) v c hc with h | h
    · exact hd c h
    · have : ∀ i, i < 4 → ∀ c ∈ tpl k i, c ≠ 'x' → lowerChar c = c := by
        intro i hi
        match i, hi with
        | 0, _ | 1, _ | 2, _ | 3, _ => cases k <;> decide
      exact this i hi c h.1 h.2
  intro t ht
  simp only [searchTexts, List.mem_cons, List.not_mem_nil, or_false] at ht
  rcases ht with rfl | rfl | rfl | rfl
  · rw [dash_eq]; exact key 0 (by omega)
  · rw [colon_eq]; exact key 1 (by omega)
  · rw [cisco_eq]; exact key 2 (by omega)
  · rw [bare_eq]; exact key 3 (by omega)

end Ccp.Mac
