import Ccp.Proofs.IPText
import Ccp.Spec.IP
/-! C11: the stdlib IPv6 parser model against the RFC 4291 spelling grammar (`Ccp.Spec.IP.IsV6Spelling`). -/
namespace Ccp.IPText
open Ccp.Py Ccp.Spec

/-! ### hextets -/
theorem hexDigitVal_eq (c : Char) :
    (isHexDigit c = true → IP.hexDigitVal c = some (hexVal c) ∧ hexVal c < 16) ∧
    (isHexDigit c = false → IP.hexDigitVal c = none) := by
  unfold isHexDigit isDigit IP.hexDigitVal hexVal isDigit
  constructor
  · intro h
    simp only [Bool.or_eq_true, Bool.and_eq_true, decide_eq_true_eq] at h
    rcases h with (h | h) | h
    · simp [h.1, h.2]; omega
    · have : ¬ (48 ≤ c.toNat ∧ c.toNat ≤ 57) := by omega
      simp [this, h.1, h.2]; omega
    · have h1 : ¬ (48 ≤ c.toNat ∧ c.toNat ≤ 57) := by omega
      have h2 : ¬ (97 ≤ c.toNat ∧ c.toNat ≤ 102) := by omega
      have h3 : ¬ (97 ≤ c.toNat) := by omega
      simp [h1, h2, h3, h.1, h.2]; omega
  · intro h
    simp only [Bool.or_eq_false_iff, Bool.and_eq_false_iff, decide_eq_false_iff_not] at h
    have h1 : ¬ (48 ≤ c.toNat ∧ c.toNat ≤ 57) := by omega
    have h2 : ¬ (97 ≤ c.toNat ∧ c.toNat ≤ 102) := by omega
    have h3 : ¬ (65 ≤ c.toNat ∧ c.toNat ≤ 70) := by omega
    simp [h1, h2, h3]

theorem ofHexAux_eq (s : Str) (acc : Nat) : ofHexAux s acc = IP.hexNumFrom acc s := by
  induction s generalizing acc with
  | nil => rfl
  | cons c cs ih =>
    unfold ofHexAux IP.hexNumFrom
    cases h : isHexDigit c with
    | true => simp [((hexDigitVal_eq c).1 h).1, ih]
    | false => simp [(hexDigitVal_eq c).2 h]

theorem hexNumFrom_all (s : Str) (acc g : Nat) (h : IP.hexNumFrom acc s = some g) :
    (∀ c ∈ s, isHexDigit c = true) ∧ g < (acc + 1) * 16 ^ s.length := by
  induction s generalizing acc with
  | nil => simp [IP.hexNumFrom] at h; subst h; simp
  | cons c cs ih =>
    unfold IP.hexNumFrom at h
    cases hc : isHexDigit c with
    | false => rw [(hexDigitVal_eq c).2 hc] at h; cases h
    | true =>
      have hv := (hexDigitVal_eq c).1 hc
      rw [hv.1] at h
      have := ih _ h
      refine ⟨?_, ?_⟩
      · intro x hx
        rcases List.mem_cons.mp hx with rfl | hx
        · exact hc
        · exact this.1 x hx
      · have h2 := this.2
        rw [List.length_cons, Nat.pow_succ]
        calc g < (acc * 16 + hexVal c + 1) * 16 ^ cs.length := h2
          _ ≤ ((acc + 1) * 16) * 16 ^ cs.length := Nat.mul_le_mul_right _ (by omega)
          _ = (acc + 1) * (16 ^ cs.length * 16) := by rw [Nat.mul_assoc, Nat.mul_comm 16]

theorem parseHextet_iff (s : Str) (g : Nat) : parseHextet s = some g ↔ IP.IsHextet s g := by
  unfold parseHextet IP.IsHextet ofHex
  constructor
  · intro h
    split at h
    · cases h
    · split at h
      · cases h
      · rename_i hlen
        split at h
        · cases h
        · rename_i hne
          rw [ofHexAux_eq] at h
          refine ⟨?_, by omega, h⟩
          cases s with
          | nil => exact absurd rfl hne
          | cons c cs => simp
  · rintro ⟨h1, h2, h3⟩
    have hall := (hexNumFrom_all s 0 g h3).1
    have : s.all isHexDigit = true := List.all_eq_true.mpr hall
    have hne : s ≠ [] := by intro e; rw [e] at h1; simp at h1
    have hl : ¬ s.length > 4 := by omega
    simp only [this, Bool.not_true, Bool.false_eq_true, if_false, hl, hne, ofHexAux_eq, h3]

theorem isHextet_lt (s : Str) (g : Nat) (h : IP.IsHextet s g) : g < 65536 := by
  have := (hexNumFrom_all s 0 g h.2.2).2
  have hp : 16 ^ s.length ≤ 16 ^ 4 := Nat.pow_le_pow_right (by omega) h.2.1
  omega

theorem isHextet_ne_nil (s : Str) (g : Nat) (h : IP.IsHextet s g) : s ≠ [] := by
  intro e; rw [e] at h; have := h.1; simp at this

/-- groups folded from an accumulator -/
def foldG (acc : Nat) (gs : List Nat) : Nat := gs.foldl (fun a g => a * 65536 + g) acc

theorem accHextets_iff (fs : List Str) (acc r : Nat) :
    accHextets acc fs = some r ↔ ∃ gs, IP.Hextets fs gs ∧ r = foldG acc gs := by
  induction fs generalizing acc with
  | nil =>
    constructor
    · intro h; cases h; exact ⟨[], trivial, rfl⟩
    · rintro ⟨gs, hg, rfl⟩
      cases gs with
      | nil => rfl
      | cons _ _ => exact absurd hg (by simp [IP.Hextets])
  | cons f fs ih =>
    constructor
    · intro h
      unfold accHextets at h
      cases hp : parseHextet f with
      | none => rw [hp] at h; cases h
      | some g =>
        rw [hp] at h
        simp only at h
        have hg := (parseHextet_iff f g).mp hp
        rw [shl_or acc g (isHextet_lt f g hg)] at h
        obtain ⟨gs, h1, h2⟩ := (ih _).mp h
        exact ⟨g :: gs, ⟨hg, h1⟩, h2⟩
    · rintro ⟨gs, hg, rfl⟩
      cases gs with
      | nil => exact absurd hg (by simp [IP.Hextets])
      | cons g gs =>
        obtain ⟨hg1, hg2⟩ := hg
        unfold accHextets
        rw [(parseHextet_iff f g).mpr hg1]
        simp only
        rw [shl_or acc g (isHextet_lt f g hg1)]
        exact (ih _).mpr ⟨gs, hg2, rfl⟩


/-! ### list lemmas -/
theorem join_splitOn (sep : Char) (s : Str) : join [sep] (splitOn sep s) = s := by
  induction s with
  | nil => rfl
  | cons c cs ih =>
    unfold splitOn
    cases h : splitOn sep cs with
    | nil => exact absurd h (splitOn_ne_nil sep cs)
    | cons w ws =>
      rw [h] at ih
      simp only
      by_cases hc : c = sep
      · subst hc
        simp only [if_true]
        cases ws with
        | nil => simp only [join] at ih ⊢; simp [ih]
        | cons w2 ws2 => simp only [join] at ih ⊢; simp [ih]
      · simp only [hc, if_false]
        cases ws with
        | nil => simp only [join] at ih ⊢; rw [ih]
        | cons w2 ws2 => simp only [join] at ih ⊢; simp [← ih]

theorem join_append2 (sep : Str) (X Y : List Str) (hx : X ≠ []) (hy : Y ≠ []) :
    join sep (X ++ Y) = join sep X ++ sep ++ join sep Y := by
  induction X with
  | nil => exact absurd rfl hx
  | cons x xs ih =>
    cases xs with
    | nil =>
      cases Y with
      | nil => exact absurd rfl hy
      | cons y ys => simp [join]
    | cons x2 xs2 =>
      have := ih (by simp)
      simp only [List.cons_append] at this ⊢
      simp only [join, this, List.append_assoc]

theorem emptyIdx_nil_iff (i : Nat) (l : List Str) : emptyIdx i l = [] ↔ ∀ p ∈ l, p ≠ [] := by
  induction l generalizing i with
  | nil => simp [emptyIdx]
  | cons p ps ih =>
    unfold emptyIdx
    by_cases hp : p = []
    · simp [hp]
    · simp [hp, ih]

theorem emptyIdx_append (i : Nat) (A : List Str) (B : List Str) (hA : ∀ p ∈ A, p ≠ []) :
    emptyIdx i (A ++ B) = emptyIdx (i + A.length) B := by
  induction A generalizing i with
  | nil => simp
  | cons a as ih =>
    have ha : a ≠ [] := hA a (by simp)
    simp only [List.cons_append, emptyIdx, ha, if_false, List.length_cons]
    rw [ih _ (fun p hp => hA p (by simp [hp]))]
    congr 1; omega

theorem emptyIdx_single (i k : Nat) (l : List Str) (h : emptyIdx i l = [k]) :
    ∃ A B, l = A ++ [] :: B ∧ (∀ p ∈ A, p ≠ []) ∧ (∀ p ∈ B, p ≠ []) ∧ k = i + A.length := by
  induction l generalizing i with
  | nil => simp [emptyIdx] at h
  | cons p ps ih =>
    unfold emptyIdx at h
    by_cases hp : p = []
    · subst hp
      simp only [if_true, List.cons.injEq] at h
      exact ⟨[], ps, rfl, by simp, (emptyIdx_nil_iff _ _).mp h.2, by simp [h.1]⟩
    · simp only [hp, if_false] at h
      obtain ⟨A, B, rfl, hA, hB, hk⟩ := ih _ h
      refine ⟨p :: A, B, rfl, ?_, hB, by simp [hk]; omega⟩
      intro q hq
      rcases List.mem_cons.mp hq with rfl | hq
      · exact hp
      · exact hA q hq

theorem emptyIdx_shape (i : Nat) (A B : List Str) (hA : ∀ p ∈ A, p ≠ []) (hB : ∀ p ∈ B, p ≠ []) :
    emptyIdx i (A ++ [] :: B) = [i + A.length] := by
  rw [emptyIdx_append i A _ hA]
  simp only [emptyIdx, if_true, List.cons.injEq, true_and]
  exact (emptyIdx_nil_iff _ _).mpr hB

/-! ### groups -/
theorem hextets_length (fs : List Str) (gs : List Nat) (h : IP.Hextets fs gs) : fs.length = gs.length := by
  induction fs generalizing gs with
  | nil => cases gs with
    | nil => rfl
    | cons _ _ => exact absurd h (by simp [IP.Hextets])
  | cons f fs ih => cases gs with
    | nil => exact absurd h (by simp [IP.Hextets])
    | cons g gs => simp [ih gs h.2]

theorem hextets_ne_nil (fs : List Str) (gs : List Nat) (h : IP.Hextets fs gs) : ∀ p ∈ fs, p ≠ [] := by
  induction fs generalizing gs with
  | nil => intro p hp; simp at hp
  | cons f fs ih => cases gs with
    | nil => exact absurd h (by simp [IP.Hextets])
    | cons g gs =>
      intro p hp
      rcases List.mem_cons.mp hp with rfl | hp
      · exact isHextet_ne_nil _ g h.1
      · exact ih gs h.2 p hp

theorem foldG_append (acc : Nat) (a b : List Nat) : foldG acc (a ++ b) = foldG (foldG acc a) b := by
  unfold foldG; rw [List.foldl_append]

theorem foldG_zeros (acc k : Nat) : foldG acc (List.replicate k 0) = acc * 65536 ^ k := by
  induction k generalizing acc with
  | zero => simp [foldG]
  | succ k ih =>
    rw [List.replicate_succ]
    show foldG (acc * 65536 + 0) (List.replicate k 0) = _
    rw [ih, Nat.add_zero, Nat.pow_succ, Nat.mul_assoc, Nat.mul_comm 65536]

theorem groupsVal_eq (gs : List Nat) : IP.groupsVal gs = foldG 0 gs := rfl


/-! ### `v6FromParts` against the grammar -/

/-- the colon-separated parts of `hi::lo` -/
def shape (hi lo : List Str) : List Str :=
  (if hi = [] then [[]] else hi) ++ [] :: (if lo = [] then [[]] else lo)

theorem join_shape (hi lo : List Str) :
    join [':'] (shape hi lo) = join [':'] hi ++ ':' :: ':' :: join [':'] lo := by
  unfold shape
  have key : ∀ X Y : List Str, X ≠ [] → Y ≠ [] →
      join [':'] (X ++ [] :: Y) = join [':'] X ++ ':' :: ':' :: join [':'] Y := by
    intro X Y hx hy
    rw [join_append2 [':'] X ([] :: Y) hx (by simp)]
    cases Y with
    | nil => exact absurd rfl hy
    | cons y ys => simp [join]
  by_cases h1 : hi = [] <;> by_cases h2 : lo = []
  · subst h1; subst h2; simp [join]
  · subst h1; simp only [if_true, h2, if_false]; rw [key _ _ (by simp) h2]; simp [join]
  · subst h2; simp only [if_true, h1, if_false]; rw [key _ _ h1 (by simp)]; simp [join]
  · simp only [h1, h2, if_false]; exact key _ _ h1 h2

/-- `v6FromParts` on a list with at least two parts, written with first / inner / last -/
def v6Core (f : Str) (inner : List Str) (l : Str) : Option Nat :=
  if inner.length + 2 > 9 then none else
  match emptyIdx 1 inner with
  | _ :: _ :: _ => none
  | [skip] =>
    if f = [] ∧ skip - 1 ≠ 0 then none else
    if l = [] ∧ inner.length + 2 - skip - 1 - 1 ≠ 0 then none else
    if 8 - ((if f = [] then skip - 1 else skip) +
        (if l = [] then inner.length + 2 - skip - 1 - 1 else inner.length + 2 - skip - 1)) < 1 then none else
    match accHextets 0 ((f :: (inner ++ [l])).take (if f = [] then skip - 1 else skip)) with
    | none => none
    | some a =>
      accHextets (a <<< (16 * (8 - ((if f = [] then skip - 1 else skip) +
        (if l = [] then inner.length + 2 - skip - 1 - 1 else inner.length + 2 - skip - 1)))))
        ((f :: (inner ++ [l])).drop (inner.length + 2 -
          (if l = [] then inner.length + 2 - skip - 1 - 1 else inner.length + 2 - skip - 1)))
  | [] =>
    if inner.length + 2 ≠ 8 then none else
    if f = [] then none else
    if l = [] then none else
    accHextets 0 (f :: (inner ++ [l]))

theorem v6FromParts_eq (f : Str) (inner : List Str) (l : Str) :
    v6FromParts (f :: (inner ++ [l])) = v6Core f inner l := by
  have hlen : (f :: (inner ++ [l])).length = inner.length + 2 := by simp
  have hlast : (f :: (inner ++ [l])).getLast?.getD [] = l := by
    rw [show f :: (inner ++ [l]) = (f :: inner) ++ [l] by simp, List.getLast?_concat]; rfl
  have hin : ((f :: (inner ++ [l])).drop 1).dropLast = inner := by simp
  unfold v6FromParts v6Core
  simp only [hlen, hlast, hin, List.head?_cons, Option.getD_some]
  rfl


theorem parts_decomp (P : List Str) (h : 2 ≤ P.length) : ∃ f inner l, P = f :: (inner ++ [l]) := by
  cases P with
  | nil => simp at h
  | cons f rest =>
    have hrest : rest ≠ [] := by intro e; rw [e] at h; simp at h
    exact ⟨f, rest.dropLast, rest.getLast hrest, by rw [List.dropLast_concat_getLast hrest]⟩

theorem v6FromParts_short (P : List Str) (h : P.length < 2) : v6FromParts P = none := by
  match P, h with
  | [], _ => simp [v6FromParts, emptyIdx]
  | [f], _ => simp [v6FromParts, emptyIdx]

theorem v6Core_sound (f : Str) (inner : List Str) (l : Str) (n : Nat) (h : v6Core f inner l = some n) :
    (∃ gs, IP.Hextets (f :: (inner ++ [l])) gs ∧ gs.length = 8 ∧ n = IP.groupsVal gs) ∨
    (∃ hi lo ghi glo, IP.Hextets hi ghi ∧ IP.Hextets lo glo ∧ ghi.length + glo.length ≤ 7 ∧
      f :: (inner ++ [l]) = shape hi lo ∧
      n = IP.groupsVal (ghi ++ List.replicate (8 - (ghi.length + glo.length)) 0 ++ glo)) := by
  unfold v6Core at h
  split at h
  · cases h
  · split at h
    · cases h
    · rename_i skip hidx
      obtain ⟨A, B, rfl, hA, hB, rfl⟩ := emptyIdx_single 1 skip _ hidx
      have hlen : (A ++ [] :: B).length + 2 = A.length + B.length + 3 := by simp; omega
      rw [hlen] at h
      by_cases c1 : f = [] ∧ 1 + A.length - 1 ≠ 0
      · rw [if_pos c1] at h; cases h
      · rw [if_neg c1] at h
        by_cases c2 : l = [] ∧ A.length + B.length + 3 - (1 + A.length) - 1 - 1 ≠ 0
        · rw [if_pos c2] at h; cases h
        · rw [if_neg c2] at h
          by_cases c3 : 8 - ((if f = [] then 1 + A.length - 1 else 1 + A.length) +
              (if l = [] then A.length + B.length + 3 - (1 + A.length) - 1 - 1
                else A.length + B.length + 3 - (1 + A.length) - 1)) < 1
          · rw [if_pos c3] at h; cases h
          · rw [if_neg c3] at h
            have hA0 : f = [] → A = [] := by
              intro hf
              have : ¬ (1 + A.length - 1 ≠ 0) := fun hh => c1 ⟨hf, hh⟩
              exact List.length_eq_zero_iff.mp (by omega)
            have hB0 : l = [] → B = [] := by
              intro hl
              have : ¬ (A.length + B.length + 3 - (1 + A.length) - 1 - 1 ≠ 0) := fun hh => c2 ⟨hl, hh⟩
              exact List.length_eq_zero_iff.mp (by omega)
            let hiF : List Str := if f = [] then [] else f :: A
            let loF : List Str := if l = [] then [] else B ++ [l]
            have hshape : f :: (A ++ [] :: B ++ [l]) = shape hiF loF := by
              unfold shape
              by_cases hf : f = [] <;> by_cases hl : l = []
              · simp [hiF, loF, hf, hl, hA0 hf, hB0 hl]
              · simp [hiF, loF, hf, hl, hA0 hf]
              · simp [hiF, loF, hf, hl, hB0 hl]
              · simp [hiF, loF, hf, hl]
            have htake : (f :: (A ++ [] :: B ++ [l])).take (if f = [] then 1 + A.length - 1 else 1 + A.length) = hiF := by
              by_cases hf : f = []
              · simp [hiF, hf, hA0 hf]
              · simp only [hiF, hf, if_false]
                rw [show 1 + A.length = A.length + 1 by omega, List.take_succ_cons]
                simp [List.take_append]
            have hdrop : (f :: (A ++ [] :: B ++ [l])).drop (A.length + B.length + 3 -
                (if l = [] then A.length + B.length + 3 - (1 + A.length) - 1 - 1
                  else A.length + B.length + 3 - (1 + A.length) - 1)) = loF := by
              by_cases hl : l = []
              · have hb := hB0 hl
                subst hb
                simp only [hl, if_true, loF, List.length_nil, Nat.add_zero]
                rw [show A.length + 3 - (A.length + 3 - (1 + A.length) - 1 - 1) = (A.length + 2) + 1 by omega,
                  List.drop_succ_cons]
                rw [List.drop_eq_nil_of_le]; simp
              · simp only [hl, if_false, loF]
                rw [show A.length + B.length + 3 - (A.length + B.length + 3 - (1 + A.length) - 1)
                  = (A.length + 1) + 1 by omega, List.drop_succ_cons]
                rw [show A ++ [] :: B ++ [l] = A ++ ([] :: (B ++ [l])) by simp, List.drop_append]
                simp
            rw [htake, hdrop] at h
            cases ha : accHextets 0 hiF with
            | none => rw [ha] at h; cases h
            | some a =>
              rw [ha] at h
              simp only at h
              obtain ⟨ghi, hg1, rfl⟩ := (accHextets_iff hiF 0 a).mp ha
              rw [shl16] at h
              obtain ⟨glo, hg2, rfl⟩ := (accHextets_iff loF _ n).mp h
              have e1 : hiF.length = (if f = [] then 1 + A.length - 1 else 1 + A.length) := by
                by_cases hf : f = []
                · simp [hiF, hf, hA0 hf]
                · simp [hiF, hf]; omega
              have e2 : loF.length = (if l = [] then A.length + B.length + 3 - (1 + A.length) - 1 - 1
                  else A.length + B.length + 3 - (1 + A.length) - 1) := by
                by_cases hl : l = []
                · simp [loF, hl, hB0 hl] <;> omega
                · simp [loF, hl]; omega
              rw [← e1, ← e2, hextets_length _ _ hg1, hextets_length _ _ hg2] at c3 ⊢
              refine Or.inr ⟨hiF, loF, ghi, glo, hg1, hg2, by omega, hshape, ?_⟩
              rw [groupsVal_eq, foldG_append, foldG_append, foldG_zeros]
    · split at h
      · cases h
      · rename_i h8
        split at h
        · cases h
        · split at h
          · cases h
          · obtain ⟨gs, hg, rfl⟩ := (accHextets_iff _ 0 n).mp h
            refine Or.inl ⟨gs, hg, ?_, rfl⟩
            rw [← hextets_length _ _ hg]
            simp only [List.length_cons, List.length_append, List.length_nil] at h8 ⊢
            omega

theorem v6FromParts_sound (P : List Str) (n : Nat) (h : v6FromParts P = some n) :
    (∃ gs, IP.Hextets P gs ∧ gs.length = 8 ∧ n = IP.groupsVal gs) ∨
    (∃ hi lo ghi glo, IP.Hextets hi ghi ∧ IP.Hextets lo glo ∧ ghi.length + glo.length ≤ 7 ∧ P = shape hi lo ∧
      n = IP.groupsVal (ghi ++ List.replicate (8 - (ghi.length + glo.length)) 0 ++ glo)) := by
  by_cases hlen : P.length < 2
  · rw [v6FromParts_short P hlen] at h; cases h
  · obtain ⟨f, inner, l, rfl⟩ := parts_decomp P (by omega)
    rw [v6FromParts_eq] at h
    exact v6Core_sound f inner l n h


/-! ### `stdV6Int` is sound for the RFC 4291 grammar -/

theorem strV4_dotted (n : Nat) : strV4 n = IP.dotted n := by
  rw [strV4_eq]; simp [IP.dotted, IP.octet]

/-- whatever the stdlib IPv4 parser accepts is the canonical dotted quad of its value -/
theorem stdV4Int_sound' (s : Str) (v : Nat) (h : stdV4Int s = some v) : s = strV4 v ∧ v < 4294967296 := by
  have hj := join_splitOn '.' s
  unfold stdV4Int at h
  split at h
  · cases h
  · split at h
    · rename_i a b c d heq
      rw [heq] at hj
      cases h1 : parseOctet a with
      | none => rw [h1] at h; cases h
      | some v1 =>
        cases h2 : parseOctet b with
        | none => rw [h1, h2] at h; cases h
        | some v2 =>
          cases h3 : parseOctet c with
          | none => rw [h1, h2, h3] at h; cases h
          | some v3 =>
            cases h4 : parseOctet d with
            | none => rw [h1, h2, h3, h4] at h; cases h
            | some v4 =>
              rw [h1, h2, h3, h4] at h
              simp only [Option.some.injEq] at h
              have s1 := parseOctet_sound a v1 h1
              have s2 := parseOctet_sound b v2 h2
              have s3 := parseOctet_sound c v3 h3
              have s4 := parseOctet_sound d v4 h4
              have hv : v = ((v1 * 256 + v2) * 256 + v3) * 256 + v4 := by rw [← h]; simp [fromBytes]
              refine ⟨?_, by omega⟩
              rw [← hj, strV4_eq, s1.1, s2.1, s3.1, s4.1]
              have e1 : v / 16777216 % 256 = v1 := by omega
              have e2 : v / 65536 % 256 = v2 := by omega
              have e3 : v / 256 % 256 = v3 := by omega
              have e4 : v % 256 = v4 := by omega
              rw [e1, e2, e3, e4]
              simp [join]
    · cases h

theorem hextets_append_inv (a b : List Str) (gs : List Nat) (h : IP.Hextets (a ++ b) gs) :
    ∃ g1 g2, gs = g1 ++ g2 ∧ IP.Hextets a g1 ∧ IP.Hextets b g2 := by
  induction a generalizing gs with
  | nil => exact ⟨[], gs, rfl, trivial, h⟩
  | cons x xs ih =>
    cases gs with
    | nil => exact absurd h (by simp [IP.Hextets])
    | cons g gs =>
      obtain ⟨g1, g2, rfl, h1, h2⟩ := ih gs h.2
      exact ⟨g :: g1, g2, rfl, ⟨h.1, h1⟩, h2⟩

theorem hextets_append (a b : List Str) (g1 g2 : List Nat) (h1 : IP.Hextets a g1) (h2 : IP.Hextets b g2) :
    IP.Hextets (a ++ b) (g1 ++ g2) := by
  induction a generalizing g1 with
  | nil => cases g1 with
    | nil => exact h2
    | cons _ _ => exact absurd h1 (by simp [IP.Hextets])
  | cons x xs ih => cases g1 with
    | nil => exact absurd h1 (by simp [IP.Hextets])
    | cons g gs => exact ⟨h1.1, ih gs h1.2⟩

theorem isHextet_toHex (k g : Nat) (hk : k < 65536) (h : IP.IsHextet (toHex k) g) : g = k := by
  have := (parseHextet_iff _ _).mpr h
  rw [parseHextet_toHex k hk] at this
  exact (Option.some.inj this).symm

theorem quad_groups (v : Nat) (hv : v < 4294967296) :
    (v >>> 16) &&& 0xFFFF = v / 65536 ∧ v &&& 0xFFFF = v % 65536 ∧ v / 65536 < 65536 ∧ v % 65536 < 65536 := by
  have e : (0xFFFF : Nat) = 2 ^ 16 - 1 := by decide
  rw [e, Nat.and_two_pow_sub_one_eq_mod, Nat.and_two_pow_sub_one_eq_mod, Nat.shiftRight_eq_div_pow]
  refine ⟨?_, by simp, by omega, by omega⟩
  have : v / 2 ^ 16 < 2 ^ 16 := by omega
  exact Nat.mod_eq_of_lt this

theorem snoc_cases (l : List Str) : l = [] ∨ ∃ L b, l = L ++ [b] := by
  rcases List.eq_nil_or_concat l with h | ⟨L, b, h⟩
  · exact Or.inl h
  · exact Or.inr ⟨L, b, by rw [h, List.concat_eq_append]⟩

/-- the last two (non-empty) parts of `hi::lo` belong to `lo` -/
theorem shape_snoc2 (hi lo D : List Str) (x y : Str) (hx : x ≠ []) (hy : y ≠ []) (h : shape hi lo = D ++ [x, y]) :
    ∃ lo', lo = lo' ++ [x, y] ∧ ∀ z, D ++ [z] = shape hi (lo' ++ [z]) := by
  unfold shape at h
  rcases snoc_cases lo with rfl | ⟨lo1, b, rfl⟩
  · exfalso
    simp only [if_true] at h
    have := (List.append_inj' (s₁ := (if hi = [] then [[]] else hi)) (t₁ := [[], []]) h rfl).2
    simp only [List.cons.injEq] at this
    exact hy this.2.1.symm
  · rcases snoc_cases lo1 with rfl | ⟨lo2, a, rfl⟩
    · exfalso
      have h2 : (if ([] : List Str) ++ [b] = [] then [[]] else [] ++ [b]) = [b] := by simp
      rw [h2] at h
      have := (List.append_inj' (s₁ := (if hi = [] then [[]] else hi)) (t₁ := [[], b]) h rfl).2
      simp only [List.cons.injEq] at this
      exact hx this.1.symm
    · have hne : lo2 ++ [a] ++ [b] ≠ [] := by simp
      rw [if_neg hne] at h
      have h' : ((if hi = [] then [[]] else hi) ++ [] :: lo2) ++ [a, b] = D ++ [x, y] := by
        rw [← h]; simp
      have := List.append_inj' h' rfl
      obtain ⟨hD, hab⟩ := this
      simp only [List.cons.injEq, and_true] at hab
      obtain ⟨rfl, rfl⟩ := hab
      refine ⟨lo2, by simp, ?_⟩
      intro z
      unfold shape
      rw [← hD]
      simp


/-- **soundness of the stdlib IPv6 parser model**: an accepted text is an RFC 4291 spelling of the value -/
theorem stdV6Int_sound (addr : Str) (n : Nat) (h : stdV6Int addr = some n) : IP.IsV6Spelling addr n := by
  have hj := join_splitOn ':' addr
  unfold stdV6Int at h
  split at h
  · cases h
  · simp only at h
    split at h
    · cases h
    · rename_i hlen3
      generalize hP : splitOn ':' addr = P at h hj hlen3
      split at h
      · -- dotted quad in the last part
        cases hv4 : stdV4Int (P.getLast?.getD []) with
        | none => rw [hv4] at h; cases h
        | some v =>
          rw [hv4] at h
          simp only at h
          obtain ⟨hlast, hv⟩ := stdV4Int_sound' _ v hv4
          have hq := quad_groups v hv
          rw [hq.1, hq.2.1] at h
          have hPne : P ≠ [] := by intro e; rw [e] at hlen3; simp at hlen3
          have hPd : P = P.dropLast ++ [IP.dotted v] := by
            have := (List.dropLast_concat_getLast hPne).symm
            rw [List.getLast?_eq_some_getLast hPne] at hlast
            simp only [Option.getD_some] at hlast
            rw [hlast, strV4_dotted] at this
            exact this
          have hx := (toHex_props _ hq.2.2.1).1
          have hy := (toHex_props _ hq.2.2.2).1
          rcases v6FromParts_sound _ n h with ⟨gs, hg, h8, rfl⟩ | ⟨hi, lo, ghi, glo, hg1, hg2, h7, hsh, rfl⟩
          · obtain ⟨g1, g2, rfl, hd, hxy⟩ := hextets_append_inv _ _ gs hg
            match g2, hxy with
            | [gx, gy], hxy =>
              have ex := isHextet_toHex _ gx hq.2.2.1 hxy.1
              have ey := isHextet_toHex _ gy hq.2.2.2 hxy.2.1
              subst ex; subst ey
              refine Or.inl ⟨P.dropLast ++ [IP.dotted v], _, Or.inr ⟨P.dropLast, g1, v, by omega, hd, rfl, rfl⟩, h8, ?_, rfl⟩
              rw [← hPd]; exact hj.symm
            | [], hxy => exact absurd hxy (by simp [IP.Hextets])
            | [_], hxy => exact absurd hxy (by simp [IP.Hextets])
            | _ :: _ :: _ :: _, hxy => exact absurd hxy (by simp [IP.Hextets])
          · obtain ⟨lo', rfl, hz⟩ := shape_snoc2 hi lo _ _ _ hx hy hsh.symm
            obtain ⟨g1, g2, rfl, hd, hxy⟩ := hextets_append_inv _ _ glo hg2
            match g2, hxy with
            | [gx, gy], hxy =>
              have ex := isHextet_toHex _ gx hq.2.2.1 hxy.1
              have ey := isHextet_toHex _ gy hq.2.2.2 hxy.2.1
              subst ex; subst ey
              refine Or.inr ⟨hi, lo' ++ [IP.dotted v], ghi, _, hg1, Or.inr ⟨lo', g1, v, by omega, hd, rfl, rfl⟩, h7, ?_, rfl⟩
              rw [← join_shape, ← hz, ← hPd]; exact hj.symm
            | [], hxy => exact absurd hxy (by simp [IP.Hextets])
            | [_], hxy => exact absurd hxy (by simp [IP.Hextets])
            | _ :: _ :: _ :: _, hxy => exact absurd hxy (by simp [IP.Hextets])
      · rcases v6FromParts_sound _ n h with ⟨gs, hg, h8, rfl⟩ | ⟨hi, lo, ghi, glo, hg1, hg2, h7, rfl, rfl⟩
        · exact Or.inl ⟨P, gs, Or.inl hg, h8, hj.symm, rfl⟩
        · exact Or.inr ⟨hi, lo, ghi, glo, hg1, Or.inl hg2, h7, by rw [← join_shape]; exact hj.symm, rfl⟩


/-! ### a spelling denotes a 128-bit value -/
theorem foldG_lt (gs : List Nat) (acc : Nat) (h : ∀ g ∈ gs, g < 65536) :
    foldG acc gs < (acc + 1) * 65536 ^ gs.length := by
  induction gs generalizing acc with
  | nil => simp [foldG]
  | cons g gs ih =>
    have hg : g < 65536 := h g (by simp)
    have := ih (acc * 65536 + g) (fun x hx => h x (by simp [hx]))
    show foldG (acc * 65536 + g) gs < _
    rw [List.length_cons, Nat.pow_succ]
    calc foldG (acc * 65536 + g) gs < (acc * 65536 + g + 1) * 65536 ^ gs.length := this
      _ ≤ ((acc + 1) * 65536) * 65536 ^ gs.length := Nat.mul_le_mul_right _ (by omega)
      _ = (acc + 1) * (65536 ^ gs.length * 65536) := by rw [Nat.mul_assoc, Nat.mul_comm 65536]

theorem hextets_lt' (fs : List Str) (gs : List Nat) (h : IP.Hextets fs gs) : ∀ g ∈ gs, g < 65536 := by
  induction fs generalizing gs with
  | nil => cases gs with
    | nil => intro g hg; simp at hg
    | cons _ _ => exact absurd h (by simp [IP.Hextets])
  | cons f fs ih => cases gs with
    | nil => exact absurd h (by simp [IP.Hextets])
    | cons g gs =>
      intro x hx
      rcases List.mem_cons.mp hx with rfl | hx
      · exact isHextet_lt f _ h.1
      · exact ih gs h.2 x hx

theorem fields_lt (fs : List Str) (gs : List Nat) (h : IP.Fields fs gs) : ∀ g ∈ gs, g < 65536 := by
  rcases h with h | ⟨fs', gs', v, hv, hh, _, rfl⟩
  · exact hextets_lt' fs gs h
  · intro g hg
    simp only [List.mem_append, List.mem_cons, List.not_mem_nil, or_false] at hg
    rcases hg with hg | rfl | rfl
    · exact hextets_lt' fs' gs' hh g hg
    · omega
    · omega

theorem spelling_lt (addr : Str) (n : Nat) (h : IP.IsV6Spelling addr n) : n < 2 ^ 128 := by
  rcases h with ⟨fs, gs, hf, h8, _, rfl⟩ | ⟨hi, lo, ghi, glo, h1, h2, h7, _, rfl⟩
  · have := foldG_lt gs 0 (fields_lt fs gs hf)
    rw [h8] at this
    rw [groupsVal_eq]
    have e : (0 + 1) * 65536 ^ 8 = 2 ^ 128 := by decide
    omega
  · have hall : ∀ g ∈ ghi ++ List.replicate (8 - (ghi.length + glo.length)) 0 ++ glo, g < 65536 := by
      intro g hg
      simp only [List.mem_append, List.mem_replicate] at hg
      rcases hg with (hg | hg) | hg
      · exact hextets_lt' hi ghi h1 g hg
      · omega
      · exact fields_lt lo glo h2 g hg
    have := foldG_lt _ 0 hall
    have hl : (ghi ++ List.replicate (8 - (ghi.length + glo.length)) 0 ++ glo).length = 8 := by
      simp only [List.length_append, List.length_replicate]; omega
    rw [hl] at this
    rw [groupsVal_eq]
    have e : (0 + 1) * 65536 ^ 8 = 2 ^ 128 := by decide
    omega

end Ccp.IPText
