import Ccp.Proofs.IPText
import Ccp.Spec.IP
/-! C11: the stdlib IPv6 parser model against the RFC 4291 spelling grammar (`Ccp.Spec.IP.IsV6Spelling`). -/
namespace Ccp.IPText
open Ccp.Py Ccp.Spec

/-! ### hextets -/
theorem hexDigitVal_eq (c : Char) :
    (isHexDigit c = true → IP.hexDigitVal c = some (hexVal c) ∧ hexVal c < 16) ∧
    (isHexDigit c = false → IP.hexDigitVal c = none) := by
  unfold isHexDigit isDigit IP.hexDigitVal hexVal isDigit
  constructor
  · intro h
    simp only [Bool.or_eq_true, Bool.and_eq_true, decide_eq_true_eq] at h
    rcases h with (h | h) | h
    · simp [h.1, h.2]; omega
    · have : ¬ (48 ≤ c.toNat ∧ c.toNat ≤ 57) := by omega
      simp [this, h.1, h.2]; omega
    · have h1 : ¬ (48 ≤ c.toNat ∧ c.toNat ≤ 57) := by omega
      have h2 : ¬ (97 ≤ c.toNat ∧ c.toNat ≤ 102) := by omega
      have h3 : ¬ (97 ≤ c.toNat) := by omega
      simp [h1, h2, h3, h.1, h.2]; omega
  · intro h
    simp only [Bool.or_eq_false_iff, Bool.and_eq_false_iff, decide_eq_false_iff_not] at h
    have h1 : ¬ (48 ≤ c.toNat ∧ c.toNat ≤ 57) := by omega
    have h2 : ¬ (97 ≤ c.toNat ∧ c.toNat ≤ 102) := by omega
    have h3 : ¬ (65 ≤ c.toNat ∧ c.toNat ≤ 70) := by omega
    simp [h1, h2, h3]

theorem ofHexAux_eq (s : Str) (acc : Nat) : ofHexAux s acc = IP.hexNumFrom acc s := by
  induction s generalizing acc with
  | nil => rfl
  | cons c cs ih =>
    unfold ofHexAux IP.hexNumFrom
    cases h : isHexDigit c with
    | true => simp [((hexDigitVal_eq c).1 h).1, ih]
    | false => simp [(hexDigitVal_eq c).2 h]

theorem hexNumFrom_all (s : Str) (acc g : Nat) (h : IP.hexNumFrom acc s = some g) :
    (∀ c ∈ s, isHexDigit c = true) ∧ g < (acc + 1) * 16 ^ s.length := by
  induction s generalizing acc with
  | nil => simp [IP.hexNumFrom] at h; subst h; simp
  | cons c cs ih =>
    unfold IP.hexNumFrom at h
    cases hc : isHexDigit c with
    | false => rw [(hexDigitVal_eq c).2 hc] at h; cases h
    | true =>
      have hv := (hexDigitVal_eq c).1 hc
      rw [hv.1] at h
      have := ih _ h
      refine ⟨?_, ?_⟩
      · intro x hx
        rcases List.mem_cons.mp hx with rfl | hx
        · exact hc
        · exact this.1 x hx
      · have h2 := this.2
        rw [List.length_cons, Nat.pow_succ]
        calc g < (acc * 16 + hexVal c + 1) * 16 ^ cs.length := h2
          _ ≤ ((acc + 1) * 16) * 16 ^ cs.length := Nat.mul_le_mul_right _ (by omega)
          _ = (acc + 1) * (16 ^ cs.length * 16) := by rw [Nat.mul_assoc, Nat.mul_comm 16]

theorem parseHextet_iff (s : Str) (g : Nat) : parseHextet s = some g ↔ IP.IsHextet s g := by
  unfold parseHextet IP.IsHextet ofHex
  constructor
  · intro h
    split at h
    · cases h
    · split at h
      · cases h
      · rename_i hlen
        split at h
        · cases h
        · rename_i hne
          rw [ofHexAux_eq] at h
          refine ⟨?_, by omega, h⟩
          cases s with
          | nil => exact absurd rfl hne
          | cons c cs => simp
  · rintro ⟨h1, h2, h3⟩
    have hall := (hexNumFrom_all s 0 g h3).1
    have : s.all isHexDigit = true := List.all_eq_true.mpr hall
    have hne : s ≠ [] := by intro e; rw [e] at h1; simp at h1
    have hl : ¬ s.length > 4 := by omega
    simp only [this, Bool.not_true, Bool.false_eq_true, if_false, hl, hne, ofHexAux_eq, h3]

theorem isHextet_lt (s : Str) (g : Nat) (h : IP.IsHextet s g) : g < 65536 := by
  have := (hexNumFrom_all s 0 g h.2.2).2
  have hp : 16 ^ s.length ≤ 16 ^ 4 := Nat.pow_le_pow_right (by omega) h.2.1
  omega

theorem isHextet_ne_nil (s : Str) (g : Nat) (h : IP.IsHextet s g) : s ≠ [] := by
  intro e; rw [e] at h; have := h.1; simp at this

/-- groups folded from an accumulator -/
def foldG (acc : Nat) (gs : List Nat) : Nat := gs.foldl (fun a g => a * 65536 + g) acc

theorem accHextets_iff (fs : List Str) (acc r : Nat) :
    accHextets acc fs = some r ↔ ∃ gs, IP.Hextets fs gs ∧ r = foldG acc gs := by
  induction fs generalizing acc with
  | nil =>
    constructor
    · intro h; cases h; exact ⟨[], trivial, rfl⟩
    · rintro ⟨gs, hg, rfl⟩
      cases gs with
      | nil => rfl
      | cons _ _ => exact absurd hg (by simp [IP.Hextets])
  | cons f fs ih =>
    constructor
    · intro h
      unfold accHextets at h
      cases hp : parseHextet f with
      | none => rw [hp] at h; cases h
      | some g =>
        rw [hp] at h
        simp only at h
        have hg := (parseHextet_iff f g).mp hp
        rw [shl_or acc g (isHextet_lt f g hg)] at h
        obtain ⟨gs, h1, h2⟩ := (ih _).mp h
        exact ⟨g :: gs, ⟨hg, h1⟩, h2⟩
    · rintro ⟨gs, hg, rfl⟩
      cases gs with
      | nil => exact absurd hg (by simp [IP.Hextets])
      | cons g gs =>
        obtain ⟨hg1, hg2⟩ := hg
        unfold accHextets
        rw [(parseHextet_iff f g).mpr hg1]
        simp only
        rw [shl_or acc g (isHextet_lt f g hg1)]
        exact (ih _).mpr ⟨gs, hg2, rfl⟩


/-! ### list lemmas -/
theorem join_splitOn (sep : Char) (s : Str) : join [sep] (splitOn sep s) = s := by
  induction s with
  | nil => rfl
  | cons c cs ih =>
    unfold splitOn
    cases h : splitOn sep cs with
    | nil => exact absurd h (splitOn_ne_nil sep cs)
    | cons w ws =>
      rw [h] at ih
      simp only
      by_cases hc : c = sep
      · subst hc
        simp only [if_true]
        cases ws with
        | nil => simp only [join] at ih ⊢; simp [ih]
        | cons w2 ws2 => simp only [join] at ih ⊢; simp [ih]
      · simp only [hc, if_false]
        cases ws with
        | nil => simp only [join] at ih ⊢; rw [ih]
        | cons w2 ws2 => simp only [join] at ih ⊢; simp [← ih]

theorem join_append2 (sep : Str) (X Y : List Str) (hx : X ≠ []) (hy : Y ≠ []) :
    join sep (X ++ Y) = join sep X ++ sep ++ join sep Y := by
  induction X with
  | nil => exact absurd rfl hx
  | cons x xs ih =>
    cases xs with
    | nil =>
      cases Y with
      | nil => exact absurd rfl hy
      | cons y ys => simp [join]
    | cons x2 xs2 =>
      have := ih (by simp)
      simp only [List.cons_append] at this ⊢
      simp only [join, this, List.append_assoc]

theorem emptyIdx_nil_iff (i : Nat) (l : List Str) : emptyIdx i l = [] ↔ ∀ p ∈ l, p ≠ [] := by
  induction l generalizing i with
  | nil => simp [emptyIdx]
  | cons p ps ih =>
    unfold emptyIdx
    by_cases hp : p = []
    · simp [hp]
    · simp [hp, ih]

theorem emptyIdx_append (i : Nat) (A : List Str) (B : List Str) (hA : ∀ p ∈ A, p ≠ []) :
    emptyIdx i (A ++ B) = emptyIdx (i + A.length) B := by
  induction A generalizing i with
  | nil => simp
  | cons a as ih =>
    have ha : a ≠ [] := hA a (by simp)
    simp only [List.cons_append, emptyIdx, ha, if_false, List.length_cons]
    rw [ih _ (fun p hp => hA p (by simp [hp]))]
    congr 1; omega

theorem emptyIdx_single (i k : Nat) (l : List Str) (h : emptyIdx i l = [k]) :
    ∃ A B, l = A ++ [] :: B ∧ (∀ p ∈ A, p ≠ []) ∧ (∀ p ∈ B, p ≠ []) ∧ k = i + A.length := by
  induction l generalizing i with
  | nil => simp [emptyIdx] at h
  | cons p ps ih =>
    unfold emptyIdx at h
    by_cases hp : p = []
    · subst hp
      simp only [if_true, List.cons.injEq] at h
      exact ⟨[], ps, rfl, by simp, (emptyIdx_nil_iff _ _).mp h.2, by simp [h.1]⟩
    · simp only [hp, if_false] at h
      obtain ⟨A, B, rfl, hA, hB, hk⟩ := ih _ h
      refine ⟨p :: A, B, rfl, ?_, hB, by simp [hk]; omega⟩
      intro q hq
      rcases List.mem_cons.mp hq with rfl | hq
      · exact hp
      · exact hA q hq

theorem emptyIdx_shape (i : Nat) (A B : List Str) (hA : ∀ p ∈ A, p ≠ []) (hB : ∀ p ∈ B, p ≠ []) :
    emptyIdx i (A ++ [] :: B) = [i + A.length] := by
  rw [emptyIdx_append i A _ hA]
  simp only [emptyIdx, if_true, List.cons.injEq, true_and]
  exact (emptyIdx_nil_iff _ _).mpr hB

/-! ### groups -/
theorem hextets_length (fs : List Str) (gs : List Nat) (h : IP.Hextets fs gs) : fs.length = gs.length := by
  induction fs generalizing gs with
  | nil => cases gs with
    | nil => rfl
    | cons _ _ => exact absurd h (by simp [IP.Hextets])
  | cons f fs ih => cases gs with
    | nil => exact absurd h (by simp [IP.Hextets])
    | cons g gs => simp [ih gs h.2]

theorem hextets_ne_nil (fs : List Str) (gs : List Nat) (h : IP.Hextets fs gs) : ∀ p ∈ fs, p ≠ [] := by
  induction fs generalizing gs with
  | nil => intro p hp; simp at hp
  | cons f fs ih => cases gs with
    | nil => exact absurd h (by simp [IP.Hextets])
    | cons g gs =>
      intro p hp
      rcases List.mem_cons.mp hp with rfl | hp
      · exact isHextet_ne_nil _ g h.1
      · exact ih gs h.2 p hp

theorem foldG_append (acc : Nat) (a b : List Nat) : foldG acc (a ++ b) = foldG (foldG acc a) b := by
  unfold foldG; rw [List.foldl_append]

theorem foldG_zeros (acc k : Nat) : foldG acc (List.replicate k 0) = acc * 65536 ^ k := by
  induction k generalizing acc with
  | zero => simp [foldG]
  | succ k ih =>
    rw [List.replicate_succ]
    show foldG (acc * 65536 + 0) (List.replicate k 0) = _
    rw [ih, Nat.add_zero, Nat.pow_succ, Nat.mul_assoc, Nat.mul_comm 65536]

theorem groupsVal_eq (gs : List Nat) : IP.groupsVal gs = foldG 0 gs := rfl


/-! ### `v6FromParts` against the grammar -/

/-- the colon-separated parts of `hi::lo` -/
def shape (hi lo : List Str) : List Str :=
  (if hi = [] then [[]] else hi) ++ [] :: (if lo = [] then [[]] else lo)

theorem join_shape (hi lo : List Str) :
    join [':'] (shape hi lo) = join [':'] hi ++ ':' :: ':' :: join [':'] lo := by
  unfold shape
  have key : ∀ X Y : List Str, X ≠ [] → Y ≠ [] →
      join [':'] (X ++ [] :: Y) = join [':'] X ++ ':' :: ':' :: join [':'] Y := by
    intro X Y hx hy
    rw [join_append2 [':'] X ([] :: Y) hx (by simp)]
    cases Y with
    | nil => exact absurd rfl hy
    | cons y ys => simp [join]
  by_cases h1 : hi = [] <;> by_cases h2 : lo = []
  · subst h1; subst h2; simp [join]
  · subst h1; simp only [if_true, h2, if_false]; rw [key _ _ (by simp) h2]; simp [join]
  · subst h2; simp only [if_true, h1, if_false]; rw [key _ _ h1 (by simp)]; simp [join]
  · simp only [h1, h2, if_false]; exact key _ _ h1 h2

/-- `v6FromParts` on a list with at least two parts, written with first / inner / last -/
def v6Core (f : Str) (inner : List Str) (l : Str) : Option Nat :=
  if inner.length + 2 > 9 then none else
  match emptyIdx 1 inner with
  | _ :: _ :: _ => none
  | [skip] =>
    if f = [] ∧ skip - 1 ≠ 0 then none else
    if l = [] ∧ inner.length + 2 - skip - 1 - 1 ≠ 0 then none else
    if 8 - ((if f = [] then skip - 1 else skip) +
        (if l = [] then inner.length + 2 - skip - 1 - 1 else inner.length + 2 - skip - 1)) < 1 then none else
    match accHextets 0 ((f :: (inner ++ [l])).take (if f = [] then skip - 1 else skip)) with
    | none => none
    | some a =>
      accHextets (a <<< (16 * (8 - ((if f = [] then skip - 1 else skip) +
        (if l = [] then inner.length + 2 - skip - 1 - 1 else inner.length + 2 - skip - 1)))))
        ((f :: (inner ++ [l])).drop (inner.length + 2 -
          (if l = [] then inner.length + 2 - skip - 1 - 1 else inner.length + 2 - skip - 1)))
  | [] =>
    if inner.length + 2 ≠ 8 then none else
    if f = [] then none else
    if l = [] then none else
    accHextets 0 (f :: (inner ++ [l]))

theorem v6FromParts_eq (f : Str) (inner : List Str) (l : Str) :
    v6FromParts (f :: (inner ++ [l])) = v6Core f inner l := by
  have hlen : (f :: (inner ++ [l])).length = inner.length + 2 := by simp
  have hlast : (f :: (inner ++ [l])).getLast?.getD [] = l := by
    rw [show f :: (inner ++ [l]) = (f :: inner) ++ [l] by simp, List.getLast?_concat]; rfl
  have hin : ((f :: (inner ++ [l])).drop 1).dropLast = inner := by simp
  unfold v6FromParts v6Core
  simp only [hlen, hlast, hin, List.head?_cons, Option.getD_some]
  rfl


theorem parts_decomp (P : List Str) (h : 2 ≤ P.length) : ∃ f inner l, P = f :: (inner ++ [l]) := by
  cases P with
  | nil => simp at h
  | cons f rest =>
    have hrest : rest ≠ [] := by intro e; rw [e] at h; simp at h
    exact ⟨f, rest.dropLast, rest.getLast hrest, by rw [List.dropLast_concat_getLast hrest]⟩

theorem v6FromParts_short (P : List Str) (h : P.length < 2) : v6FromParts P = none := by
  match P, h with
  | [], _ => simp [v6FromParts, emptyIdx]
  | [f], _ => simp [v6FromParts, emptyIdx]

theorem v6Core_sound (f : Str) (inner : List Str) (l : Str) (n : Nat) (h : v6Core f inner l = some n) :
    (∃ gs, IP.Hextets (f :: (inner ++ [l])) gs ∧ gs.length = 8 ∧ n = IP.groupsVal gs) ∨
    (∃ hi lo ghi glo, IP.Hextets hi ghi ∧ IP.Hextets lo glo ∧ ghi.length + glo.length ≤ 7 ∧
      f :: (inner ++ [l]) = shape hi lo ∧
      n = IP.groupsVal (ghi ++ List.replicate (8 - (ghi.length + glo.length)) 0 ++ glo)) := by
  unfold v6Core at h
  split at h
  · cases h
  · split at h
    · cases h
    · rename_i skip hidx
      obtain ⟨A, B, rfl, hA, hB, rfl⟩ := emptyIdx_single 1 skip _ hidx
      have hlen : (A ++ [] :: B).length + 2 = A.length + B.length + 3 := by simp; omega
      rw [hlen] at h
      by_cases c1 : f = [] ∧ 1 + A.length - 1 ≠ 0
      · rw [if_pos c1] at h; cases h
      · rw [if_neg c1] at h
        by_cases c2 : l = [] ∧ A.length + B.length + 3 - (1 + A.length) - 1 - 1 ≠ 0
        · rw [if_pos c2] at h; cases h
        · rw [if_neg c2] at h
          by_cases c3 : 8 - ((if f = [] then 1 + A.length - 1 else 1 + A.length) +
              (if l = [] then A.length + B.length + 3 - (1 + A.length) - 1 - 1
                else A.length + B.length + 3 - (1 + A.length) - 1)) < 1
          · rw [if_pos c3] at h; cases h
          · rw [if_neg c3] at h
            have hA0 : f = [] → A = [] := by
              intro hf
              have : ¬ (1 + A.length - 1 ≠ 0) := fun hh => c1 ⟨hf, hh⟩
              exact List.length_eq_zero_iff.mp (by omega)
            have hB0 : l = [] → B = [] := by
              intro hl
              have : ¬ (A.length + B.length + 3 - (1 + A.length) - 1 - 1 ≠ 0) := fun hh => c2 ⟨hl, hh⟩
              exact List.length_eq_zero_iff.mp (by omega)
            let hiF : List Str := if f = [] then [] else f :: A
            let loF : List Str := if l = [] then [] else B ++ [l]
            have hshape : f :: (A ++ [] :: B ++ [l]) = shape hiF loF := by
              unfold shape
              by_cases hf : f = [] <;> by_cases hl : l = []
              · simp [hiF, loF, hf, hl, hA0 hf, hB0 hl]
              · simp [hiF, loF, hf, hl, hA0 hf]
              · simp [hiF, loF, hf, hl, hB0 hl]
              · simp [hiF, loF, hf, hl]
            have htake : (f :: (A ++ [] :: B ++ [l])).take (if f = [] then 1 + A.length - 1 else 1 + A.length) = hiF := by
              by_cases hf : f = []
              · simp [hiF, hf, hA0 hf]
              · simp only [hiF, hf, if_false]
                rw [show 1 + A.length = A.length + 1 by omega, List.take_succ_cons]
                simp [List.take_append]
            have hdrop : (f :: (A ++ [] :: B ++ [l])).drop (A.length + B.length + 3 -
                (if l = [] then A.length + B.length + 3 - (1 + A.length) - 1 - 1
                  else A.length + B.length + 3 - (1 + A.length) - 1)) = loF := by
              by_cases hl : l = []
              · have hb := hB0 hl
                subst hb
                simp only [hl, if_true, loF, List.length_nil, Nat.add_zero]
                rw [show A.length + 3 - (A.length + 3 - (1 + A.length) - 1 - 1) = (A.length + 2) + 1 by omega,
                  List.drop_succ_cons]
                rw [List.drop_eq_nil_of_le]; simp
              · simp only [hl, if_false, loF]
                rw [show A.length + B.length + 3 - (A.length + B.length + 3 - (1 + A.length) - 1)
                  = (A.length + 1) + 1 by omega, List.drop_succ_cons]
                rw [show A ++ [] :: B ++ [l] = A ++ ([] :: (B ++ [l])) by simp, List.drop_append]
                simp
            rw [htake, hdrop] at h
            cases ha : accHextets 0 hiF with
            | none => rw [ha] at h; cases h
            | some a =>
              rw [ha] at h
              simp only at h
              obtain ⟨ghi, hg1, rfl⟩ := (accHextets_iff hiF 0 a).mp ha
              rw [shl16] at h
              obtain ⟨glo, hg2, rfl⟩ := (accHextets_iff loF _ n).mp h
              have e1 : hiF.length = (if f = [] then 1 + A.length - 1 else 1 + A.length) := by
                by_cases hf : f = []
                · simp [hiF, hf, hA0 hf]
                · simp [hiF, hf]; omega
              have e2 : loF.length = (if l = [] then A.length + B.length + 3 - (1 + A.length) - 1 - 1
                  else A.length + B.length + 3 - (1 + A.length) - 1) := by
                by_cases hl : l = []
                · simp [loF, hl, hB0 hl] <;> omega
                · simp [loF, hl]; omega
              rw [← e1, ← e2, hextets_length _ _ hg1, hextets_length _ _ hg2] at c3 ⊢
              refine Or.inr ⟨hiF, loF, ghi, glo, hg1, hg2, by omega, hshape, ?_⟩
              rw [groupsVal_eq, foldG_append, foldG_append, foldG_zeros]
    · split at h
      · cases h
      · rename_i h8
        split at h
        · cases h
        · split at h
          · cases h
          · obtain ⟨gs, hg, rfl⟩ := (accHextets_iff _ 0 n).mp h
            refine Or.inl ⟨gs, hg, ?_, rfl⟩
            rw [← hextets_length _ _ hg]
            simp only [List.length_cons, List.length_append, List.length_nil] at h8 ⊢
            omega

theorem v6FromParts_sound (P : List Str) (n : Nat) (h : v6FromParts P = some n) :
    (∃ gs, IP.Hextets P gs ∧ gs.length = 8 ∧ n = IP.groupsVal gs) ∨
    (∃ hi lo ghi glo, IP.Hextets hi ghi ∧ IP.Hextets lo glo ∧ ghi.length + glo.length ≤ 7 ∧ P = shape hi lo ∧
      n = IP.groupsVal (ghi ++ List.replicate (8 - (ghi.length + glo.length)) 0 ++ glo)) := by
  by_cases hlen : P.length < 2
  · rw [v6FromParts_short P hlen] at h; cases h
  · obtain ⟨f, inner, l, rfl⟩ := parts_decomp P (by omega)
    rw [v6FromParts_eq] at h
    exact v6Core_sound f inner l n h


/-! ### `stdV6Int` is sound for the RFC 4291 grammar -/

theorem strV4_dotted (n : Nat) : strV4 n = IP.dotted n := by
  rw [strV4_eq]; simp [IP.dotted, IP.octet]

/-- whatever the stdlib IPv4 parser accepts is the canonical dotted quad of its value -/
theorem stdV4Int_sound' (s : Str) (v : Nat) (h : stdV4Int s = some v) : s = strV4 v ∧ v < 4294967296 := by
  have hj := join_splitOn '.' s
  unfold stdV4Int at h
  split at h
  · cases h
  · split at h
    · rename_i a b c d heq
      rw [heq] at hj
      cases h1 : parseOctet a with
      | none => rw [h1] at h; cases h
      | some v1 =>
        cases h2 : parseOctet b with
        | none => rw [h1, h2] at h; cases h
        | some v2 =>
          cases h3 : parseOctet c with
          | none => rw [h1, h2, h3] at h; cases h
          | some v3 =>
            cases h4 : parseOctet d with
            | none => rw [h1, h2, h3, h4] at h; cases h
            | some v4 =>
              rw [h1, h2, h3, h4] at h
              simp only [Option.some.injEq] at h
              have s1 := parseOctet_sound a v1 h1
              have s2 := parseOctet_sound b v2 h2
              have s3 := parseOctet_sound c v3 h3
              have s4 := parseOctet_sound d v4 h4
              have hv : v = ((v1 * 256 + v2) * 256 + v3) * 256 + v4 := by rw [← h]; simp [fromBytes]
              refine ⟨?_, by omega⟩
              rw [← hj, strV4_eq, s1.1, s2.1, s3.1, s4.1]
              have e1 : v / 16777216 % 256 = v1 := by omega
              have e2 : v / 65536 % 256 = v2 := by omega
              have e3 : v / 256 % 256 = v3 := by omega
              have e4 : v % 256 = v4 := by omega
              rw [e1, e2, e3, e4]
              simp [join]
    · cases h

theorem hextets_append_inv (a b : List Str) (gs : List Nat) (h : IP.Hextets (a ++ b) gs) :
    ∃ g1 g2, gs = g1 ++ g2 ∧ IP.Hextets a g1 ∧ IP.Hextets b g2 := by
  induction a generalizing gs with
  | nil => exact ⟨[], gs, rfl, trivial, h⟩
  | cons x xs ih =>
    cases gs with
    | nil => exact absurd h (by simp [IP.Hextets])
    | cons g gs =>
      obtain ⟨g1, g2, rfl, h1, h2⟩ := ih gs h.2
      exact ⟨g :: g1, g2, rfl, ⟨h.1, h1⟩, h2⟩

theorem hextets_append (a b : List Str) (g1 g2 : List Nat) (h1 : IP.Hextets a g1) (h2 : IP.Hextets b g2) :
    IP.Hextets (a ++ b) (g1 ++ g2) := by
  induction a generalizing g1 with
  | nil => cases g1 with
    | nil => exact h2
    | cons _ _ => exact absurd h1 (by simp [IP.Hextets])
  | cons x xs ih => cases g1 with
    | nil => exact absurd h1 (by simp [IP.Hextets])
    | cons g gs => exact ⟨h1.1, ih gs h1.2⟩

theorem isHextet_toHex (k g : Nat) (hk : k < 65536) (h : IP.IsHextet (toHex k) g) : g = k := by
  have := (parseHextet_iff _ _).mpr h
  rw [parseHextet_toHex k hk] at this
  exact (Option.some.inj this).symm

theorem quad_groups (v : Nat) (hv : v < 4294967296) :
    (v >>> 16) &&& 0xFFFF = v / 65536 ∧ v &&& 0xFFFF = v % 65536 ∧ v / 65536 < 65536 ∧ v % 65536 < 65536 := by
  have e : (0xFFFF : Nat) = 2 ^ 16 - 1 := by decide
  rw [e, Nat.and_two_pow_sub_one_eq_mod, Nat.and_two_pow_sub_one_eq_mod, Nat.shiftRight_eq_div_pow]
  refine ⟨?_, by simp, by omega, by omega⟩
  have : v / 2 ^ 16 < 2 ^ 16 := by omega
  exact Nat.mod_eq_of_lt this

theorem snoc_cases (l : List Str) : l = [] ∨ ∃ L b, l = L ++ [b] := by
  rcases List.eq_nil_or_concat l with h | ⟨L, b, h⟩
  · exact Or.inl h
  · exact Or.inr ⟨L, b, by rw [h, List.concat_eq_append]⟩

/-- the last two (non-empty) parts of `hi::lo` belong to `lo` -/
theorem shape_snoc2 (hi lo D : List Str) (x y : Str) (hx : x ≠ []) (hy : y ≠ []) (h : shape hi lo = D ++ [x, y]) :
    ∃ lo', lo = lo' ++ [x, y] ∧ ∀ z, D ++ [z] = shape hi (lo' ++ [z]) := by
  unfold shape at h
  rcases snoc_cases lo with rfl | ⟨lo1, b, rfl⟩
  · exfalso
    simp only [if_true] at h
    have := (List.append_inj' (s₁ := (if hi = [] then [[]] else hi)) (t₁ := [[], []]) h rfl).2
    simp only [List.cons.injEq] at this
    exact hy this.2.1.symm
  · rcases snoc_cases lo1 with rfl | ⟨lo2, a, rfl⟩
    · exfalso
      have h2 : (if ([] : List Str) ++ [b] = [] then [[]] else [] ++ [b]) = [b] := by simp
      rw [h2] at h
      have := (List.append_inj' (s₁ := (if hi = [] then [[]] else hi)) (t₁ := [[], b]) h rfl).2
      simp only [List.cons.injEq] at this
      exact hx this.1.symm
    · have hne : lo2 ++ [a] ++ [b] ≠ [] := by simp
      rw [if_neg hne] at h
      have h' : ((if hi = [] then [[]] else hi) ++ [] :: lo2) ++ [a, b] = D ++ [x, y] := by
        rw [← h]; simp
      have := List.append_inj' h' rfl
      obtain ⟨hD, hab⟩ := this
      simp only [List.cons.injEq, and_true] at hab
      obtain ⟨rfl, rfl⟩ := hab
      refine ⟨lo2, by simp, ?_⟩
      intro z
      unfold shape
      rw [← hD]
      simp


/-- **soundness of the stdlib IPv6 parser model**: an accepted text is an RFC 4291 spelling of the value -/
theorem stdV6Int_sound (addr : Str) (n : Nat) (h : stdV6Int addr = some n) : IP.IsV6Spelling addr n := by
  have hj := join_splitOn ':' addr
  unfold stdV6Int at h
  split at h
  · cases h
  · simp only at h
    split at h
    · cases h
    · rename_i hlen3
      generalize hP : splitOn ':' addr = P at h hj hlen3
      split at h
      · -- dotted quad in the last part
        cases hv4 : stdV4Int (P.getLast?.getD []) with
        | none => rw [hv4] at h; cases h
        | some v =>
          rw [hv4] at h
          simp only at h
          obtain ⟨hlast, hv⟩ := stdV4Int_sound' _ v hv4
          have hq := quad_groups v hv
          rw [hq.1, hq.2.1] at h
          have hPne : P ≠ [] := by intro e; rw [e] at hlen3; simp at hlen3
          have hPd : P = P.dropLast ++ [IP.dotted v] := by
            have := (List.dropLast_concat_getLast hPne).symm
            rw [List.getLast?_eq_some_getLast hPne] at hlast
            simp only [Option.getD_some] at hlast
            rw [hlast, strV4_dotted] at this
            exact this
          have hx := (toHex_props _ hq.2.2.1).1
          have hy := (toHex_props _ hq.2.2.2).1
          rcases v6FromParts_sound _ n h with ⟨gs, hg, h8, rfl⟩ | ⟨hi, lo, ghi, glo, hg1, hg2, h7, hsh, rfl⟩
          · obtain ⟨g1, g2, rfl, hd, hxy⟩ := hextets_append_inv _ _ gs hg
            match g2, hxy with
            | [gx, gy], hxy =>
              have ex := isHextet_toHex _ gx hq.2.2.1 hxy.1
              have ey := isHextet_toHex _ gy hq.2.2.2 hxy.2.1
              subst ex; subst ey
              refine Or.inl ⟨P.dropLast ++ [IP.dotted v], _, Or.inr ⟨P.dropLast, g1, v, by omega, hd, rfl, rfl⟩, h8, ?_, rfl⟩
              rw [← hPd]; exact hj.symm
            | [], hxy => exact absurd hxy (by simp [IP.Hextets])
            | [_], hxy => exact absurd hxy (by simp [IP.Hextets])
            | _ :: _ :: _ :: _, hxy => exact absurd hxy (by simp [IP.Hextets])
          · obtain ⟨lo', rfl, hz⟩ := shape_snoc2 hi lo _ _ _ hx hy hsh.symm
            obtain ⟨g1, g2, rfl, hd, hxy⟩ := hextets_append_inv _ _ glo hg2
            match g2, hxy with
            | [gx, gy], hxy =>
              have ex := isHextet_toHex _ gx hq.2.2.1 hxy.1
              have ey := isHextet_toHex _ gy hq.2.2.2 hxy.2.1
              subst ex; subst ey
              refine Or.inr ⟨hi, lo' ++ [IP.dotted v], ghi, _, hg1, Or.inr ⟨lo', g1, v, by omega, hd, rfl, rfl⟩, h7, ?_, rfl⟩
              rw [← join_shape, ← hz, ← hPd]; exact hj.symm
            | [], hxy => exact absurd hxy (by simp [IP.Hextets])
            | [_], hxy => exact absurd hxy (by simp [IP.Hextets])
            | _ :: _ :: _ :: _, hxy => exact absurd hxy (by simp [IP.Hextets])
      · rcases v6FromParts_sound _ n h with ⟨gs, hg, h8, rfl⟩ | ⟨hi, lo, ghi, glo, hg1, hg2, h7, rfl, rfl⟩
        · exact Or.inl ⟨P, gs, Or.inl hg, h8, hj.symm, rfl⟩
        · exact Or.inr ⟨hi, lo, ghi, glo, hg1, Or.inl hg2, h7, by rw [← join_shape]; exact hj.symm, rfl⟩


/-! ### a spelling denotes a 128-bit value -/
theorem foldG_lt (gs : List Nat) (acc : Nat) (h : ∀ g ∈ gs, g < 65536) :
    foldG acc gs < (acc + 1) * 65536 ^ gs.length := by
  induction gs generalizing acc with
  | nil => simp [foldG]
  | cons g gs ih =>
    have hg : g < 65536 := h g (by simp)
    have := ih (acc * 65536 + g) (fun x hx => h x (by simp [hx]))
    show foldG (acc * 65536 + g) gs < _
    rw [List.length_cons, Nat.pow_succ]
    calc foldG (acc * 65536 + g) gs < (acc * 65536 + g + 1) * 65536 ^ gs.length := this
      _ ≤ ((acc + 1) * 65536) * 65536 ^ gs.length := Nat.mul_le_mul_right _ (by omega)
      _ = (acc + 1) * (65536 ^ gs.length * 65536) := by rw [Nat.mul_assoc, Nat.mul_comm 65536]

theorem hextets_lt' (fs : List Str) (gs : List Nat) (h : IP.Hextets fs gs) : ∀ g ∈ gs, g < 65536 := by
  induction fs generalizing gs with
  | nil => cases gs with
    | nil => intro g hg; simp at hg
    | cons _ _ => exact absurd h (by simp [IP.Hextets])
  | cons f fs ih => cases gs with
    | nil => exact absurd h (by simp [IP.Hextets])
    | cons g gs =>
      intro x hx
      rcases List.mem_cons.mp hx with rfl | hx
      · exact isHextet_lt f _ h.1
      · exact ih gs h.2 x hx

theorem fields_lt (fs : List Str) (gs : List Nat) (h : IP.Fields fs gs) : ∀ g ∈ gs, g < 65536 := by
  rcases h with h | ⟨fs', gs', v, hv, hh, _, rfl⟩
  · exact hextets_lt' fs gs h
  · intro g hg
    simp only [List.mem_append, List.mem_cons, List.not_mem_nil, or_false] at hg
    rcases hg with hg | rfl | rfl
    · exact hextets_lt' fs' gs' hh g hg
    · omega
    · omega

theorem spelling_lt (addr : Str) (n : Nat) (h : IP.IsV6Spelling addr n) : n < 2 ^ 128 := by
  rcases h with ⟨fs, gs, hf, h8, _, rfl⟩ | ⟨hi, lo, ghi, glo, h1, h2, h7, _, rfl⟩
  · have := foldG_lt gs 0 (fields_lt fs gs hf)
    rw [h8] at this
    rw [groupsVal_eq]
    have e : (0 + 1) * 65536 ^ 8 = 2 ^ 128 := by decide
    omega
  · have hall : ∀ g ∈ ghi ++ List.replicate (8 - (ghi.length + glo.length)) 0 ++ glo, g < 65536 := by
      intro g hg
      simp only [List.mem_append, List.mem_replicate] at hg
      rcases hg with (hg | hg) | hg
      · exact hextets_lt' hi ghi h1 g hg
      · omega
      · exact fields_lt lo glo h2 g hg
    have := foldG_lt _ 0 hall
    have hl : (ghi ++ List.replicate (8 - (ghi.length + glo.length)) 0 ++ glo).length = 8 := by
      simp only [List.length_append, List.length_replicate]; omega
    rw [hl] at this
    rw [groupsVal_eq]
    have e : (0 + 1) * 65536 ^ 8 = 2 ^ 128 := by decide
    omega

/-! ### completeness: every RFC 4291 spelling is read by the stdlib parser model -/

theorem v6Core_shape (f l : Str) (A B : List Str) (ghi glo : List Nat)
    (hA : ∀ p ∈ A, p ≠ []) (hB : ∀ p ∈ B, p ≠ []) (hf : f = [] → A = []) (hl : l = [] → B = [])
    (h1 : IP.Hextets (if f = [] then [] else f :: A) ghi) (h2 : IP.Hextets (if l = [] then [] else B ++ [l]) glo)
    (h7 : ghi.length + glo.length ≤ 7) :
    v6Core f (A ++ [] :: B) l =
      some (IP.groupsVal (ghi ++ List.replicate (8 - (ghi.length + glo.length)) 0 ++ glo)) := by
  have e1 := hextets_length _ _ h1
  have e2 := hextets_length _ _ h2
  unfold v6Core
  have hlen : (A ++ [] :: B).length + 2 = A.length + B.length + 3 := by simp; omega
  have ea : (f = [] ∧ A.length = 0 ∧ ghi.length = 0) ∨ (f ≠ [] ∧ ghi.length = A.length + 1) := by
    by_cases hf' : f = []
    · left; refine ⟨hf', by rw [hf hf']; rfl, ?_⟩; rw [← e1]; simp [hf']
    · right; refine ⟨hf', ?_⟩; rw [← e1]; simp [hf']
  have eb : (l = [] ∧ B.length = 0 ∧ glo.length = 0) ∨ (l ≠ [] ∧ glo.length = B.length + 1) := by
    by_cases hl' : l = []
    · left; refine ⟨hl', by rw [hl hl']; rfl, ?_⟩; rw [← e2]; simp [hl']
    · right; refine ⟨hl', ?_⟩; rw [← e2]; simp [hl']
  have hl9 : ¬ (A.length + B.length + 3 > 9) := by
    rcases ea with ⟨_, a1, a2⟩ | ⟨_, a1⟩ <;> rcases eb with ⟨_, b1, b2⟩ | ⟨_, b1⟩ <;> omega
  rw [hlen, if_neg hl9, emptyIdx_shape 1 A B hA hB]
  simp only
  have c1 : ¬ (f = [] ∧ 1 + A.length - 1 ≠ 0) := by
    rintro ⟨hf', hne⟩; rw [hf hf'] at hne; simp at hne
  have c2 : ¬ (l = [] ∧ A.length + B.length + 3 - (1 + A.length) - 1 - 1 ≠ 0) := by
    rintro ⟨hl', hne⟩; rw [hl hl'] at hne; simp at hne; omega
  have hhi : (if f = [] then 1 + A.length - 1 else 1 + A.length) = ghi.length := by
    rcases ea with ⟨a0, a1, a2⟩ | ⟨a0, a1⟩
    · rw [if_pos a0]; omega
    · rw [if_neg a0]; omega
  have hlo : (if l = [] then A.length + B.length + 3 - (1 + A.length) - 1 - 1
      else A.length + B.length + 3 - (1 + A.length) - 1) = glo.length := by
    rcases eb with ⟨b0, b1, b2⟩ | ⟨b0, b1⟩
    · rw [if_pos b0]; omega
    · rw [if_neg b0]; omega
  rw [if_neg c1, if_neg c2, hhi, hlo]
  have c3 : ¬ (8 - (ghi.length + glo.length) < 1) := by omega
  rw [if_neg c3]
  have htake : (f :: (A ++ [] :: B ++ [l])).take ghi.length = (if f = [] then [] else f :: A) := by
    rw [← e1]
    by_cases hf' : f = []
    · simp [hf']
    · simp only [hf', if_false, List.length_cons]
      rw [List.take_succ_cons]
      simp [List.take_append]
  have hdrop : (f :: (A ++ [] :: B ++ [l])).drop (A.length + B.length + 3 - glo.length) =
      (if l = [] then [] else B ++ [l]) := by
    rw [← e2]
    by_cases hl' : l = []
    · have hb := hl hl'
      subst hb
      simp only [hl', if_true, List.length_nil, Nat.add_zero, Nat.sub_zero]
      rw [show A.length + 3 = (A.length + 2) + 1 by omega, List.drop_succ_cons]
      rw [List.drop_eq_nil_of_le]; simp
    · simp only [hl', if_false, List.length_append, List.length_cons, List.length_nil]
      rw [show A.length + B.length + 3 - (B.length + (0 + 1)) = (A.length + 1) + 1 by omega, List.drop_succ_cons]
      rw [show A ++ [] :: B ++ [l] = A ++ ([] :: (B ++ [l])) by simp, List.drop_append]
      simp
  rw [htake, hdrop]
  rw [(accHextets_iff _ 0 (foldG 0 ghi)).mpr ⟨ghi, h1, rfl⟩]
  simp only
  rw [shl16, (accHextets_iff _ _ _).mpr ⟨glo, h2, rfl⟩]
  rw [groupsVal_eq, foldG_append, foldG_append, foldG_zeros]


theorem v6FromParts_shape (hi lo : List Str) (ghi glo : List Nat) (h1 : IP.Hextets hi ghi) (h2 : IP.Hextets lo glo)
    (h7 : ghi.length + glo.length ≤ 7) :
    v6FromParts (shape hi lo) =
      some (IP.groupsVal (ghi ++ List.replicate (8 - (ghi.length + glo.length)) 0 ++ glo)) := by
  have n1 := hextets_ne_nil hi ghi h1
  have n2 := hextets_ne_nil lo glo h2
  -- write shape hi lo as f :: (A ++ [] :: B) ++ [l]
  rcases snoc_cases lo with rfl | ⟨B, l, rfl⟩
  · cases hi with
    | nil =>
      have := v6Core_shape [] [] [] [] ghi glo (by simp) (by simp) (fun _ => rfl) (fun _ => rfl)
        (by simpa using h1) (by simpa using h2) h7
      rw [← v6FromParts_eq] at this
      simpa [shape] using this
    | cons f A =>
      have hf : f ≠ [] := n1 f (by simp)
      have := v6Core_shape f [] A [] ghi glo (fun p hp => n1 p (by simp [hp])) (by simp)
        (fun e => absurd e hf) (fun _ => rfl) (by simpa [hf] using h1) (by simpa using h2) h7
      rw [← v6FromParts_eq] at this
      simpa [shape] using this
  · have hl : l ≠ [] := n2 l (by simp)
    have hB : ∀ p ∈ B, p ≠ [] := fun p hp => n2 p (by simp [hp])
    cases hi with
    | nil =>
      have := v6Core_shape [] l [] B ghi glo (by simp) hB (fun _ => rfl) (fun e => absurd e hl)
        (by simpa using h1) (by simpa [hl] using h2) h7
      rw [← v6FromParts_eq] at this
      simpa [shape] using this
    | cons f A =>
      have hf : f ≠ [] := n1 f (by simp)
      have := v6Core_shape f l A B ghi glo (fun p hp => n1 p (by simp [hp])) hB
        (fun e => absurd e hf) (fun e => absurd e hl) (by simpa [hf] using h1) (by simpa [hl] using h2) h7
      rw [← v6FromParts_eq] at this
      simpa [shape] using this

theorem v6FromParts_full (fs : List Str) (gs : List Nat) (h : IP.Hextets fs gs) (h8 : gs.length = 8) :
    v6FromParts fs = some (IP.groupsVal gs) := by
  have hlen := hextets_length fs gs h
  have hne := hextets_ne_nil fs gs h
  obtain ⟨f, inner, l, rfl⟩ := parts_decomp fs (by omega)
  rw [v6FromParts_eq]
  unfold v6Core
  have hl : inner.length + 2 = 8 := by simp at hlen; omega
  have hin : emptyIdx 1 inner = [] := (emptyIdx_nil_iff 1 inner).mpr (fun p hp => hne p (by simp [hp]))
  have hf : f ≠ [] := hne f (by simp)
  have hll : l ≠ [] := hne l (by simp)
  rw [hin]
  simp only [hl, Nat.reduceGT, if_false, ne_eq, not_true_eq_false, hf, hll]
  exact (accHextets_iff _ 0 _).mpr ⟨gs, h, rfl⟩


theorem stdV6Int_join (D : List Str) (z : Str) (hlen : 2 ≤ D.length)
    (hD : ∀ p ∈ D, ∀ c ∈ p, c ≠ ':') (hz : ∀ c ∈ z, c ≠ ':') :
    stdV6Int (join [':'] (D ++ [z])) =
      if z.contains '.' then
        match stdV4Int z with
        | none => none
        | some v => v6FromParts (D ++ [toHex ((v >>> 16) &&& 0xFFFF), toHex (v &&& 0xFFFF)])
      else v6FromParts (D ++ [z]) := by
  unfold stdV6Int
  have hj : join [':'] (D ++ [z]) ≠ [] := by
    match D, hlen with
    | a :: b :: rest, _ => simp only [List.cons_append]; exact join_ne_nil a b _
  have hsp : splitOn ':' (join [':'] (D ++ [z])) = D ++ [z] := by
    apply splitOn_join
    · simp
    · intro w hw
      rcases List.mem_append.mp hw with hw | hw
      · exact hD w hw
      · simp at hw; subst hw; exact hz
  have hl3 : ¬ (D ++ [z]).length < 3 := by simp; omega
  rw [if_neg hj, hsp]
  simp only [hl3, if_false, List.getLast?_concat, Option.getD_some, List.dropLast_concat]
  rfl

theorem isHextet_chars (s : Str) (g : Nat) (h : IP.IsHextet s g) :
    isH s = true ∧ ∀ c ∈ s, isHexDigit c = true ∧ c ≠ ':' ∧ c ≠ '.' ∧ c ≠ '/' ∧ isSpace c = false := by
  have hall := (hexNumFrom_all s 0 g h.2.2).1
  refine ⟨?_, ?_⟩
  · unfold isH
    have : s.all isHexDigit = true := List.all_eq_true.mpr hall
    rw [this]; simp [h.1, h.2.1]
  · intro c hc
    have hh := hall c hc
    have := isSpace_hexColon c (Or.inl hh)
    refine ⟨hh, ?_, ?_, this.2, this.1⟩
    · rintro rfl; revert hh; decide
    · rintro rfl; revert hh; decide

theorem hextets_chars (fs : List Str) (gs : List Nat) (h : IP.Hextets fs gs) :
    ∀ p ∈ fs, isH p = true ∧ ∀ c ∈ p, isHexDigit c = true ∧ c ≠ ':' ∧ c ≠ '.' ∧ c ≠ '/' ∧ isSpace c = false := by
  induction fs generalizing gs with
  | nil => intro p hp; simp at hp
  | cons f fs ih => cases gs with
    | nil => exact absurd h (by simp [IP.Hextets])
    | cons g gs =>
      intro p hp
      rcases List.mem_cons.mp hp with rfl | hp
      · exact isHextet_chars _ g h.1
      · exact ih gs h.2 p hp

theorem contains_dot_false (s : Str) (h : ∀ c ∈ s, c ≠ '.') : s.contains '.' = false := contains_false s '.' h

theorem isHextet_toHex' (k : Nat) (hk : k < 65536) : IP.IsHextet (toHex k) k :=
  (parseHextet_iff _ _).mp (parseHextet_toHex k hk)

theorem shape_snoc (hi L : List Str) (z : Str) :
    shape hi (L ++ [z]) = ((if hi = [] then [[]] else hi) ++ [] :: L) ++ [z] := by
  unfold shape; simp

theorem shape_nil_lo (hi : List Str) : shape hi [] = ((if hi = [] then [[]] else hi) ++ [[]]) ++ [[]] := by
  unfold shape; simp

/-- the values of the two groups a dotted quad stands for, as the parser rewrites them -/
theorem quad_hextets (v : Nat) (hv : v < 4294967296) :
    IP.Hextets [toHex ((v >>> 16) &&& 0xFFFF), toHex (v &&& 0xFFFF)] [v / 65536, v % 65536] := by
  have hq := quad_groups v hv
  rw [hq.1, hq.2.1]
  exact ⟨isHextet_toHex' _ hq.2.2.1, isHextet_toHex' _ hq.2.2.2, trivial⟩

theorem dotted_props (v : Nat) : (∀ c ∈ IP.dotted v, c ≠ ':') ∧ (IP.dotted v).contains '.' = true := by
  rw [← strV4_dotted]
  refine ⟨strV4_ne v ':' (by decide) (by decide), ?_⟩
  rw [List.contains_iff_mem]; exact dot_mem_strV4 v

theorem shapeD_len (hi L : List Str) : 2 ≤ ((if hi = [] then [[]] else hi) ++ [] :: L).length := by
  by_cases hh : hi = []
  · simp [hh]
  · cases hi with
    | nil => exact absurd rfl hh
    | cons a as => simp; omega

theorem stdV6Int_complete (addr : Str) (n : Nat) (h : IP.IsV6Spelling addr n) : stdV6Int addr = some n := by
  rcases h with ⟨fs, gs, hf, h8, rfl, rfl⟩ | ⟨hi, lo, ghi, glo, h1, h2, h7, rfl, rfl⟩
  · rcases hf with hf | ⟨fs', gs', v, hv, hf, rfl, rfl⟩
    · -- eight hextets
      have hlen := hextets_length fs gs hf
      have hch := hextets_chars fs gs hf
      rcases snoc_cases fs with rfl | ⟨D, z, rfl⟩
      · simp at hlen; omega
      · rw [stdV6Int_join D z (by simp at hlen; omega) (fun p hp c hc => ((hch p (by simp [hp])).2 c hc).2.1)
          (fun c hc => ((hch z (by simp)).2 c hc).2.1)]
        rw [contains_dot_false z (fun c hc => ((hch z (by simp)).2 c hc).2.2.1)]
        simp only [Bool.false_eq_true, if_false]
        exact v6FromParts_full _ gs hf h8
    · -- six hextets and a dotted quad
      have hlen := hextets_length fs' gs' hf
      have hch := hextets_chars fs' gs' hf
      have hd := dotted_props v
      simp only [List.length_append, List.length_cons, List.length_nil] at h8
      rw [stdV6Int_join fs' _ (by omega) (fun p hp c hc => ((hch p hp).2 c hc).2.1) hd.1, hd.2]
      simp only [if_true]
      rw [← strV4_dotted, stdV4Int_strV4 v (by omega)]
      simp only
      exact v6FromParts_full _ _ (hextets_append _ _ _ _ hf (quad_hextets v (by omega))) (by simp; omega)
  · have hch1 := hextets_chars hi ghi h1
    have hH : ∀ p ∈ (if hi = [] then [[]] else hi), ∀ c ∈ p, c ≠ ':' := by
      intro p hp c hc
      by_cases hh : hi = []
      · simp [hh] at hp; subst hp; simp at hc
      · simp only [hh, if_false] at hp; exact ((hch1 p hp).2 c hc).2.1
    rw [← join_shape]
    rcases h2 with h2 | ⟨lo', gs', v, hv, h2, rfl, rfl⟩
    · have hch2 := hextets_chars lo glo h2
      rcases snoc_cases lo with rfl | ⟨B, l, rfl⟩
      · rw [shape_nil_lo, stdV6Int_join _ [] (shapeD_len hi _)
          (by
            intro p hp c hc
            rcases List.mem_append.mp hp with hp | hp
            · exact hH p hp c hc
            · simp at hp; subst hp; simp at hc)
          (by simp)]
        simp only [List.contains_nil, Bool.false_eq_true, if_false]
        rw [← shape_nil_lo]
        exact v6FromParts_shape hi [] ghi glo h1 h2 h7
      · rw [shape_snoc, stdV6Int_join _ l (shapeD_len hi _)
          (by
            intro p hp c hc
            rcases List.mem_append.mp hp with hp | hp
            · exact hH p hp c hc
            · rcases List.mem_cons.mp hp with rfl | hp
              · simp at hc
              · exact ((hch2 p (by simp [hp])).2 c hc).2.1)
          (fun c hc => ((hch2 l (by simp)).2 c hc).2.1)]
        rw [contains_dot_false l (fun c hc => ((hch2 l (by simp)).2 c hc).2.2.1)]
        simp only [Bool.false_eq_true, if_false]
        rw [← shape_snoc]
        exact v6FromParts_shape hi _ ghi glo h1 h2 h7
    · have hch2 := hextets_chars lo' gs' h2
      have hd := dotted_props v
      rw [shape_snoc, stdV6Int_join _ _ (shapeD_len hi _)
        (by
          intro p hp c hc
          rcases List.mem_append.mp hp with hp | hp
          · exact hH p hp c hc
          · rcases List.mem_cons.mp hp with rfl | hp
            · simp at hc
            · exact ((hch2 p hp).2 c hc).2.1)
        hd.1, hd.2]
      simp only [if_true]
      rw [← strV4_dotted, stdV4Int_strV4 v (by omega)]
      simp only
      have e : ((if hi = [] then [[]] else hi) ++ [] :: lo') ++
          [toHex ((v >>> 16) &&& 0xFFFF), toHex (v &&& 0xFFFF)] =
          shape hi (lo' ++ [toHex ((v >>> 16) &&& 0xFFFF), toHex (v &&& 0xFFFF)]) := by
        unfold shape; simp
      rw [e]
      exact v6FromParts_shape hi _ ghi _ h1 (hextets_append _ _ _ _ h2 (quad_hextets v (by omega))) h7


/-! ### the regex automaton accepts every spelling -/

theorem takeWhile_appendS {p : Str → Bool} (l r : List Str) (hl : ∀ c ∈ l, p c = true)
    (hr : ∀ c, r.head? = some c → p c = false) : (l ++ r).takeWhile p = l ∧ (l ++ r).dropWhile p = r := by
  induction l with
  | nil =>
    cases r with
    | nil => simp
    | cons c cs => simp [hr c rfl]
  | cons a as ih =>
    have := ih (fun c hc => hl c (by simp [hc]))
    simp [hl a (by simp), this]

theorem hexFormParts_full (fs : List Str) (h : ∀ p ∈ fs, isH p = true) (h8 : fs.length = 8) :
    hexFormParts fs = true := by
  have hne : ∀ p ∈ fs, p ≠ [] := fun p hp e => by have := h p hp; rw [e, isH_nil] at this; cases this
  unfold hexFormParts
  split
  · exact absurd rfl (hne [] (by simp))
  · exact absurd rfl (hne [] (by simp))
  · have : fs.all isH = true := List.all_eq_true.mpr h
    simp [this, h8]

theorem hexFormParts_shape (hi lo : List Str) (h1 : ∀ p ∈ hi, isH p = true) (h2 : ∀ p ∈ lo, isH p = true)
    (h7 : hi.length + lo.length ≤ 7) : hexFormParts (shape hi lo) = true := by
  have ne1 : ∀ p ∈ hi, p ≠ [] := fun p hp e => by have := h1 p hp; rw [e, isH_nil] at this; cases this
  have ne2 : ∀ p ∈ lo, p ≠ [] := fun p hp e => by have := h2 p hp; rw [e, isH_nil] at this; cases this
  unfold shape
  cases hi with
  | nil =>
    cases lo with
    | nil => rfl
    | cons x xs =>
      have hx : x ≠ [] := ne2 x (by simp)
      cases x with
      | nil => exact absurd rfl hx
      | cons c t =>
        have hall : ((c :: t) :: xs).all isH = true := List.all_eq_true.mpr h2
        simp only [List.length_cons] at h7
        simp [hexFormParts, hall]; omega
  | cons f A =>
    have hf : f ≠ [] := ne1 f (by simp)
    cases f with
    | nil => exact absurd rfl hf
    | cons c t =>
      have hne : ((c :: t) :: A) ≠ [] := by simp
      rw [if_neg hne]
      unfold hexFormParts
      split
      · rename_i heq; simp at heq
      · rename_i rest heq; simp at heq
      · have hnall : (((c :: t) :: A) ++ [] :: (if lo = [] then [[]] else lo)).all isH = false := by
          rw [Bool.eq_false_iff]; intro hh
          have := List.all_eq_true.mp hh [] (by simp)
          rw [isH_nil] at this; cases this
        have htw := takeWhile_appendS (p := isH) ((c :: t) :: A) ([] :: (if lo = [] then [[]] else lo)) h1
          (fun x hx => by simp at hx; subst hx; exact isH_nil)
        simp only [hnall, Bool.false_eq_true, if_false, htw.1, htw.2]
        simp only [List.length_cons] at h7
        by_cases hl : lo = []
        · subst hl; simp; omega
        · have hl2 : lo ≠ [[]] := by
            intro e; rw [e] at ne2; exact ne2 [] (by simp) rfl
          have hall : lo.all isH = true := List.all_eq_true.mpr h2
          have hpos : 1 ≤ lo.length := by cases lo with
            | nil => exact absurd rfl hl
            | cons _ _ => simp
          simp [hl, hl2, hall]; omega


theorem matchEmbedded_of (pre q : Str) (hpre : pre ≠ []) (hch : ∀ c ∈ pre, isHexColon c = true)
    (hq : fullQuad q = true) (hqne : q ≠ []) : matchEmbedded (pre ++ q) = true := by
  unfold matchEmbedded
  rw [List.any_eq_true]
  refine ⟨pre.length, ?_, ?_⟩
  · rw [List.mem_range, List.length_append]
    have : 0 < q.length := List.length_pos_iff.mpr hqne
    omega
  · have h1 : 1 ≤ pre.length := List.length_pos_iff.mpr hpre
    have h2 : (pre ++ q).take pre.length = pre := by simp
    have h3 : (pre ++ q).drop pre.length = q := by simp
    rw [h2, h3, hq]
    have : pre.all isHexColon = true := List.all_eq_true.mpr hch
    simp [h1, this]

/-- per-part facts of a field list -/
theorem fields_parts (fs : List Str) (gs : List Nat) (h : IP.Fields fs gs) :
    ∀ p ∈ fs, p ≠ [] ∧ ∀ c ∈ p, c ≠ ':' ∧ c ≠ '/' ∧ isSpace c = false := by
  have hx : ∀ fs gs, IP.Hextets fs gs → ∀ p ∈ fs, p ≠ [] ∧ ∀ c ∈ p, c ≠ ':' ∧ c ≠ '/' ∧ isSpace c = false := by
    intro fs gs h p hp
    have := hextets_chars fs gs h p hp
    exact ⟨hextets_ne_nil fs gs h p hp, fun c hc => ⟨(this.2 c hc).2.1, (this.2 c hc).2.2.2.1, (this.2 c hc).2.2.2.2⟩⟩
  rcases h with h | ⟨fs', gs', v, hv, h, rfl, rfl⟩
  · exact hx fs gs h
  · intro p hp
    rcases List.mem_append.mp hp with hp | hp
    · exact hx fs' gs' h p hp
    · simp at hp; subst hp
      rw [← strV4_dotted]
      refine ⟨strV4_ne_nil v, fun c hc => ⟨strV4_ne v ':' (by decide) (by decide) c hc,
        strV4_ne v '/' (by decide) (by decide) c hc, strV4_noSpace v c hc⟩⟩

theorem join_chars (ws : List Str) (hw : ∀ p ∈ ws, ∀ c ∈ p, c ≠ '/' ∧ isSpace c = false) :
    ∀ c ∈ join [':'] ws, c ≠ '/' ∧ isSpace c = false := by
  intro c hc
  rcases mem_join ':' ws c hc with rfl | ⟨w, hw', h⟩
  · exact ⟨by decide, by decide⟩
  · exact hw w hw' c h

theorem join_head (c : Char) (t : Str) (xs : List Str) : ∃ t', join [':'] ((c :: t) :: xs) = c :: t' := by
  cases xs with
  | nil => exact ⟨t, rfl⟩
  | cons y ys => exact ⟨t ++ ':' :: join [':'] (y :: ys), by simp [join]⟩

/-- a non-empty list of non-empty colon-free parts joins to a text starting with a non-colon -/
theorem join_head_ne (ws : List Str) (hne : ws ≠ []) (hw : ∀ p ∈ ws, p ≠ [] ∧ ∀ c ∈ p, c ≠ ':') :
    ∃ c t, join [':'] ws = c :: t ∧ c ≠ ':' := by
  cases ws with
  | nil => exact absurd rfl hne
  | cons x xs =>
    have hx := hw x (by simp)
    cases x with
    | nil => exact absurd rfl hx.1
    | cons c t =>
      obtain ⟨t', e⟩ := join_head c t xs
      exact ⟨c, t', e, hx.2 c (by simp)⟩

theorem hextets_join_hexColon (fs : List Str) (gs : List Nat) (h : IP.Hextets fs gs) :
    ∀ c ∈ join [':'] fs, isHexColon c = true := by
  intro c hc
  unfold isHexColon
  rcases mem_join ':' fs c hc with rfl | ⟨w, hw, hcw⟩
  · decide
  · have := ((hextets_chars fs gs h w hw).2 c hcw).1
    simp [this]


theorem fullQuad_dotted (v : Nat) : fullQuad (IP.dotted v) = true ∧ IP.dotted v ≠ [] := by
  rw [← strV4_dotted]; exact ⟨fullQuad_strV4 v, strV4_ne_nil v⟩

/-- what the regex needs to know about a spelling -/
theorem spelling_facts (addr : Str) (n : Nat) (h : IP.IsV6Spelling addr n) :
    (∀ c ∈ addr, c ≠ '/' ∧ isSpace c = false) ∧ NoTripleHead addr ∧
    (matchHexForm addr || matchEmbedded addr) = true := by
  rcases h with ⟨fs, gs, hf, h8, rfl, _⟩ | ⟨hi, lo, ghi, glo, h1, h2, h7, rfl, _⟩
  · have hp := fields_parts fs gs hf
    have hfne : fs ≠ [] := by
      rcases hf with hf | ⟨fs', gs', v, _, hf, rfl, rfl⟩
      · intro e; subst e
        cases gs with
        | nil => simp at h8
        | cons _ _ => exact absurd hf (by simp [IP.Hextets])
      · simp
    refine ⟨join_chars fs (fun p hp' c hc => ((hp p hp').2 c hc).2), ?_, ?_⟩
    · obtain ⟨c, t, e, hc⟩ := join_head_ne fs hfne (fun p hp' => ⟨(hp p hp').1, fun c hc => ((hp p hp').2 c hc).1⟩)
      exact Or.inl ⟨c, t, e, hc⟩
    · rcases hf with hf | ⟨fs', gs', v, hv, hf, rfl, rfl⟩
      · have : matchHexForm (join [':'] fs) = true := by
          unfold matchHexForm
          rw [splitOn_join ':' fs hfne (fun p hp' c hc => ((hp p hp').2 c hc).1)]
          exact hexFormParts_full fs (fun p hp' => (hextets_chars fs gs hf p hp').1)
            (by rw [hextets_length fs gs hf]; exact h8)
        simp [this]
      · have hlen := hextets_length fs' gs' hf
        simp only [List.length_append, List.length_cons, List.length_nil] at h8
        have hne' : fs' ≠ [] := by intro e; rw [e] at hlen; simp at hlen; omega
        have hq := fullQuad_dotted v
        have : matchEmbedded (join [':'] (fs' ++ [IP.dotted v])) = true := by
          rw [join_append2 [':'] fs' [IP.dotted v] hne' (by simp)]
          simp only [join]
          apply matchEmbedded_of _ _ (by simp) _ hq.1 hq.2
          intro c hc
          rcases List.mem_append.mp hc with hc | hc
          · exact hextets_join_hexColon fs' gs' hf c hc
          · simp at hc; subst hc; decide
        simp [this]
  · have hp1 := hextets_chars hi ghi h1
    have hn1 := hextets_ne_nil hi ghi h1
    have hp2 := fields_parts lo glo h2
    have hc1 := join_chars hi (fun p hp' c hc => ⟨((hp1 p hp').2 c hc).2.2.2.1, ((hp1 p hp').2 c hc).2.2.2.2⟩)
    have hc2 := join_chars lo (fun p hp' c hc => ((hp2 p hp').2 c hc).2)
    refine ⟨?_, ?_, ?_⟩
    · intro c hc
      simp only [List.mem_append, List.mem_cons] at hc
      rcases hc with hc | rfl | rfl | hc
      · exact hc1 c hc
      · exact ⟨by decide, by decide⟩
      · exact ⟨by decide, by decide⟩
      · exact hc2 c hc
    · by_cases hh : hi = []
      · subst hh
        by_cases hl : lo = []
        · subst hl; exact Or.inr (Or.inr rfl)
        · obtain ⟨c, t, e, hc⟩ := join_head_ne lo hl (fun p hp' => ⟨(hp2 p hp').1, fun c hc => ((hp2 p hp').2 c hc).1⟩)
          exact Or.inr (Or.inl ⟨c, t, by simp [join, e], hc⟩)
      · obtain ⟨c, t, e, hc⟩ := join_head_ne hi hh (fun p hp' => ⟨hn1 p hp', fun c hc => ((hp1 p hp').2 c hc).2.1⟩)
        exact Or.inl ⟨c, _, by rw [e]; rfl, hc⟩
    · rcases h2 with h2 | ⟨lo', gs', v, hv, h2, rfl, rfl⟩
      · have : matchHexForm (join [':'] hi ++ ':' :: ':' :: join [':'] lo) = true := by
          unfold matchHexForm
          rw [← join_shape, splitOn_join ':' (shape hi lo) (by unfold shape; simp)]
          · exact hexFormParts_shape hi lo (fun p hp' => (hp1 p hp').1)
              (fun p hp' => (hextets_chars lo glo h2 p hp').1)
              (by rw [hextets_length hi ghi h1, hextets_length lo glo h2]; exact h7)
          · intro w hw c hc
            unfold shape at hw
            simp only [List.mem_append, List.mem_cons] at hw
            rcases hw with hw | rfl | hw
            · by_cases hh : hi = []
              · simp [hh] at hw; subst hw; simp at hc
              · simp only [hh, if_false] at hw; exact ((hp1 w hw).2 c hc).2.1
            · simp at hc
            · by_cases hl : lo = []
              · simp [hl] at hw; subst hw; simp at hc
              · simp only [hl, if_false] at hw; exact ((hp2 w hw).2 c hc).1
        simp [this]
      · have hq := fullQuad_dotted v
        have : matchEmbedded (join [':'] hi ++ ':' :: ':' :: join [':'] (lo' ++ [IP.dotted v])) = true := by
          have hhc := hextets_join_hexColon hi ghi h1
          by_cases hl : lo' = []
          · subst hl
            simp only [List.nil_append, join]
            rw [show join [':'] hi ++ ':' :: ':' :: IP.dotted v = (join [':'] hi ++ [':', ':']) ++ IP.dotted v by simp]
            apply matchEmbedded_of _ _ (by simp) _ hq.1 hq.2
            intro c hc
            rcases List.mem_append.mp hc with hc | hc
            · exact hhc c hc
            · simp at hc; rcases hc with rfl | rfl <;> decide
          · rw [join_append2 [':'] lo' [IP.dotted v] hl (by simp)]
            simp only [join]
            rw [show join [':'] hi ++ ':' :: ':' :: (join [':'] lo' ++ [':'] ++ IP.dotted v) =
              (join [':'] hi ++ ':' :: ':' :: (join [':'] lo' ++ [':'])) ++ IP.dotted v by simp]
            apply matchEmbedded_of _ _ (by simp) _ hq.1 hq.2
            intro c hc
            simp only [List.mem_append, List.mem_cons, List.not_mem_nil, or_false] at hc
            rcases hc with hc | rfl | rfl | hc | rfl
            · exact hhc c hc
            · decide
            · decide
            · exact hextets_join_hexColon lo' gs' h2 c hc
            · decide
        simp [this]


theorem isHex_of_isDigit (c : Char) (h : isDigit c = true) : isHexDigit c = true := by
  unfold isHexDigit; simp [h]

theorem fields_addrch (fs : List Str) (gs : List Nat) (h : IP.Fields fs gs) :
    ∀ p ∈ fs, ∀ c ∈ p, isHexDigit c = true ∨ c = '.' := by
  rcases h with h | ⟨fs', gs', v, hv, h, rfl, rfl⟩
  · intro p hp c hc; exact Or.inl ((hextets_chars fs gs h p hp).2 c hc).1
  · intro p hp c hc
    rcases List.mem_append.mp hp with hp | hp
    · exact Or.inl ((hextets_chars fs' gs' h p hp).2 c hc).1
    · simp at hp; subst hp
      rw [← strV4_dotted] at hc
      rcases strV4_chars v c hc with h | h
      · exact Or.inl (isHex_of_isDigit c h)
      · exact Or.inr h

theorem spelling_chars (addr : Str) (n : Nat) (h : IP.IsV6Spelling addr n) :
    ∀ c ∈ addr, isHexDigit c = true ∨ c = ':' ∨ c = '.' := by
  have key : ∀ fs gs, IP.Fields fs gs → ∀ c ∈ join [':'] fs, isHexDigit c = true ∨ c = ':' ∨ c = '.' := by
    intro fs gs hf c hc
    rcases mem_join ':' fs c hc with rfl | ⟨w, hw, hcw⟩
    · exact Or.inr (Or.inl rfl)
    · rcases fields_addrch fs gs hf w hw c hcw with h | h
      · exact Or.inl h
      · exact Or.inr (Or.inr h)
  rcases h with ⟨fs, gs, hf, _, rfl, _⟩ | ⟨hi, lo, ghi, glo, h1, h2, _, rfl, _⟩
  · exact key fs gs hf
  · intro c hc
    simp only [List.mem_append, List.mem_cons] at hc
    rcases hc with hc | rfl | rfl | hc
    · exact key hi ghi (Or.inl h1) c hc
    · exact Or.inr (Or.inl rfl)
    · exact Or.inr (Or.inl rfl)
    · exact key lo glo h2 c hc

theorem addrch_ne (c x : Char) (h : isHexDigit c = true ∨ c = ':' ∨ c = '.') (hx : isHexDigit x = false)
    (h1 : x ≠ ':') (h2 : x ≠ '.') : c ≠ x := by
  rcases h with h | rfl | rfl
  · rintro rfl; rw [h] at hx; cases hx
  · exact fun e => h1 e.symm
  · exact fun e => h2 e.symm

/-- the IPv6 regex on an address text with the three facts, followed by nothing or a separator and ASCII digits -/
theorem matchV6_gen (a tail : Str) (mask : Option Str)
    (hch : ∀ c ∈ a, c ≠ '/' ∧ isSpace c = false) (hok : (matchHexForm a || matchEmbedded a) = true)
    (hhead : NoTripleHead a)
    (ht : (tail = [] ∧ mask = none) ∨
      ∃ sep m, tail = sep :: m ∧ mask = some m ∧ (sep = '/' ∨ isSpace sep = true) ∧ m ≠ [] ∧ ∀ c ∈ m, isDigit c = true) :
    matchV6 (a ++ tail) = some (a, mask) := by
  unfold matchV6
  have h3 : tripleColonAhead (a ++ tail) = false := by
    apply tripleColonAhead_of_head a tail hhead
    intro c hc
    rcases ht with ⟨rfl, _⟩ | ⟨sep, m, rfl, _, hsep, _⟩
    · simp at hc
    · simp only [List.head?_cons, Option.some.injEq] at hc
      subst hc
      rcases hsep with rfl | h
      · decide
      · rintro rfl; revert h; decide
  have htw := takeWhile_append (p := fun c => !(decide (c = '/') || isSpace c)) a tail
    (fun c hc => by
      have := hch c hc
      simp [this.1, this.2])
    (fun c hc => by
      rcases ht with ⟨rfl, _⟩ | ⟨sep, m, rfl, _, hsep, _⟩
      · simp at hc
      · simp only [List.head?_cons, Option.some.injEq] at hc
        subst hc
        rcases hsep with rfl | h
        · simp
        · simp [h])
  simp only [h3, Bool.false_eq_true, if_false, htw.1, htw.2, hok, Bool.not_true]
  rcases ht with ⟨rfl, rfl⟩ | ⟨sep, m, rfl, rfl, _, hne, hd⟩
  · rfl
  · simp only [fullDigits_digits m hne hd, if_true]

/-- `IPv6Obj(text)` for any RFC 4291 spelling of `ip` followed by a slash or blanks and ASCII digits -/
theorem V6.fromStr_spelling (input addr : Str) (ip len : Nat) (m : Str) (hsp : IP.IsV6Spelling addr ip)
    (hl : len ≤ 128) (hne : m ≠ []) (hd : ∀ c ∈ m, isDigit c = true) (hv : ofDigits m = some len)
    (hguard : (addr ++ '/' :: m).length ≤ 49)
    (hs : strip input = addr ++ '/' :: m ∨
      ∃ ws, ws ≠ [] ∧ (∀ c ∈ ws, isSpace c = true) ∧ strip input = addr ++ ws ++ m) :
    V6.fromStr input = .ok (mk6 ip len) := by
  obtain ⟨hch, hhead, hok⟩ := spelling_facts addr ip hsp
  have hac := spelling_chars addr ip hsp
  have hea : ∀ c ∈ addr, isSpace c = false := fun c hc => (hch c hc).2
  have hmsp : ∀ c ∈ m, isSpace c = false := fun c hc => isSpace_of_isDigit c (hd c hc)
  have hns : ∀ c ∈ addr ++ '/' :: m, isSpace c = false := by
    intro c hc
    simp only [List.mem_append, List.mem_cons] at hc
    rcases hc with h | h | h
    · exact hea c h
    · rw [h]; decide
    · exact hmsp c h
  have hsplit : splitWs (strip input) = [addr ++ '/' :: m] ∨ splitWs (strip input) = [addr, m] := by
    rcases hs with hs | ⟨ws, hw1, hw2, hs⟩
    · left; rw [hs]; unfold splitWs; exact splitWsAux_noSpace _ hns
    · right; rw [hs]; exact splitWs_two _ ws m hea hw2 hw1 hmsp
  have hg : ¬ (addr ++ '/' :: m).length > Gen.ipv6MaxStrLen := by unfold Gen.ipv6MaxStrLen; omega
  have hstd : stdV6Addr addr = .ok ip := by
    unfold stdV6Addr
    rw [contains_false _ '/' (fun c hc => (hch c hc).1),
      contains_false _ '%' (fun c hc => addrch_ne c '%' (hac c hc) (by decide) (by decide) (by decide))]
    simp [stdV6Int_complete addr ip hsp]
  have hnet : stdV6Net false (addr ++ '/' :: m) = .ok (ip &&& ipIntFromPrefix 128 len, len) := by
    unfold stdV6Net splitOptionalNetmask
    rw [splitOn_slash _ _ (fun c hc => (hch c hc).1) (fun c hc => ne_of_isDigit c '/' (by decide) (hd c hc))]
    simp only [bind, Except.bind, hstd, makeNetmask6_digits m len hne hd hv hl]
    exact finishNet_false 128 ip len
  have hmatch := matchV6_gen addr ('/' :: m) (some m) hch hok hhead
    (Or.inr ⟨'/', m, rfl, rfl, Or.inl rfl, hne, hd⟩)
  unfold V6.fromStr
  rcases hsplit with h | h <;> rw [h] <;>
    simp only [if_neg hg, strip_noSpace _ hns, hmatch, bind, Except.bind, hstd, hnet] <;> rfl

/-- the same without a mask: prefix length 128 -/
theorem V6.fromStr_spelling_plain (input addr : Str) (ip : Nat) (hsp : IP.IsV6Spelling addr ip)
    (hguard : addr.length ≤ 49) (hs : strip input = addr) : V6.fromStr input = .ok (mk6 ip 128) := by
  obtain ⟨hch, hhead, hok⟩ := spelling_facts addr ip hsp
  have hac := spelling_chars addr ip hsp
  have hea : ∀ c ∈ addr, isSpace c = false := fun c hc => (hch c hc).2
  have hg : ¬ addr.length > Gen.ipv6MaxStrLen := by unfold Gen.ipv6MaxStrLen; omega
  have hstd : stdV6Addr addr = .ok ip := by
    unfold stdV6Addr
    rw [contains_false _ '/' (fun c hc => (hch c hc).1),
      contains_false _ '%' (fun c hc => addrch_ne c '%' (hac c hc) (by decide) (by decide) (by decide))]
    simp [stdV6Int_complete addr ip hsp]
  have hnet : stdV6Net false (addr ++ "/128".toList) = .ok (ip &&& ipIntFromPrefix 128 128, 128) := by
    unfold stdV6Net splitOptionalNetmask
    rw [show addr ++ "/128".toList = addr ++ '/' :: "128".toList from rfl,
      splitOn_slash _ _ (fun c hc => (hch c hc).1) (by decide)]
    simp only [bind, Except.bind, hstd]
    rw [show makeNetmask6 "128".toList = .ok 128 from rfl]
    exact finishNet_false 128 ip 128
  have hmatch := matchV6_gen addr [] none hch hok hhead (Or.inl ⟨rfl, rfl⟩)
  rw [List.append_nil] at hmatch
  unfold V6.fromStr
  rw [hs]
  unfold splitWs
  rw [splitWsAux_noSpace _ hea]
  simp only [if_neg hg, strip_noSpace _ hea, hmatch, bind, Except.bind, hstd, hnet]
  rfl

/-! ### RFC 5952: `str(IPv6Address(n))` is the canonical text -/

theorem compressWith_eq_shape (st : Run) (X : List Str) (s : Nat) (hs : st.bestStart = some s) (hgt : st.bestLen > 1)
    (hle : s + st.bestLen ≤ X.length) :
    compressWith st X = shape (X.take s) (X.drop (s + st.bestLen)) := by
  unfold compressWith shape
  simp only [hgt, if_true, hs, Option.getD_some]
  generalize st.bestLen = l at *
  have htake : ∀ Y : List Str, (X ++ Y).take s = X.take s := fun Y => by
    rw [List.take_append_of_le_length (by omega)]
  by_cases hstop : s + l = X.length
  · have hd1 : X.drop (s + l) = [] := by rw [hstop]; simp
    have hd2 : (X ++ [[]]).drop (s + l) = [[]] := by rw [hstop]; simp
    simp only [hstop, if_true, htake]
    rw [← hstop, hd1, hd2]
    by_cases h0 : s = 0
    · subst h0; simp
    · have : X.take s ≠ [] := by
        intro e
        rcases List.take_eq_nil_iff.mp e with h | h
        · exact h0 h
        · rw [h] at hle; simp at hle; omega
      simp [h0, this]
  · have hd : X.drop (s + l) ≠ [] := by
      intro e
      have := congrArg List.length e
      simp at this; omega
    simp only [hstop, if_false, hd]
    by_cases h0 : s = 0
    · subst h0; simp
    · have : X.take s ≠ [] := by
        intro e
        rcases List.take_eq_nil_iff.mp e with h | h
        · exact h0 h
        · rw [h] at hle; simp at hle; omega
      simp [h0, this]

/-- `IsShortened` on the zero pattern, with bounded quantifiers -/
def zeroRun (zs : List Bool) (s k : Nat) : Bool :=
  decide (2 ≤ k) && decide (s + k ≤ 8) && (List.range 8).all (fun i => !(decide (s ≤ i) && decide (i < s + k)) || zs.getD i false)

def shortenedB (zs : List Bool) (s l : Nat) : Bool :=
  zeroRun zs s l &&
  (List.range 8).all (fun s' => (List.range 9).all (fun k => !zeroRun zs s' k || decide (k < l) || (decide (k = l) && decide (s ≤ s'))))

theorem runLoop_canonical : ∀ b0 b1 b2 b3 b4 b5 b6 b7 : Bool,
    let zs := [b0, b1, b2, b3, b4, b5, b6, b7]
    let st := runLoop {} 0 zs
    (if st.bestLen > 1 then shortenedB zs (st.bestStart.getD 9) st.bestLen
     else (List.range 8).all (fun s => (List.range 9).all (fun k => !zeroRun zs s k))) = true := by
  decide


/-- the choice made by `_compress_hextets`, on the zero pattern of the eight groups, and the text it yields -/
theorem strV6_choice (n : Nat) :
    let X := (hextets n).map toHex
    let zs := X.map (· == ['0'])
    let st := runLoop {} 0 zs
    (st.bestLen > 1 → ∃ s, st.bestStart = some s ∧ shortenedB zs s st.bestLen = true ∧
      strV6 n = join [':'] (X.take s) ++ ':' :: ':' :: join [':'] (X.drop (s + st.bestLen))) ∧
    (¬ st.bestLen > 1 → (∀ s k, s < 8 → k < 9 → zeroRun zs s k = false) ∧ strV6 n = join [':'] X) := by
  intro X zs st
  have hc := runLoop_canonical (toHex (n / 2 ^ 112 % 65536) == ['0']) (toHex (n / 2 ^ 96 % 65536) == ['0'])
    (toHex (n / 2 ^ 80 % 65536) == ['0']) (toHex (n / 2 ^ 64 % 65536) == ['0']) (toHex (n / 2 ^ 48 % 65536) == ['0'])
    (toHex (n / 2 ^ 32 % 65536) == ['0']) (toHex (n / 2 ^ 16 % 65536) == ['0']) (toHex (n % 65536) == ['0'])
  have hzs : zs = [toHex (n / 2 ^ 112 % 65536) == ['0'], toHex (n / 2 ^ 96 % 65536) == ['0'],
      toHex (n / 2 ^ 80 % 65536) == ['0'], toHex (n / 2 ^ 64 % 65536) == ['0'], toHex (n / 2 ^ 48 % 65536) == ['0'],
      toHex (n / 2 ^ 32 % 65536) == ['0'], toHex (n / 2 ^ 16 % 65536) == ['0'], toHex (n % 65536) == ['0']] := by
    simp [zs, X, hextets]
  simp only at hc
  rw [← hzs] at hc
  have hstr : strV6 n = join [':'] (compressWith st X) := rfl
  constructor
  · intro hgt
    have hst : (runLoop {} 0 zs).bestLen > 1 := hgt
    rw [if_pos hst] at hc
    cases hs : st.bestStart with
    | none =>
      exfalso
      have hs' : (runLoop {} 0 zs).bestStart = none := hs
      rw [hs'] at hc
      simp [shortenedB, zeroRun] at hc
      omega
    | some s =>
      have hs' : (runLoop {} 0 zs).bestStart = some s := hs
      rw [hs'] at hc
      simp only [Option.getD_some] at hc
      refine ⟨s, rfl, hc, ?_⟩
      have hle : s + st.bestLen ≤ X.length := by
        have : zeroRun zs s st.bestLen = true := by
          unfold shortenedB at hc
          exact (Bool.and_eq_true_iff.mp hc).1
        unfold zeroRun at this
        simp only [Bool.and_eq_true, decide_eq_true_eq] at this
        have hx : X.length = 8 := by simp [X, hextets]
        omega
      rw [hstr, compressWith_eq_shape st X s hs hgt hle, join_shape]
  · intro hng
    have hst : ¬ (runLoop {} 0 zs).bestLen > 1 := hng
    rw [if_neg hst] at hc
    refine ⟨?_, ?_⟩
    · intro s k hs hk
      rw [List.all_eq_true] at hc
      have := hc s (List.mem_range.mpr hs)
      rw [List.all_eq_true] at this
      have := this k (List.mem_range.mpr hk)
      simpa using this
    · rw [hstr]; unfold compressWith; rw [if_neg hng]

end Ccp.IPText
