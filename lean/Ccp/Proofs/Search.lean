import Ccp.Model.Search
/-!
Specification of the search results (chains of direct parent→child lines) and the helper
lemmas for `Ccp.Props.C04`.  Core library only.
-/
namespace Ccp.Search
open Ccp.Tree

/-! ## Specification -/

/-- the forest invariant of a parsed tree (proved for `parse` by C03); only the
`recurse := true` / `all_children` theorems need it -/
def Forest (t : T) : Prop := ∀ i, parentOf t i ≤ i

/-- direct children of `p` matching `r`, ascending -/
def kids (t : T) (p : Nat) (r : Row) : List Nat := (children t p).filter (hit r)

/-- `cs` = (c₁,…,c_k) is a chain of direct children below `p`: `c₁ ∈ children p`, `c_{j+1} ∈
children c_j`, and `c_j` matches the j-th row -/
def IsChainFrom (t : T) : Nat → List Row → List Nat → Prop
  | _, [], [] => True
  | p, r :: rs, c :: cs => c ∈ children t p ∧ hit r c = true ∧ IsChainFrom t c rs cs
  | _, _, _ => False

/-- (c₀,…,c_k) is a chain for the rows: `c₀` is a line of the config matching row 0, every
next element is a direct child of the previous one and matches its row -/
def IsChain (t : T) : List Row → List Nat → Prop
  | r :: rs, c :: cs => c < t.size ∧ hit r c = true ∧ IsChainFrom t c rs cs
  | _, _ => False

/-- all chains below `p`, depth first = lexicographic -/
def chainsFrom (t : T) (p : Nat) : List Row → List (List Nat)
  | [] => [[]]
  | r :: rs => (kids t p r).flatMap fun k => (chainsFrom t k rs).map (k :: ·)

/-- all chains for the rows, in lexicographic order of line numbers -/
def chains (t : T) : List Row → List (List Nat)
  | [] => []
  | r :: rs => (findLineObj t r).flatMap fun c => (chainsFrom t c rs).map (c :: ·)

/-- any-depth child: the transitive closure of `children` -/
inductive Desc (t : T) : Nat → Nat → Prop
  | child {p c : Nat} : c ∈ children t p → Desc t p c
  | step {p m c : Nat} : m ∈ children t p → Desc t m c → Desc t p c

/-- the relation searched by the two-argument forms -/
def Below (t : T) (recurse : Bool) (p c : Nat) : Prop :=
  if recurse then Desc t p c else c ∈ children t p

/-- maximal partial chains below `p`, padded with `none` to the length of the rows -/
def paddedFrom (t : T) (p : Nat) : List Row → List Branch
  | [] => [[]]
  | r :: rs =>
    if (kids t p r).isEmpty then [none :: List.replicate rs.length none]
    else (kids t p r).flatMap fun k => (paddedFrom t k rs).map (some k :: ·)

/-- the documented meaning of `empty_branches=True`: every maximal partial chain, padded with
`None`; one all-`None` row when not even the first expression matches -/
def padded (t : T) : List Row → List Branch
  | [] => []
  | r :: rs =>
    if (findLineObj t r).isEmpty then [none :: List.replicate rs.length none]
    else (findLineObj t r).flatMap fun c => (paddedFrom t c rs).map (some c :: ·)

/-! ## sorted lists -/

theorem sorted_ext : ∀ (l₁ l₂ : List Nat), l₁.Pairwise (· < ·) → l₂.Pairwise (· < ·) →
    (∀ x, x ∈ l₁ ↔ x ∈ l₂) → l₁ = l₂
  | [], [], _, _, _ => rfl
  | [], b :: _, _, _, h => absurd ((h b).mpr (by simp)) (by simp)
  | a :: _, [], _, _, h => absurd ((h a).mp (by simp)) (by simp)
  | a :: l₁, b :: l₂, h₁, h₂, h => by
    have ha := List.pairwise_cons.mp h₁
    have hb := List.pairwise_cons.mp h₂
    have hab : a = b := by
      have h1 := (h a).mp (by simp)
      have h2 := (h b).mpr (by simp)
      rcases List.mem_cons.mp h1 with h1 | h1
      · exact h1
      · rcases List.mem_cons.mp h2 with h2 | h2
        · exact h2.symm
        · have := ha.1 b h2; have := hb.1 a h1; omega
    subst hab
    congr 1
    apply sorted_ext l₁ l₂ ha.2 hb.2
    intro x
    constructor
    · intro hx
      have := (h x).mp (List.mem_cons_of_mem _ hx)
      rcases List.mem_cons.mp this with e | e
      · have := ha.1 x hx; omega
      · exact e
    · intro hx
      have := (h x).mpr (List.mem_cons_of_mem _ hx)
      rcases List.mem_cons.mp this with e | e
      · have := hb.1 x hx; omega
      · exact e

theorem sorted_nodup {l : List Nat} (h : l.Pairwise (· < ·)) : l.Nodup :=
  h.imp (fun hab => Nat.ne_of_lt hab)

theorem mem_insertAsc (x y : Nat) (l : List Nat) : y ∈ insertAsc x l ↔ y = x ∨ y ∈ l := by
  induction l with
  | nil => simp [insertAsc]
  | cons a as ih =>
    unfold insertAsc
    split
    · simp
    · split
      · rename_i h; subst h; simp
      · simp [ih]; constructor <;> (intro h; rcases h with h | h | h <;> simp [h])

theorem insertAsc_sorted (x : Nat) (l : List Nat) (h : l.Pairwise (· < ·)) :
    (insertAsc x l).Pairwise (· < ·) := by
  induction l with
  | nil => simp [insertAsc]
  | cons a as ih =>
    unfold insertAsc
    have ha := List.pairwise_cons.mp h
    split
    · rename_i hx
      refine List.pairwise_cons.mpr ⟨?_, h⟩
      intro b hb
      rcases List.mem_cons.mp hb with hb | hb
      · omega
      · have := ha.1 b hb; omega
    · split
      · exact h
      · rename_i h1 h2
        refine List.pairwise_cons.mpr ⟨?_, ih ha.2⟩
        intro b hb
        rcases (mem_insertAsc x b as).mp hb with hb | hb
        · omega
        · exact ha.1 b hb

theorem sortDedup_sorted (l : List Nat) : (sortDedup l).Pairwise (· < ·) := by
  induction l with
  | nil => simp [sortDedup]
  | cons a as ih => exact insertAsc_sorted a _ ih

theorem mem_sortDedup (l : List Nat) (y : Nat) : y ∈ sortDedup l ↔ y ∈ l := by
  induction l with
  | nil => simp [sortDedup]
  | cons a as ih =>
    show y ∈ insertAsc a (sortDedup as) ↔ _
    rw [mem_insertAsc, ih]; simp

theorem mem_insertKeep (x y : Nat) (l : List Nat) : y ∈ insertKeep x l ↔ y = x ∨ y ∈ l := by
  induction l with
  | nil => simp [insertKeep]
  | cons a as ih =>
    unfold insertKeep
    split
    · simp
    · simp [ih]; constructor <;> (intro h; rcases h with h | h | h <;> simp [h])

theorem mem_sortKeep (l : List Nat) (y : Nat) : y ∈ sortKeep l ↔ y ∈ l := by
  induction l with
  | nil => simp [sortKeep]
  | cons a as ih =>
    show y ∈ insertKeep a (sortKeep as) ↔ _
    rw [mem_insertKeep, ih]; simp

/-! ## the tree views used by the searches -/

theorem mem_children (t : T) (p c : Nat) :
    c ∈ children t p ↔ c < t.size ∧ c ≠ p ∧ parentOf t c = p := by
  simp [children, List.mem_filter, List.mem_range]

theorem children_sorted (t : T) (p : Nat) : (children t p).Pairwise (· < ·) :=
  List.Pairwise.filter _ List.pairwise_lt_range

theorem kids_sorted (t : T) (p : Nat) (r : Row) : (kids t p r).Pairwise (· < ·) :=
  List.Pairwise.filter _ (children_sorted t p)

theorem mem_kids (t : T) (p : Nat) (r : Row) (c : Nat) :
    c ∈ kids t p r ↔ c ∈ children t p ∧ hit r c = true := by
  simp [kids, List.mem_filter]

theorem findLineObj_sorted (t : T) (r : Row) : (findLineObj t r).Pairwise (· < ·) :=
  List.Pairwise.filter _ List.pairwise_lt_range

theorem mem_findLineObj (t : T) (r : Row) (i : Nat) :
    i ∈ findLineObj t r ↔ i < t.size ∧ hit r i = true := by
  simp [findLineObj, List.mem_filter, List.mem_range]

theorem Desc.inv {t : T} {p c : Nat} (h : Desc t p c) :
    ∃ m ∈ children t p, c = m ∨ Desc t m c := by
  cases h with
  | child h => exact ⟨c, h, Or.inl rfl⟩
  | step hm hd => exact ⟨_, hm, Or.inr hd⟩

theorem mem_allChildrenFuel (t : T) (hf : Forest t) :
    ∀ (fuel p c : Nat), t.size ≤ fuel + p + 1 → (c ∈ allChildrenFuel t fuel p ↔ Desc t p c) := by
  intro fuel
  induction fuel with
  | zero =>
    intro p c hsz
    simp only [allChildrenFuel, List.not_mem_nil, false_iff]
    intro hd
    obtain ⟨m, hm, _⟩ := hd.inv
    have := (mem_children t p m).mp hm
    have := hf m
    omega
  | succ fuel ih =>
    intro p c hsz
    simp only [allChildrenFuel, List.mem_flatMap, List.mem_cons]
    constructor
    · rintro ⟨m, hm, h⟩
      have hm' := (mem_children t p m).mp hm
      have := hf m
      rcases h with h | h
      · subst h; exact Desc.child hm
      · exact Desc.step hm ((ih m c (by omega)).mp h)
    · intro hd
      obtain ⟨m, hm, h⟩ := hd.inv
      have hm' := (mem_children t p m).mp hm
      have := hf m
      refine ⟨m, hm, ?_⟩
      rcases h with h | h
      · exact Or.inl h
      · exact Or.inr ((ih m c (by omega)).mpr h)

/-- `all_children` = the any-depth children, under the forest invariant -/
theorem mem_allChildren (t : T) (hf : Forest t) (p c : Nat) :
    c ∈ allChildren t p ↔ Desc t p c := by
  unfold allChildren
  rw [mem_sortKeep]
  exact mem_allChildrenFuel t hf t.size p c (by omega)

theorem mem_offspring (t : T) (recurse : Bool) (hf : recurse = true → Forest t) (p c : Nat) :
    c ∈ offspring t recurse p ↔ Below t recurse p c := by
  unfold offspring Below
  cases recurse with
  | false => simp
  | true => simp [mem_allChildren t (hf rfl)]

/-! ## chains -/

theorem mem_chainsFrom (t : T) : ∀ (rs : List Row) (p : Nat) (cs : List Nat),
    cs ∈ chainsFrom t p rs ↔ IsChainFrom t p rs cs
  | [], p, cs => by
    cases cs <;> simp [chainsFrom, IsChainFrom]
  | r :: rs, p, [] => by
    simp [chainsFrom, IsChainFrom]
  | r :: rs, p, c :: cs => by
    simp only [chainsFrom, IsChainFrom, List.mem_flatMap, List.mem_map, List.cons.injEq]
    constructor
    · rintro ⟨k, hk, cs', hcs', rfl, rfl⟩
      have := (mem_kids t p r k).mp hk
      exact ⟨this.1, this.2, (mem_chainsFrom t rs k cs').mp hcs'⟩
    · rintro ⟨h1, h2, h3⟩
      exact ⟨c, (mem_kids t p r c).mpr ⟨h1, h2⟩, cs, (mem_chainsFrom t rs c cs).mpr h3, rfl, rfl⟩

/-- `chains` contains exactly the chains -/
theorem mem_chains (t : T) (rs : List Row) (cs : List Nat) :
    cs ∈ chains t rs ↔ IsChain t rs cs := by
  cases rs with
  | nil => simp [chains, IsChain]
  | cons r rs =>
    cases cs with
    | nil => simp [chains, IsChain]
    | cons c cs =>
      simp only [chains, IsChain, List.mem_flatMap, List.mem_map, List.cons.injEq]
      constructor
      · rintro ⟨k, hk, cs', hcs', rfl, rfl⟩
        have := (mem_findLineObj t r k).mp hk
        exact ⟨this.1, this.2, (mem_chainsFrom t rs k cs').mp hcs'⟩
      · rintro ⟨h1, h2, h3⟩
        exact ⟨c, (mem_findLineObj t r c).mpr ⟨h1, h2⟩, cs, (mem_chainsFrom t rs c cs).mpr h3, rfl, rfl⟩

theorem lex_flatMap_cons (l : List Nat) (f : Nat → List (List Nat))
    (hl : l.Pairwise (· < ·)) (hf : ∀ k ∈ l, (f k).Pairwise (· < ·)) :
    (l.flatMap fun k => (f k).map (k :: ·)).Pairwise (· < ·) := by
  rw [List.pairwise_flatMap]
  constructor
  · intro k hk
    rw [List.pairwise_map]
    exact (hf k hk).imp (fun h => List.Lex.cons h)
  · refine hl.imp ?_
    intro a b hab x hx y hy
    obtain ⟨x', _, rfl⟩ := List.mem_map.mp hx
    obtain ⟨y', _, rfl⟩ := List.mem_map.mp hy
    exact List.Lex.rel hab

theorem chainsFrom_sorted (t : T) : ∀ (rs : List Row) (p : Nat),
    (chainsFrom t p rs).Pairwise (· < ·)
  | [], p => by simp [chainsFrom]
  | r :: rs, p => by
    unfold chainsFrom
    exact lex_flatMap_cons _ _ (kids_sorted t p r) (fun k _ => chainsFrom_sorted t rs k)

/-- `chains` is strictly ascending in the lexicographic order of line numbers -/
theorem chains_sorted (t : T) (rs : List Row) : (chains t rs).Pairwise (· < ·) := by
  cases rs with
  | nil => simp [chains]
  | cons r rs =>
    unfold chains
    exact lex_flatMap_cons _ _ (findLineObj_sorted t r) (fun k _ => chainsFrom_sorted t rs k)

theorem chains_nodup (t : T) (rs : List Row) : (chains t rs).Nodup :=
  (chains_sorted t rs).imp (fun {a b} h e => by subst e; exact List.lt_irrefl a h)

/-! ## the growth loop of `find_object_branches` -/

theorem growStep_nil (t : T) (rs : List Row) : rs.foldl (growStep t) [] = [] := by
  induction rs with
  | nil => rfl
  | cons r rs ih => simpa [List.foldl, growStep] using ih

theorem foldl_growStep_append (t : T) (rs : List Row) : ∀ (bs cs : List Branch),
    rs.foldl (growStep t) (bs ++ cs) = rs.foldl (growStep t) bs ++ rs.foldl (growStep t) cs := by
  induction rs with
  | nil => intro bs cs; rfl
  | cons r rs ih =>
    intro bs cs
    simp only [List.foldl, growStep, List.flatMap_append]
    exact ih _ _

/-- the loop treats every branch independently -/
theorem foldl_growStep_flatMap (t : T) (rs : List Row) (bs : List Branch) :
    rs.foldl (growStep t) bs = bs.flatMap (fun b => rs.foldl (growStep t) [b]) := by
  induction bs with
  | nil => simp [growStep_nil]
  | cons b bs ih =>
    have : b :: bs = [b] ++ bs := rfl
    rw [this, foldl_growStep_append, ih]
    simp

theorem growStep_singleton (t : T) (r : Row) (b : Branch) : growStep t [b] r = extend t r b := by
  simp [growStep]

theorem hasNone_append (a b : Branch) : hasNone (a ++ b) = (hasNone a || hasNone b) := by
  simp [hasNone, List.any_append]

theorem hasNone_some (p : Nat) : hasNone [some p] = false := rfl
theorem hasNone_none : hasNone [none] = true := rfl
theorem hasNone_nil : hasNone [] = false := rfl
theorem hasNone_snoc_none (b : Branch) : hasNone (b ++ [none]) = true := by
  simp [hasNone_append, hasNone_none]

theorem hasNone_map_some (c : List Nat) : hasNone (c.map some) = false := by
  induction c with
  | nil => rfl
  | cons a c ih => simp [hasNone]

theorem extend_live (t : T) (r : Row) (pre : Branch) (p : Nat) :
    extend t r (pre ++ [some p]) =
      if (kids t p r).isEmpty then [pre ++ [some p] ++ [none]]
      else (kids t p r).map (fun k => pre ++ [some p] ++ [some k]) := by
  have hl : (pre ++ [some p]).getLast? = some (some p) := List.getLast?_concat
  unfold extend
  rw [hl]
  show (if (kids t p r).isEmpty then [none] else (kids t p r).map some).map _ = _
  split <;> simp [List.map_map, Function.comp_def]

theorem extend_dead (t : T) (r : Row) (pre : Branch) :
    extend t r (pre ++ [none]) = [pre ++ [none] ++ [none]] := by
  have hl : (pre ++ [none]).getLast? = some (none : Option Nat) := List.getLast?_concat
  unfold extend
  rw [hl]

/-- every branch produced from `b` extends `b` -/
theorem extend_prefix (t : T) (r : Row) (b : Branch) : ∀ b' ∈ extend t r b, ∃ k, b' = b ++ [k] := by
  intro b' hb'
  unfold extend at hb'
  split at hb'
  · obtain ⟨k, _, rfl⟩ := List.mem_map.mp hb'; exact ⟨k, rfl⟩
  · simp at hb'; exact ⟨none, hb'⟩

/-- a branch that already holds a `None` never yields a complete branch -/
theorem dead_filter (t : T) (rs : List Row) : ∀ (bs : List Branch), (∀ b ∈ bs, hasNone b = true) →
    (rs.foldl (growStep t) bs).filter (fun b => !hasNone b) = [] := by
  induction rs with
  | nil =>
    intro bs h
    simp only [List.foldl, List.filter_eq_nil_iff]
    intro b hb; simp [h b hb]
  | cons r rs ih =>
    intro bs h
    simp only [List.foldl]
    apply ih
    intro b' hb'
    simp only [growStep, List.mem_flatMap] at hb'
    obtain ⟨b, hb, hb'⟩ := hb'
    obtain ⟨k, rfl⟩ := extend_prefix t r b b' hb'
    simp [hasNone_append, h b hb]

/-- **key lemma** (port of `notes/spikes/BranchGrowth.lean`): growing one live branch level by
level with `None` padding and keeping the complete branches enumerates, depth first, the chains
below its last element -/
theorem live_filter (t : T) : ∀ (rs : List Row) (pre : Branch) (p : Nat), hasNone pre = false →
    (rs.foldl (growStep t) [pre ++ [some p]]).filter (fun b => !hasNone b) =
      (chainsFrom t p rs).map (fun c => pre ++ [some p] ++ c.map some) := by
  intro rs
  induction rs with
  | nil =>
    intro pre p hpre
    simp [chainsFrom, hasNone_append, hpre, hasNone_some]
  | cons r rs ih =>
    intro pre p hpre
    simp only [List.foldl, growStep_singleton, extend_live, chainsFrom]
    split
    · rename_i hk
      rw [dead_filter t rs _ (by intro b hb; rw [List.mem_singleton] at hb; subst hb; exact hasNone_snoc_none _)]
      simp [List.isEmpty_iff.mp hk]
    · rw [foldl_growStep_flatMap, List.filter_flatMap, List.flatMap_map, List.map_flatMap]
      congr 1
      funext k
      have h2 : hasNone (pre ++ [some p]) = false := by simp [hasNone_append, hpre, hasNone_some]
      have := ih (pre ++ [some p]) k h2
      rw [this, List.map_map]
      simp [Function.comp_def]

theorem findLineObj_filter (t : T) (r : Row) : (findLineObj t r).filter (hit r) = findLineObj t r := by
  simp [findLineObj, List.filter_filter]

/-- the branches before the final `None` filter: roots, or the single `[None]` seed -/
theorem roots_seed (t : T) (r : Row) :
    (findChildObjectBranches t none r).map (fun k => [k]) =
      if (findLineObj t r).isEmpty then [[none]] else (findLineObj t r).map (fun c => [some c]) := by
  simp only [findChildObjectBranches, findLineObj_filter]
  split <;> simp [List.map_map, Function.comp_def]

/-- growth with `None` padding, nothing filtered -/
theorem dead_pad (t : T) : ∀ (rs : List Row) (pre : Branch),
    rs.foldl (growStep t) [pre ++ [none]] = [pre ++ [none] ++ List.replicate rs.length none] := by
  intro rs
  induction rs with
  | nil => intro pre; simp
  | cons r rs ih =>
    intro pre
    simp only [List.foldl, growStep_singleton, extend_dead]
    rw [ih (pre ++ [none])]
    simp [List.replicate_succ, List.append_assoc]

theorem live_pad (t : T) : ∀ (rs : List Row) (pre : Branch) (p : Nat),
    rs.foldl (growStep t) [pre ++ [some p]] =
      (paddedFrom t p rs).map (fun c => pre ++ [some p] ++ c) := by
  intro rs
  induction rs with
  | nil => intro pre p; simp [paddedFrom]
  | cons r rs ih =>
    intro pre p
    simp only [List.foldl, growStep_singleton, extend_live, paddedFrom]
    split
    · rw [dead_pad]; simp [List.append_assoc]
    · rw [foldl_growStep_flatMap, List.flatMap_map, List.map_flatMap]
      congr 1
      funext k
      rw [ih (pre ++ [some p]) k, List.map_map]
      simp [Function.comp_def]

/-! ## small facts used by the property theorems -/

theorem firstOf_map_some (cs : List Nat) : firstOf (cs.map some) = cs.head? := by
  cases cs <;> simp [firstOf]

theorem lastOf_map_some (cs : List Nat) : lastOf (cs.map some) = cs.getLast? := by
  simp only [lastOf, List.getLast?_map]
  cases cs.getLast? <;> simp

theorem mem_reSearchChildren (t : T) (recurse : Bool) (hf : recurse = true → Forest t)
    (p : Nat) (crow : Row) (c : Nat) :
    c ∈ reSearchChildren t p crow recurse ↔ Below t recurse p c ∧ hit crow c = true := by
  simp [reSearchChildren, List.mem_filter, mem_offspring t recurse hf]

theorem reSearchChildren_nonempty (t : T) (recurse : Bool) (hf : recurse = true → Forest t)
    (p : Nat) (crow : Row) :
    (reSearchChildren t p crow recurse).isEmpty = false ↔
      ∃ c, Below t recurse p c ∧ hit crow c = true := by
  constructor
  · intro h
    cases hl : reSearchChildren t p crow recurse with
    | nil => simp [hl] at h
    | cons c l =>
      exact ⟨c, (mem_reSearchChildren t recurse hf p crow c).mp (by rw [hl]; simp)⟩
  · rintro ⟨c, hc⟩
    have := (mem_reSearchChildren t recurse hf p crow c).mpr hc
    cases hl : reSearchChildren t p crow recurse with
    | nil => rw [hl] at this; simp at this
    | cons c l => rfl

theorem isChain_pair (t : T) (p c : Row) (cs : List Nat) :
    IsChain t [p, c] cs ↔ ∃ i k, cs = [i, k] ∧ i < t.size ∧ hit p i = true ∧
      k ∈ children t i ∧ hit c k = true := by
  match cs with
  | [] => simp [IsChain]
  | [i] => simp [IsChain, IsChainFrom]
  | [i, k] =>
    simp only [IsChain, IsChainFrom, and_true]
    constructor
    · rintro ⟨h1, h2, h3, h4⟩; exact ⟨i, k, rfl, h1, h2, h3, h4⟩
    · rintro ⟨i', k', he, h1, h2, h3, h4⟩
      simp at he; obtain ⟨rfl, rfl⟩ := he
      exact ⟨h1, h2, h3, h4⟩
  | i :: k :: x :: l => simp [IsChain, IsChainFrom]


end Ccp.Search
