import Ccp.Model.TypedX
import Ccp.Proofs.Typed
/-!
Helper lemmas for the typed-default extension of C05 (`Ccp.Model.TypedX`): the extended helpers are the
first-match loops of `Ccp.Model.Typed` followed by the extended default; on the old defaults they are the old
helpers; `str(default)` tells the types apart.
-/
namespace Ccp.TypedX
open Ccp.Py Ccp.Tree Ccp.Typed

/-! ### the loops -/

/-- `re_match_iter_typed` with any default: the first-match loop over `order`, else the default -/
theorem iterX_eq_firstLoop (x : CtxX) (i : Nat) (ty : Ty) (d : ArgX) (u r : Bool) :
    reMatchIterTypedX x i ty d u r =
      match firstLoop x.c ty (order x.t i r) with
      | some v => liftV v
      | none => typedDefaultX x ty d u := by
  unfold reMatchIterTypedX order
  cases hm : matched (x.c.at i) with
  | true => simp [firstLoop, hm]
  | false =>
    have hm' : matched (x.c.at i) = false := hm
    cases r
    · simp [firstLoop, hm]
      cases firstLoop x.c ty (children x.t i) <;> rfl
    · simp [firstLoop, hm]
      cases firstLoop x.c ty (allChildren x.t i) <;> rfl

theorem rootX_eq_firstLoop (x : CtxX) (ty : Ty) (d : ArgX) (u : Bool) :
    rootIterTypedX x ty d u =
      match firstLoop x.c ty (roots x.t) with
      | some v => liftV v
      | none => typedDefaultX x ty d u := by
  unfold rootIterTypedX roots
  rw [rootLoop_eq]
  rfl

/-! ### the old defaults -/

theorem convX_base (ipx : ArgX → Except Err Str) (ty : Ty) (a : Arg) :
    convX ipx ty (.base a) = liftV (conv (fun b => ipx (.base b)) ty a) := by
  cases ty <;> rfl

theorem typedDefaultX_base (x : CtxX) (ty : Ty) (a : Arg) (u : Bool) :
    typedDefaultX x ty (.base a) u = liftV (typedDefault x.c ty a u) := by
  unfold typedDefaultX typedDefault
  cases u
  · simp only [Bool.false_eq_true, if_false]; exact convX_base x.ipx ty a
  · rfl

/-! ### decimal digits -/

theorem toDecRev_lt (n : Nat) (h : n < 10) : toDecRev n = [Nat.digitChar n] := by
  rw [toDecRev]; simp [h]

theorem toDecRev_ge (n : Nat) (h : ¬ n < 10) :
    toDecRev n = Nat.digitChar (n % 10) :: toDecRev (n / 10) := by
  rw [toDecRev]; simp [h]

theorem isDigit_digitChar : ∀ d : Fin 10, isDigit (Nat.digitChar d.val) = true := by decide

theorem toDecRev_digits (n : Nat) : ∀ c ∈ toDecRev n, isDigit c = true := by
  induction n using Nat.strongRecOn with
  | _ n ih =>
    by_cases h : n < 10
    · rw [toDecRev_lt n h]; intro c hc; simp at hc; subst hc; exact isDigit_digitChar ⟨n, h⟩
    · rw [toDecRev_ge n h]; intro c hc
      rcases List.mem_cons.mp hc with hc | hc
      · subst hc; exact isDigit_digitChar ⟨n % 10, by omega⟩
      · exact ih (n / 10) (by omega) c hc

theorem toDec_digits (n : Nat) : ∀ c ∈ toDec n, isDigit c = true := by
  intro c hc; exact toDecRev_digits n c (by simpa [toDec] using hc)

/-- `str(n)` of an int has no decimal point -/
theorem intToDec_no_point (n : Int) : '.' ∉ intToDec n := by
  intro h
  cases n with
  | ofNat k =>
    have := toDec_digits k '.' (by simpa [intToDec] using h)
    revert this; decide
  | negSucc k =>
    have h' : '.' ∈ toDec (k + 1) := by
      simp only [intToDec, List.mem_cons] at h
      rcases h with h | h
      · exact absurd h (by decide)
      · exact h
    have := toDec_digits (k + 1) '.' h'
    revert this; decide

/-- `repr(x)` of a float has one -/
theorem floatRepr_has_point (neg : Bool) (ip : Nat) (frac : Str) : '.' ∈ floatRepr neg ip frac := by
  simp [floatRepr]

theorem toDec_cons (n : Nat) : ∃ c cs, toDec n = c :: cs ∧ isDigit c = true := by
  cases hd : toDec n with
  | nil =>
    exfalso
    have : toDecRev n = [] := by simpa [toDec] using hd
    by_cases h10 : n < 10
    · rw [toDecRev_lt n h10] at this; cases this
    · rw [toDecRev_ge n h10] at this; cases this
  | cons c cs => exact ⟨c, cs, rfl, toDec_digits n c (by rw [hd]; simp)⟩

/-- … and starts with `-` or a digit -/
theorem floatRepr_head (neg : Bool) (ip : Nat) (frac : Str) :
    ∃ c cs, floatRepr neg ip frac = c :: cs ∧ (c = '-' ∨ isDigit c = true) := by
  cases neg
  · obtain ⟨c, cs, hd, hc⟩ := toDec_cons ip
    exact ⟨c, cs ++ '.' :: frac, by simp [floatRepr, hd], Or.inr hc⟩
  · exact ⟨'-', toDec ip ++ '.' :: frac, by simp [floatRepr], Or.inl rfl⟩

theorem intToDec_head (n : Int) : ∃ c cs, intToDec n = c :: cs ∧ (c = '-' ∨ isDigit c = true) := by
  cases n with
  | ofNat k =>
    obtain ⟨c, cs, hd, hc⟩ := toDec_cons k
    exact ⟨c, cs, by simp [intToDec, hd], Or.inr hc⟩
  | negSucc k => exact ⟨'-', toDec (k + 1), rfl, Or.inl rfl⟩

end Ccp.TypedX
