import Ccp.Model.Mac
/-!
Helper lemmas for C16. Core Lean only.

Part 1: `macaddress._parse` in closed form.  The narrowing loop over the sorted candidate
templates keeps exactly the templates that the text read so far instantiates
(`narrow_eq_filter`, `loop_spec`); for the two classes used here this gives
`parseObj_eq`: a text is accepted iff it instantiates one of the four templates, and its
value is the number its hex digits spell.
Part 2: hex digits, `toHex`/`ofHex`, templates filled with digits; the renderings of the
model are the templates filled with `toHex (2·nbytes) v`.
-/
namespace Ccp.Mac
open Ccp.Py

/-! ## Part 1 — parsing by template -/

/-- on a list where `p` can only switch from true to false, `dropWhile p` is `filter (¬p)` -/
theorem dropWhile_eq_filter {α} (p : α → Bool) (l : List α)
    (h : l.Pairwise (fun a b => p b = true → p a = true)) :
    l.dropWhile p = l.filter (fun a => !p a) := by
  induction l with
  | nil => rfl
  | cons a l ih =>
    have ha := List.pairwise_cons.mp h
    by_cases hp : p a = true
    · simp [List.dropWhile, hp, ih ha.2]
    · have hall : ∀ b ∈ l, (!p b) = true := by
        intro b hb
        have := ha.1 b hb
        cases hb' : p b <;> simp_all
      simp [List.dropWhile, hp, List.filter_eq_self.mpr hall]

theorem key_inj {a b : Option Char} (h : key a = key b) : a = b := by
  cases a <;> cases b <;> simp [key] at h ⊢
  exact Char.toNat_inj.mp h

def HeadsSorted (cands : List Cand) : Prop :=
  cands.Pairwise (fun a b => key a.rest.head? ≤ key b.rest.head?)

theorem narrow_eq_filter (cands : List Cand) (ch : Option Char) (h : HeadsSorted cands) :
    narrow cands ch = cands.filter (fun c => c.rest.head? == ch) := by
  unfold narrow
  simp only []
  rw [dropWhile_eq_filter _ cands]
  · rw [dropWhile_eq_filter]
    · rw [List.filter_reverse, List.reverse_reverse, List.filter_filter]
      apply List.filter_congr
      intro c _
      rw [Bool.eq_iff_iff]
      simp only [pyLt, Bool.and_eq_true, Bool.not_eq_true', decide_eq_false_iff_not, beq_iff_eq]
      constructor
      · rintro ⟨h1, h2⟩; exact key_inj (by omega)
      · intro h; rw [h]; omega
    · rw [List.pairwise_reverse]
      apply List.Pairwise.filter
      apply h.imp
      intro a b hab
      simp only [pyLt, decide_eq_true_eq]
      omega
  · apply h.imp
    intro a b hab
    simp only [pyLt, decide_eq_true_eq]
    omega

/-- spec: the text instantiates the template -/
def tmatch : Str → Str → Bool
  | [], [] => true
  | t :: ts, c :: cs => (some t == chOf c) && tmatch ts cs
  | _, _ => false

/-- the address accumulated by the loop: hex digits are folded, the rest is skipped -/
def hexFold (a : Nat) (s : Str) : Nat :=
  s.foldl (fun a c => if isHex c then a * 16 + hexVal c else a) a

def Cand.id (c : Cand) : Str × Cls := (c.fmt, c.cls)

structure Inv (cands : List Cand) (n : Nat) : Prop where
  sorted : cands.Pairwise (fun a b => strLt a.rest b.rest = true)
  len : ∀ c ∈ cands, c.rest.length = n

theorem Inv.heads {cands n} (h : Inv cands (n + 1)) : HeadsSorted cands := by
  apply h.sorted.imp_of_mem
  intro a b ha hb hab
  have la := h.len a ha
  have lb := h.len b hb
  match hra : a.rest, hrb : b.rest with
  | [], _ => simp [hra] at la
  | _ :: _, [] => simp [hrb] at lb
  | x :: xs, y :: ys =>
    rw [hra, hrb] at hab
    simp only [strLt, Bool.or_eq_true, decide_eq_true_eq, Bool.and_eq_true, beq_iff_eq] at hab
    simp only [List.head?, key]
    rcases hab with h1 | ⟨h1, _⟩
    · omega
    · subst h1; omega

theorem Inv.step {cands n} (h : Inv cands (n + 1)) (ch : Option Char) :
    Inv ((cands.filter (fun c => c.rest.head? == ch)).map Cand.step) n := by
  constructor
  · rw [List.pairwise_map]
    apply (h.sorted.filter _).imp_of_mem
    intro a b ha hb hab
    have ha' := List.mem_filter.mp ha
    have hb' := List.mem_filter.mp hb
    have la := h.len a ha'.1
    have lb := h.len b hb'.1
    have ea := ha'.2
    have eb := hb'.2
    simp only [Cand.step]
    match hra : a.rest, hrb : b.rest with
    | [], _ => simp [hra] at la
    | _ :: _, [] => simp [hrb] at lb
    | x :: xs, y :: ys =>
      rw [hra, hrb] at hab
      rw [hra] at ea; rw [hrb] at eb
      simp only [List.head?, beq_iff_eq] at ea eb
      have hxy : x = y := by rw [← eb] at ea; exact Option.some.inj ea
      subst hxy
      simpa [strLt] using hab
  · intro c hc
    obtain ⟨a, ha, rfl⟩ := List.mem_map.mp hc
    have := h.len a (List.mem_filter.mp ha).1
    simp [Cand.step]; omega

theorem filter_step {cands n} (h : Inv cands (n + 1)) (c : Char) (cs : Str) :
    ((cands.filter (fun k => k.rest.head? == chOf c)).map Cand.step).filter (fun k => tmatch k.rest cs)
      = (cands.filter (fun k => tmatch k.rest (c :: cs))).map Cand.step := by
  rw [List.filter_map, List.filter_filter]
  congr 1
  apply List.filter_congr
  intro k hk
  have lk := h.len k hk
  match hr : k.rest with
  | [] => simp [hr] at lk
  | t :: ts => simp [Cand.step, hr, tmatch, Bool.and_comm]

theorem step_id : Cand.id ∘ Cand.step = Cand.id := by
  funext c; simp [Cand.id, Cand.step]

theorem loop_spec (s : Str) : ∀ (addr : Nat) (cands : List Cand), Inv cands s.length → cands ≠ [] →
    (cands.filter (fun k => tmatch k.rest s) = [] → loop s addr cands = .error .valueError) ∧
    (cands.filter (fun k => tmatch k.rest s) ≠ [] → ∃ out, loop s addr cands = .ok (hexFold addr s, out) ∧
        out.map Cand.id = (cands.filter (fun k => tmatch k.rest s)).map Cand.id) := by
  induction s with
  | nil =>
    intro addr cands h hne
    have hall : cands.filter (fun k => tmatch k.rest []) = cands := by
      apply List.filter_eq_self.mpr
      intro k hk
      have := h.len k hk
      simp only [List.length_nil, List.length_eq_zero_iff] at this
      simp [this, tmatch]
    rw [hall]
    exact ⟨fun h0 => absurd h0 hne, fun _ => ⟨cands, rfl, rfl⟩⟩
  | cons c cs ih =>
    intro addr cands h hne
    have hn := narrow_eq_filter cands (chOf c) h.heads
    have hs := filter_step h c cs
    have hfold : ∀ a, hexFold a (c :: cs) = hexFold (if isHex c then a <<< 4 + hexVal c else a) cs := by
      intro a
      simp only [hexFold, List.foldl_cons, Nat.shiftLeft_eq]
    unfold loop
    simp only [hn]
    rcases hF : cands.filter (fun k => k.rest.head? == chOf c) with _ | ⟨k, ks⟩
    · rw [hF] at hs
      simp only [List.map_nil, List.filter_nil] at hs
      have : cands.filter (fun k => tmatch k.rest (c :: cs)) = [] := List.map_eq_nil_iff.mp hs.symm
      rw [hF]
      exact ⟨fun _ => rfl, fun h1 => absurd this h1⟩
    · rw [hF]
      simp only []
      rw [← hF]
      have hinv := h.step (chOf c)
      have hne' : (cands.filter (fun k => k.rest.head? == chOf c)).map Cand.step ≠ [] := by
        rw [hF]; simp
      have := ih (if isHex c then addr <<< 4 + hexVal c else addr) _ hinv hne'
      rw [hs] at this
      constructor
      · intro h0
        apply this.1
        rw [h0]; rfl
      · intro h1
        have h1' : (cands.filter (fun k => tmatch k.rest (c :: cs))).map Cand.step ≠ [] := by
          simpa using h1
        obtain ⟨out, ho, hm⟩ := this.2 h1'
        refine ⟨out, ?_, ?_⟩
        · rw [ho, hfold]
        · rw [hm, List.map_map, step_id]

theorem tmatch_length : ∀ (t s : Str), tmatch t s = true → t.length = s.length
  | [], [], _ => rfl
  | [], _ :: _, h => by simp [tmatch] at h
  | _ :: _, [], h => by simp [tmatch] at h
  | t :: ts, c :: cs, h => by
    simp only [tmatch, Bool.and_eq_true] at h
    simp [tmatch_length ts cs h.2]

/-- what the proofs need to know about the candidate list of one class -/
structure CandsOK (k : Kind) (n : Nat) : Prop where
  sorted : (candidates [k.cls] n).Pairwise (fun a b => strLt a.rest b.rest = true)
  sound : ∀ c ∈ candidates [k.cls] n, c.rest.length = n ∧ c.rest ∈ k.cls.formats ∧ c.cls = k.cls
  complete : ∀ f ∈ k.cls.formats, f.length = n → ∃ c ∈ candidates [k.cls] n, c.rest = f

theorem cands_nil_mac (n : Nat) (h1 : n ≠ 17) (h2 : n ≠ 14) (h3 : n ≠ 12) : candidates [eui48] n = [] := by
  have a1 : ¬ 17 = n := by omega
  have a2 : ¬ 14 = n := by omega
  have a3 : ¬ 12 = n := by omega
  simp [candidates, collect, eui48, a1, a2, a3, sortCands]

theorem cands_nil_eui64 (n : Nat) (h1 : n ≠ 23) (h2 : n ≠ 19) (h3 : n ≠ 16) : candidates [eui64] n = [] := by
  have a1 : ¬ 23 = n := by omega
  have a2 : ¬ 19 = n := by omega
  have a3 : ¬ 16 = n := by omega
  simp [candidates, collect, eui64, a1, a2, a3, sortCands]

theorem candsOK_mac_17 : CandsOK .mac 17 := ⟨by decide, by decide, by decide⟩
theorem candsOK_mac_14 : CandsOK .mac 14 := ⟨by decide, by decide, by decide⟩
theorem candsOK_mac_12 : CandsOK .mac 12 := ⟨by decide, by decide, by decide⟩
theorem candsOK_eui64_23 : CandsOK .eui64 23 := ⟨by decide, by decide, by decide⟩
theorem candsOK_eui64_19 : CandsOK .eui64 19 := ⟨by decide, by decide, by decide⟩
theorem candsOK_eui64_16 : CandsOK .eui64 16 := ⟨by decide, by decide, by decide⟩

theorem candsOK (k : Kind) (n : Nat) : CandsOK k n := by
  cases k with
  | mac =>
    by_cases h1 : n = 17
    · subst h1; exact candsOK_mac_17
    by_cases h2 : n = 14
    · subst h2; exact candsOK_mac_14
    by_cases h3 : n = 12
    · subst h3; exact candsOK_mac_12
    have := cands_nil_mac n h1 h2 h3
    refine ⟨by simp [Kind.cls, this], by simp [Kind.cls, this], ?_⟩
    intro f hf hl
    simp [Kind.cls, eui48] at hf
    rcases hf with rfl | rfl | rfl | rfl <;> simp at hl <;> omega
  | eui64 =>
    by_cases h1 : n = 23
    · subst h1; exact candsOK_eui64_23
    by_cases h2 : n = 19
    · subst h2; exact candsOK_eui64_19
    by_cases h3 : n = 16
    · subst h3; exact candsOK_eui64_16
    have := cands_nil_eui64 n h1 h2 h3
    refine ⟨by simp [Kind.cls, this], by simp [Kind.cls, this], ?_⟩
    intro f hf hl
    simp [Kind.cls, eui64] at hf
    rcases hf with rfl | rfl | rfl | rfl <;> simp at hl <;> omega

theorem offset_cls (k : Kind) : offset k.cls.size = 0 := by cases k <;> decide

theorem loop_nil_cands (c : Char) (cs : Str) (a : Nat) : loop (c :: cs) a [] = .error .valueError := by
  simp [loop, narrow]

/-- `_parse(string, cls)` for one class in closed form: accepted iff some template of the class is
instantiated; then the value is what the hex digits spell and the class is that class -/
theorem parse_single_eq (k : Kind) (s : Str) :
    parse [k.cls] s = if k.cls.formats.any (fun t => tmatch t s) then .ok (hexFold 0 s, k.cls)
      else .error .valueError := by
  have ok := candsOK k s.length
  unfold parse
  by_cases hs : s.length < 1
  · have : s = [] := by cases s <;> simp_all
    subst this
    have : k.cls.formats.any (fun t => tmatch t []) = false := by cases k <;> decide
    simp [this]
  simp only [hs, if_false]
  by_cases hC : candidates [k.cls] s.length = []
  · have hno : k.cls.formats.any (fun t => tmatch t s) = false := by
      rw [Bool.eq_false_iff]
      intro h
      obtain ⟨t, ht, hm⟩ := List.any_eq_true.mp h
      obtain ⟨c, hc, _⟩ := ok.complete t ht (tmatch_length t s hm)
      rw [hC] at hc; cases hc
    match s, hs with
    | c :: cs, _ => rw [hC, loop_nil_cands, hno]; rfl
  · have inv : Inv (candidates [k.cls] s.length) s.length :=
      ⟨ok.sorted, fun c hc => (ok.sound c hc).1⟩
    have sp := loop_spec s 0 _ inv hC
    by_cases hF : (candidates [k.cls] s.length).filter (fun c => tmatch c.rest s) = []
    · have hno : k.cls.formats.any (fun t => tmatch t s) = false := by
        rw [Bool.eq_false_iff]
        intro h
        obtain ⟨t, ht, hm⟩ := List.any_eq_true.mp h
        obtain ⟨c, hc, hr⟩ := ok.complete t ht (tmatch_length t s hm)
        have : c ∈ (candidates [k.cls] s.length).filter (fun c => tmatch c.rest s) :=
          List.mem_filter.mpr ⟨hc, by rw [hr]; exact hm⟩
        rw [hF] at this; cases this
      rw [sp.1 hF, hno]; rfl
    · obtain ⟨out, ho, hm⟩ := sp.2 hF
      rcases hFl : (candidates [k.cls] s.length).filter (fun c => tmatch c.rest s) with _ | ⟨c0, rest⟩
      · exact absurd hFl hF
      have hc0 : c0 ∈ (candidates [k.cls] s.length).filter (fun c => tmatch c.rest s) := by
        rw [hFl]; exact List.mem_cons_self
      have hc0' := List.mem_filter.mp hc0
      have hyes : k.cls.formats.any (fun t => tmatch t s) = true :=
        List.any_eq_true.mpr ⟨c0.rest, (ok.sound c0 hc0'.1).2.1, hc0'.2⟩
      rw [hFl] at hm
      match out, hm with
      | k0 :: ks, hm =>
        simp only [List.map_cons, List.cons.injEq, Cand.id, Prod.mk.injEq] at hm
        rw [ho, hyes]
        simp only [if_true]
        rw [hm.1.2, (ok.sound c0 hc0'.1).2.2, offset_cls]
        rfl

/-- the constructor in closed form: accepted iff some template of the class is instantiated,
and then the value is what the hex digits spell -/
theorem parseObj_eq (k : Kind) (s : Str) :
    parseObj k s = if k.cls.formats.any (fun t => tmatch t s) then .ok (hexFold 0 s) else .error .valueError := by
  unfold parseObj
  rw [parse_single_eq]
  by_cases h : k.cls.formats.any (fun t => tmatch t s) = true
  · simp only [h, if_true]
  · simp only [h]; rfl

/-! ## Part 2 — hex digits and renderings -/

def lowerDigits : Str :=
  ['0', '1', '2', '3', '4', '5', '6', '7', '8', '9', 'a', 'b', 'c', 'd', 'e', 'f']

/-- the lower-case hex digit of `d < 16` -/
def hexL (d : Nat) : Char := lowerDigits.getD d '0'

/-- spec of `format(v, "0{w}x")`: the `w` low hex digits of `v`, most significant first -/
def toHex : Nat → Nat → Str
  | 0, _ => []
  | w + 1, v => toHex w (v / 16) ++ [hexL (v % 16)]

/-- spec of `int(s, 16)` on a string of hex digits -/
def ofHex (s : Str) : Nat := s.foldl (fun a c => a * 16 + hexVal c) 0

/-- a template with its `x` replaced, left to right, by the given digits -/
def fill : Str → Str → Str
  | [], _ => []
  | t :: ts, ds =>
    if t = 'x' then
      match ds with
      | d :: ds' => d :: fill ts ds'
      | [] => t :: fill ts []
    else t :: fill ts ds

theorem hexVal_hexL : ∀ d, d < 16 → hexVal (hexL d) = d := by decide
theorem isHex_hexL : ∀ d, d < 16 → isHex (hexL d) = true := by decide
theorem lowerChar_hexL : ∀ d, d < 16 → lowerChar (hexL d) = hexL d := by decide
theorem lowerChar_upper : ∀ d, d < 16 → lowerChar (hexDigits.getD d '0') = hexL d := by decide
theorem hexL_ne_dash : ∀ d, d < 16 → (hexL d = '-') = False := by decide

theorem ofHex_append (s : Str) (c : Char) : ofHex (s ++ [c]) = ofHex s * 16 + hexVal c := by
  simp [ofHex, List.foldl_append]

theorem ofHex_toHex (w : Nat) : ∀ v, ofHex (toHex w v) = v % 16 ^ w := by
  induction w with
  | zero => intro v; simp [toHex, ofHex, Nat.mod_one]
  | succ w ih =>
    intro v
    rw [toHex, ofHex_append, ih, hexVal_hexL _ (Nat.mod_lt _ (by omega)), Nat.pow_succ', Nat.mod_mul]
    omega

theorem toHex_length (w : Nat) : ∀ v, (toHex w v).length = w := by
  induction w with
  | zero => intro v; rfl
  | succ w ih => intro v; simp [toHex, ih]

theorem toHex_digits (w : Nat) : ∀ v, ∀ c ∈ toHex w v, ∃ d, d < 16 ∧ c = hexL d := by
  induction w with
  | zero => intro v c hc; simp [toHex] at hc
  | succ w ih =>
    intro v c hc
    simp only [toHex, List.mem_append, List.mem_singleton] at hc
    rcases hc with hc | hc
    · exact ih _ c hc
    · exact ⟨v % 16, Nat.mod_lt _ (by omega), hc⟩


/-- a template whose literal characters are neither hex digits nor `x` -/
abbrev GoodTpl (t : Str) : Prop := ∀ c ∈ t, c = 'x' ∨ (isHex c = false ∧ lowerChar c = c)

theorem chOf_hex {c : Char} (h : isHex c = true) : chOf c = some 'x' := by simp [chOf, h]

theorem fill_spec (t : Str) (ht : GoodTpl t) : ∀ (ds : Str) (a : Nat),
    (∀ d ∈ ds, isHex d = true) → ds.length = t.count 'x' →
    tmatch t (fill t ds) = true ∧
    hexFold a (fill t ds) = ds.foldl (fun a c => a * 16 + hexVal c) a := by
  induction t with
  | nil => intro ds a _ hl; simp at hl; subst hl; simp [fill, tmatch, hexFold]
  | cons c cs ih =>
    intro ds a hd hl
    have hcs : GoodTpl cs := fun x hx => ht x (List.mem_cons_of_mem _ hx)
    by_cases hx : c = 'x'
    · subst hx
      match ds, hd, hl with
      | [], _, hl => simp at hl
      | d :: ds', hd, hl =>
        have hdh : isHex d = true := hd d List.mem_cons_self
        have hl' : ds'.length = cs.count 'x' := by simpa using hl
        have := ih hcs ds' (a * 16 + hexVal d) (fun x hx => hd x (List.mem_cons_of_mem _ hx)) hl'
        simp only [fill, if_true, tmatch, chOf_hex hdh, beq_self_eq_true, Bool.true_and, this.1, true_and]
        simp only [hexFold, List.foldl_cons, hdh, if_true]
        exact this.2
    · have hc := (ht c List.mem_cons_self).resolve_left hx
      have hl' : ds.length = cs.count 'x' := by
        rw [hl, List.count_cons]; simp [hx]
      have := ih hcs ds a hd hl'
      have hch : chOf c = some c := by simp [chOf, hc.1, hx]
      simp only [fill, hx, if_false, tmatch, hch, beq_self_eq_true, Bool.true_and, this.1, true_and]
      simp only [hexFold, List.foldl_cons, hc.1]
      exact this.2

theorem lower_fill (t : Str) (ht : GoodTpl t) : ∀ (ds : Str), (∀ d ∈ ds, lowerChar d = d) →
    lower (fill t ds) = fill t ds := by
  induction t with
  | nil => intro ds _; rfl
  | cons c cs ih =>
    intro ds hd
    have hcs : GoodTpl cs := fun x hx => ht x (List.mem_cons_of_mem _ hx)
    by_cases hx : c = 'x'
    · subst hx
      match ds, hd with
      | [], _ =>
        have := ih hcs [] (by simp)
        simp only [lower] at this
        simp [fill, lower, this]; decide
      | d :: ds', hd =>
        have := ih hcs ds' (fun x hx => hd x (List.mem_cons_of_mem _ hx))
        simp only [lower] at this
        simp [fill, lower, this, hd d List.mem_cons_self]
    · have hc := (ht c List.mem_cons_self).resolve_left hx
      have := ih hcs ds hd
      simp only [lower] at this
      simp [fill, lower, hx, this, hc.2]

theorem goodTpl_formats (k : Kind) : ∀ t ∈ k.cls.formats, GoodTpl t := by
  cases k <;> decide

theorem and15 (v : Nat) : v &&& 15 = v % 16 := Nat.and_two_pow_sub_one_eq_mod v 4
theorem shr4 (v : Nat) : v >>> 4 = v / 16 := by simp [Nat.shiftRight_eq_div_pow]

theorem lowerChar_nib (v : Nat) : lowerChar (hexDigits[v % 16]?.getD '0') = hexL (v % 16) := by
  have := lowerChar_upper _ (Nat.mod_lt v (by omega : 16 > 0))
  simpa using this
theorem lowerChar_dash : lowerChar '-' = '-' := by decide
theorem hexL_nib_ne_dash (v : Nat) : (hexL (v % 16) = '-') = False :=
  hexL_ne_dash _ (Nat.mod_lt _ (by omega))

/-- `str(self.mac).lower()` is the canonical template filled with the lower-case digits -/
theorem canon_mac (v : Nat) :
    lower (hwStr eui48 v) = fill (eui48.formats.headD []) (toHex 12 v) := by
  simp [hwStr, eui48, offset, strLoop, lower, and15, shr4, lowerChar_nib, lowerChar_dash, fill, toHex]

theorem canon_eui64 (v : Nat) :
    lower (hwStr eui64 v) = fill (eui64.formats.headD []) (toHex 16 v) := by
  simp [hwStr, eui64, offset, strLoop, lower, and15, shr4, lowerChar_nib, lowerChar_dash, fill, toHex]


/-- the template of a rendering: `formats[i]` of the class -/
def tpl (k : Kind) (i : Nat) : Str := k.cls.formats.getD i []

theorem dash_mac (v : Nat) : dash .mac v = fill (tpl .mac 0) (toHex 12 v) := by
  rw [dash, sepJoin, mb, Kind.cls, canon_mac]
  simp [tpl, Kind.cls, eui48, fill, toHex, splitOn, hexL_nib_ne_dash, grp]
theorem colon_mac (v : Nat) : colon .mac v = fill (tpl .mac 1) (toHex 12 v) := by
  rw [colon, sepJoin, mb, Kind.cls, canon_mac]
  simp [tpl, Kind.cls, eui48, fill, toHex, splitOn, hexL_nib_ne_dash, grp]
theorem cisco_mac (v : Nat) : cisco .mac v = fill (tpl .mac 2) (toHex 12 v) := by
  rw [cisco, mb, Kind.cls, canon_mac]
  simp [tpl, Kind.cls, eui48, fill, toHex, splitOn, hexL_nib_ne_dash, grp]
theorem bare_mac (v : Nat) : (dash .mac v).filter (· != '-') = fill (tpl .mac 3) (toHex 12 v) := by
  rw [dash_mac]
  simp [tpl, Kind.cls, eui48, fill, toHex, hexL_nib_ne_dash]

theorem dash_eui64 (v : Nat) : dash .eui64 v = fill (tpl .eui64 0) (toHex 16 v) := by
  rw [dash, sepJoin, mb, Kind.cls, canon_eui64]
  simp [tpl, Kind.cls, eui64, fill, toHex, splitOn, hexL_nib_ne_dash, grp]
theorem colon_eui64 (v : Nat) : colon .eui64 v = fill (tpl .eui64 1) (toHex 16 v) := by
  rw [colon, sepJoin, mb, Kind.cls, canon_eui64]
  simp [tpl, Kind.cls, eui64, fill, toHex, splitOn, hexL_nib_ne_dash, grp]
theorem cisco_eui64 (v : Nat) : cisco .eui64 v = fill (tpl .eui64 2) (toHex 16 v) := by
  rw [cisco, mb, Kind.cls, canon_eui64]
  simp [tpl, Kind.cls, eui64, fill, toHex, splitOn, hexL_nib_ne_dash, grp]
theorem bare_eui64 (v : Nat) : (dash .eui64 v).filter (· != '-') = fill (tpl .eui64 3) (toHex 16 v) := by
  rw [dash_eui64]
  simp [tpl, Kind.cls, eui64, fill, toHex, hexL_nib_ne_dash]

/-! ### uniform statements over the two kinds -/

theorem canon_eq (k : Kind) (v : Nat) : lower (hwStr k.cls v) = fill (tpl k 0) (toHex (2 * k.nbytes) v) := by
  cases k
  · exact canon_mac v
  · exact canon_eui64 v
theorem dash_eq (k : Kind) (v : Nat) : dash k v = fill (tpl k 0) (toHex (2 * k.nbytes) v) := by
  cases k
  · exact dash_mac v
  · exact dash_eui64 v
theorem colon_eq (k : Kind) (v : Nat) : colon k v = fill (tpl k 1) (toHex (2 * k.nbytes) v) := by
  cases k
  · exact colon_mac v
  · exact colon_eui64 v
theorem cisco_eq (k : Kind) (v : Nat) : cisco k v = fill (tpl k 2) (toHex (2 * k.nbytes) v) := by
  cases k
  · exact cisco_mac v
  · exact cisco_eui64 v
theorem bare_eq (k : Kind) (v : Nat) :
    (dash k v).filter (· != '-') = fill (tpl k 3) (toHex (2 * k.nbytes) v) := by
  cases k
  · exact bare_mac v
  · exact bare_eui64 v

theorem tpl_mem (k : Kind) (i : Nat) (hi : i < 4) : tpl k i ∈ k.cls.formats := by
  match i, hi with
  | 0, _ | 1, _ | 2, _ | 3, _ => cases k <;> decide

theorem count_x_formats (k : Kind) : ∀ t ∈ k.cls.formats, t.count 'x' = 2 * k.nbytes := by
  cases k <;> decide

theorem pow_bits (k : Kind) : 16 ^ (2 * k.nbytes) = 2 ^ (8 * k.nbytes) := by cases k <;> decide

theorem foldl_eq_ofHex (ds : Str) : ds.foldl (fun a c => a * 16 + hexVal c) 0 = ofHex ds := rfl

/-- any way of writing digits into a template of the class is accepted and denotes the digits -/
theorem parse_fill_digits (k : Kind) (t : Str) (ht : t ∈ k.cls.formats) (ds : Str)
    (hd : ∀ d ∈ ds, isHex d = true) (hl : ds.length = 2 * k.nbytes) :
    parseObj k (fill t ds) = .ok (ofHex ds) := by
  have sp := fill_spec t (goodTpl_formats k t ht) ds 0 hd (by rw [hl, count_x_formats k t ht])
  rw [parseObj_eq, List.any_eq_true.mpr ⟨t, ht, sp.1⟩, sp.2]
  rfl

theorem parse_fill (k : Kind) (t : Str) (ht : t ∈ k.cls.formats) (v : Nat) (hv : v < 2 ^ (8 * k.nbytes)) :
    parseObj k (fill t (toHex (2 * k.nbytes) v)) = .ok v := by
  rw [parse_fill_digits k t ht _ _ (toHex_length _ _), ofHex_toHex, pow_bits, Nat.mod_eq_of_lt hv]
  intro d hd
  obtain ⟨n, hn, rfl⟩ := toHex_digits _ _ d hd
  exact isHex_hexL n hn

theorem hexVal_lt {c : Char} (h : isHex c = true) : hexVal c < 16 := by
  have : ∀ c ∈ hexDigits, hexVal c < 16 := by decide
  exact this c (by simpa [isHex] using h)

theorem hexFold_lt (s : Str) : ∀ a, hexFold a s < (a + 1) * 16 ^ (s.countP isHex) := by
  induction s with
  | nil => intro a; simp [hexFold]
  | cons c cs ih =>
    intro a
    by_cases hc : isHex c = true
    · have h1 := ih (a * 16 + hexVal c)
      have h2 := hexVal_lt hc
      simp only [hexFold, List.foldl_cons, hc, if_true, List.countP_cons_of_pos, Nat.pow_succ] at h1 ⊢
      calc _ < (a * 16 + hexVal c + 1) * 16 ^ (cs.countP isHex) := h1
        _ ≤ ((a + 1) * 16) * 16 ^ (cs.countP isHex) := Nat.mul_le_mul_right _ (by omega)
        _ = _ := by rw [Nat.mul_assoc, Nat.mul_comm 16]
    · have h1 := ih a
      simp only [hexFold, List.foldl_cons, hc, List.countP_cons_of_neg, Bool.false_eq_true, if_false,
        not_false_eq_true] at h1 ⊢
      exact h1

theorem tmatch_count : ∀ (t s : Str), tmatch t s = true → s.countP isHex = t.count 'x'
  | [], [], _ => rfl
  | [], _ :: _, h => by simp [tmatch] at h
  | _ :: _, [], h => by simp [tmatch] at h
  | t :: ts, c :: cs, h => by
    simp only [tmatch, Bool.and_eq_true, beq_iff_eq] at h
    have ih := tmatch_count ts cs h.2
    by_cases hc : isHex c = true
    · have : t = 'x' := by have := h.1; simp [chOf, hc] at this; exact this
      subst this
      simp [hc, ih]
    · have : t ≠ 'x' := by
        intro ht; subst ht
        have h1 := h.1
        have hc' : isHex c = false := by simpa using hc
        simp only [chOf, hc', Bool.false_eq_true, if_false] at h1
        by_cases hx : c = 'x'
        · simp [hx] at h1
        · simp only [hx, if_false, Option.some.injEq] at h1
          exact hx h1.symm
      simp [hc, ih, this]

theorem parseObj_lt (k : Kind) (s : Str) (v : Nat) (h : parseObj k s = .ok v) : v < 2 ^ (8 * k.nbytes) := by
  rw [parseObj_eq] at h
  split at h
  · rename_i hany
    obtain ⟨t, ht, hm⟩ := List.any_eq_true.mp hany
    cases h
    have := hexFold_lt s 0
    rw [tmatch_count t s hm, count_x_formats k t ht, pow_bits] at this
    omega
  · cases h

theorem mem_fill (t : Str) : ∀ (ds : Str), ds.length = t.count 'x' →
    ∀ c ∈ fill t ds, (c ∈ t ∧ c ≠ 'x') ∨ c ∈ ds := by
  induction t with
  | nil => intro ds _ c hc; simp [fill] at hc
  | cons a as ih =>
    intro ds hl c hc
    by_cases hx : a = 'x'
    · subst hx
      match ds, hl with
      | [], hl => simp at hl
      | d :: ds', hl =>
        simp only [fill, if_true, List.mem_cons] at hc
        rcases hc with hc | hc
        · exact Or.inr (by simp [hc])
        · rcases ih ds' (by simpa using hl) c hc with h | h
          · exact Or.inl ⟨List.mem_cons_of_mem _ h.1, h.2⟩
          · exact Or.inr (List.mem_cons_of_mem _ h)
    · simp only [fill, hx, if_false, List.mem_cons] at hc
      rcases hc with hc | hc
      · exact Or.inl ⟨by simp [hc], by rw [hc]; exact hx⟩
      · rcases ih ds (by rw [hl, List.count_cons]; simp [hx]) c hc with h | h
        · exact Or.inl ⟨List.mem_cons_of_mem _ h.1, h.2⟩
        · exact Or.inr h

theorem hexL_mem : ∀ d, d < 16 → hexL d ∈ lowerDigits := by decide

/-- the characters of a filled template: lower-case hex digits and the template's separator -/
theorem fill_chars (k : Kind) (t : Str) (ht : t ∈ k.cls.formats) (v : Nat) :
    ∀ c ∈ fill t (toHex (2 * k.nbytes) v), c ∈ lowerDigits ∨ (c ∈ t ∧ c ≠ 'x') := by
  intro c hc
  rcases mem_fill t _ (by rw [toHex_length, count_x_formats k t ht]) c hc with h | h
  · exact Or.inr h
  · obtain ⟨d, hd, rfl⟩ := toHex_digits _ _ c h
    exact Or.inl (hexL_mem d hd)

theorem lower_fill_toHex (k : Kind) (t : Str) (ht : t ∈ k.cls.formats) (v : Nat) :
    lower (fill t (toHex (2 * k.nbytes) v)) = fill t (toHex (2 * k.nbytes) v) := by
  apply lower_fill t (goodTpl_formats k t ht)
  intro d hd
  obtain ⟨n, hn, rfl⟩ := toHex_digits _ _ d hd
  exact lowerChar_hexL n hn

/-! ## Part 3 — the two-class parse of `MACEUISearch` -/

def Kind.other : Kind → Kind
  | .mac => .eui64
  | .eui64 => .mac

theorem cands_pair_nil (n : Nat) (h1 : n ≠ 17) (h2 : n ≠ 14) (h3 : n ≠ 12) (h4 : n ≠ 23) (h5 : n ≠ 19)
    (h6 : n ≠ 16) : candidates [eui48, eui64] n = [] := by
  have a1 : ¬ 17 = n := by omega
  have a2 : ¬ 14 = n := by omega
  have a3 : ¬ 12 = n := by omega
  have a4 : ¬ 23 = n := by omega
  have a5 : ¬ 19 = n := by omega
  have a6 : ¬ 16 = n := by omega
  simp [candidates, collect, eui48, eui64, a1, a2, a3, a4, a5, a6, sortCands]

/-- the template lengths of the two sizes are disjoint: for every length the candidate list of
the pair is the candidate list of one class, and the other class has no candidate -/
theorem cands_pair (n : Nat) : ∃ k : Kind,
    candidates [eui48, eui64] n = candidates [k.cls] n ∧ candidates [k.other.cls] n = [] := by
  by_cases h1 : n = 17
  · subst h1; exact ⟨.mac, by decide, by decide⟩
  by_cases h2 : n = 14
  · subst h2; exact ⟨.mac, by decide, by decide⟩
  by_cases h3 : n = 12
  · subst h3; exact ⟨.mac, by decide, by decide⟩
  by_cases h4 : n = 23
  · subst h4; exact ⟨.eui64, by decide, by decide⟩
  by_cases h5 : n = 19
  · subst h5; exact ⟨.eui64, by decide, by decide⟩
  by_cases h6 : n = 16
  · subst h6; exact ⟨.eui64, by decide, by decide⟩
  refine ⟨.mac, ?_, ?_⟩
  · rw [cands_pair_nil n h1 h2 h3 h4 h5 h6]; exact (cands_nil_mac n h1 h2 h3).symm
  · exact cands_nil_eui64 n h4 h5 h6

theorem parse_nil_cands (classes : List Cls) (s : Str) (h : candidates classes s.length = []) :
    parse classes s = .error .valueError := by
  unfold parse
  cases s with
  | nil => rfl
  | cons c cs =>
    have hl : ¬ (c :: cs).length < 1 := by simp
    rw [if_neg hl, h, loop_nil_cands]

/-- the two-class `_parse` is the one-class `_parse` of exactly one size; the other size rejects -/
theorem parse_pair (w : Str) : ∃ k : Kind,
    parse [eui48, eui64] w = parse [k.cls] w ∧ parse [k.other.cls] w = .error .valueError := by
  obtain ⟨k, h1, h2⟩ := cands_pair w.length
  refine ⟨k, ?_, parse_nil_cands _ w h2⟩
  unfold parse
  rw [h1]

theorem size_cls (k : Kind) : k.cls.size = 8 * k.nbytes := by cases k <;> rfl

theorem other_ne (k : Kind) : k.other ≠ k := by cases k <;> decide
theorem eq_or_other (k k' : Kind) : k' = k ∨ k' = k.other := by cases k <;> cases k' <;> decide

/-- `classify` in closed form, relative to the one size `k` that has candidates -/
theorem classify_eq_of (w : Str) (k : Kind) (h : parse [eui48, eui64] w = parse [k.cls] w) :
    classify w = if k.cls.formats.any (fun t => tmatch t w) then .ok (k, hexFold 0 w)
      else .error .valueError := by
  unfold classify
  rw [h, parse_single_eq]
  by_cases hany : k.cls.formats.any (fun t => tmatch t w) = true
  · have hobj : parseObj k w = .ok (hexFold 0 w) := by rw [parseObj_eq, if_pos hany]
    have hlt := parseObj_lt k w _ hobj
    simp only [hany, if_true]
    have : ¬ hexFold 0 w ≥ 1 <<< k.cls.size := by
      rw [size_cls, Nat.one_shiftLeft]; omega
    simp only [this, if_false]
    cases k
    · simp [Kind.cls]
    · have hne : eui64 ≠ eui48 := by decide
      simp [Kind.cls, hne]
  · simp only [hany]; rfl

theorem classify_iff_parseObj (w : Str) (k : Kind) (v : Nat) :
    classify w = .ok (k, v) ↔ parseObj k w = .ok v := by
  obtain ⟨k0, h1, h2⟩ := parse_pair w
  rw [classify_eq_of w k0 h1]
  rcases eq_or_other k0 k with rfl | rfl
  · rw [parseObj_eq]
    by_cases hany : k.cls.formats.any (fun t => tmatch t w) = true
    · simp only [hany, if_true, Except.ok.injEq, Prod.mk.injEq, true_and]
    · simp only [hany]
      constructor <;> (intro h; cases h)
  · have : parseObj k0.other w = .error .valueError := by unfold parseObj; rw [h2]
    rw [this]
    have hne := other_ne k0
    constructor
    · intro h
      split at h
      · simp only [Except.ok.injEq, Prod.mk.injEq] at h; exact absurd h.1.symm hne
      · cases h
    · intro h; cases h

/-! ## Part 4 — `==` -/

theorem eq_iff_of_lt (k : Kind) (v w : Nat) (hv : v < 2 ^ (8 * k.nbytes)) (hw : w < 2 ^ (8 * k.nbytes)) :
    (eq k v w = true ↔ v = w) ∧ (eqRaw k v w = true ↔ v = w) := by
  have key : fill (tpl k 0) (toHex (2 * k.nbytes) v) = fill (tpl k 0) (toHex (2 * k.nbytes) w) → v = w := by
    intro he
    have p1 := parse_fill k _ (tpl_mem k 0 (by omega)) v hv
    have p2 := parse_fill k _ (tpl_mem k 0 (by omega)) w hw
    rw [he, p2] at p1
    exact (Except.ok.inj p1).symm
  constructor
  · simp only [eq, dash_eq, lower_fill_toHex k _ (tpl_mem k 0 (by omega)), beq_iff_eq]
    exact ⟨key, fun h => by rw [h]⟩
  · simp only [eqRaw, canon_eq, beq_iff_eq]
    exact ⟨key, fun h => by rw [h]⟩

/-- `==` between any two objects (wrapper or plain, either size) whose addresses are in range:
true exactly when they have the same size and the same address -/
theorem objEq_iff (a b : Obj) (ha : a.value < 2 ^ (8 * a.kind.nbytes)) (hb : b.value < 2 ^ (8 * b.kind.nbytes)) :
    objEq a b = true ↔ a.kind = b.kind ∧ a.value = b.value := by
  cases a with
  | wrapped k v =>
    cases b with
    | wrapped k' w =>
      simp only [objEq, Obj.kind, Obj.value] at *
      by_cases hk : k = k'
      · subst hk; simp only [if_true, true_and]; exact (eq_iff_of_lt k v w ha hb).1
      · simp [hk]
    | plain k' w =>
      simp only [objEq, Obj.kind, Obj.value] at *
      by_cases hk : k = k'
      · subst hk; simp only [if_true, true_and]; exact (eq_iff_of_lt k v w ha hb).2
      · simp [hk]
  | plain k v =>
    cases b with
    | wrapped k' w =>
      simp only [objEq, Obj.kind, Obj.value] at *
      by_cases hk : k = k'
      · subst hk; simp only [if_true, true_and]
        rw [(eq_iff_of_lt k w v hb ha).2]; exact eq_comm
      · simp [hk]
    | plain k' w => simp [objEq, Obj.kind, Obj.value]

end Ccp.Mac
