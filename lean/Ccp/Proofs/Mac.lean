import Ccp.Model.Mac
/-!
Helper lemmas for C16. Core Lean only.

Part 1: `macaddress._parse` in closed form.  The narrowing loop over the sorted candidate
templates keeps exactly the templates that the text read so far instantiates
(`narrow_eq_filter`, `loop_spec`); for the two classes used here this gives
`parseObj_eq`: a text is accepted iff it instantiates one of the four templates, and its
value is the number its hex digits spell.
Part 2: hex digits, `toHex`/`ofHex`, templates filled with digits; the renderings of the
model are the templates filled with `toHex (2·nbytes) v`.
-/
namespace Ccp.Mac
open Ccp.Py

/-! ## Part 1 — parsing by template -/

/-- on a list where `p` can only switch from true to false, `dropWhile p` is `filter (¬p)` -/
theorem dropWhile_eq_filter {α} (p : α → Bool) (l : List α)
    (h : l.Pairwise (fun a b => p b = true → p a = true)) :
    l.dropWhile p = l.filter (fun a => !p a) := by
  induction l with
  | nil => rfl
  | cons a l ih =>
    have ha := List.pairwise_cons.mp h
    by_cases hp : p a = true
    · simp [List.dropWhile, hp, ih ha.2]
    · have hall : ∀ b ∈ l, (!p b) = true := by
        intro b hb
        have := ha.1 b hb
        cases hb' : p b <;> simp_all
      simp [List.dropWhile, hp, List.filter_eq_self.mpr hall]

theorem key_inj {a b : Option Char} (h : key a = key b) : a = b := by
  cases a <;> cases b <;> simp [key] at h ⊢
  exact Char.toNat_inj.mp h

def HeadsSorted (cands : List Cand) : Prop :=
  cands.Pairwise (fun a b => key a.rest.head? ≤ key b.rest.head?)

theorem narrow_eq_filter (cands : List Cand) (ch : Option Char) (h : HeadsSorted cands) :
    narrow cands ch = cands.filter (fun c => c.rest.head? == ch) := by
  unfold narrow
  simp only []
  rw [dropWhile_eq_filter _ cands]
  · rw [dropWhile_eq_filter]
    · rw [List.filter_reverse, List.reverse_reverse, List.filter_filter]
      apply List.filter_congr
      intro c _
      rw [Bool.eq_iff_iff]
      simp only [pyLt, Bool.and_eq_true, Bool.not_eq_true', decide_eq_false_iff_not, beq_iff_eq]
      constructor
      · rintro ⟨h1, h2⟩; exact key_inj (by omega)
      · intro h; rw [h]; omega
    · rw [List.pairwise_reverse]
      apply List.Pairwise.filter
      apply h.imp
      intro a b hab
      simp only [pyLt, decide_eq_true_eq]
      omega
  · apply h.imp
    intro a b hab
    simp only [pyLt, decide_eq_true_eq]
    omega

/-- spec: the text instantiates the template -/
def tmatch : Str → Str → Bool
  | [], [] => true
  | t :: ts, c :: cs => (some t == chOf c) && tmatch ts cs
  | _, _ => false

/-- the address accumulated by the loop: hex digits are folded, the rest is skipped -/
def hexFold (a : Nat) (s : Str) : Nat :=
  s.foldl (fun a c => if isHex c then a * 16 + hexVal c else a) a

def Cand.id (c : Cand) : Str × Cls := (c.fmt, c.cls)

structure Inv (cands : List Cand) (n : Nat) : Prop where
  sorted : cands.Pairwise (fun a b => strLt a.rest b.rest = true)
  len : ∀ c ∈ cands, c.rest.length = n

theorem Inv.heads {cands n} (h : Inv cands (n + 1)) : HeadsSorted cands := by
  apply h.sorted.imp_of_mem
  intro a b ha hb hab
  have la := h.len a ha
  have lb := h.len b hb
  match hra : a.rest, hrb : b.rest with
  | [], _ => simp [hra] at la
  | _ :: _, [] => simp [hrb] at lb
  | x :: xs, y :: ys =>
    rw [hra, hrb] at hab
    simp only [strLt, Bool.or_eq_true, decide_eq_true_eq, Bool.and_eq_true, beq_iff_eq] at hab
    simp only [List.head?, key]
    rcases hab with h1 | ⟨h1, _⟩
    · omega
    · subst h1; omega

theorem Inv.step {cands n} (h : Inv cands (n + 1)) (ch : Option Char) :
    Inv ((cands.filter (fun c => c.rest.head? == ch)).map Cand.step) n := by
  constructor
  · rw [List.pairwise_map]
    apply (h.sorted.filter _).imp_of_mem
    intro a b ha hb hab
    have ha' := List.mem_filter.mp ha
    have hb' := List.mem_filter.mp hb
    have la := h.len a ha'.1
    have lb := h.len b hb'.1
    have ea := ha'.2
    have eb := hb'.2
    simp only [Cand.step]
    match hra : a.rest, hrb : b.rest with
    | [], _ => simp [hra] at la
    | _ :: _, [] => simp [hrb] at lb
    | x :: xs, y :: ys =>
      rw [hra, hrb] at hab
      rw [hra] at ea; rw [hrb] at eb
      simp only [List.head?, beq_iff_eq] at ea eb
      have hxy : x = y := by rw [← eb] at ea; exact Option.some.inj ea
      subst hxy
      simpa [strLt] using hab
  · intro c hc
    obtain ⟨a, ha, rfl⟩ := List.mem_map.mp hc
    have := h.len a (List.mem_filter.mp ha).1
    simp [Cand.step]; omega

theorem filter_step {cands n} (h : Inv cands (n + 1)) (c : Char) (cs : Str) :
    ((cands.filter (fun k => k.rest.head? == chOf c)).map Cand.step).filter (fun k => tmatch k.rest cs)
      = (cands.filter (fun k => tmatch k.rest (c :: cs))).map Cand.step := by
  rw [List.filter_map, List.filter_filter]
  congr 1
  apply List.filter_congr
  intro k hk
  have lk := h.len k hk
  match hr : k.rest with
  | [] => simp [hr] at lk
  | t :: ts => simp [Cand.step, hr, tmatch, Bool.and_comm]

theorem step_id : Cand.id ∘ Cand.step = Cand.id := by
  funext c; simp [Cand.id, Cand.step]

theorem loop_spec (s : Str) : ∀ (addr : Nat) (cands : List Cand), Inv cands s.length → cands ≠ [] →
    (cands.filter (fun k => tmatch k.rest s) = [] → loop s addr cands = .error .valueError) ∧
    (cands.filter (fun k => tmatch k.rest s) ≠ [] → ∃ out, loop s addr cands = .ok (hexFold addr s, out) ∧
        out.map Cand.id = (cands.filter (fun k => tmatch k.rest s)).map Cand.id) := by
  induction s with
  | nil =>
    intro addr cands h hne
    have hall : cands.filter (fun k => tmatch k.rest []) = cands := by
      apply List.filter_eq_self.mpr
      intro k hk
      have := h.len k hk
      simp only [List.length_nil, List.length_eq_zero_iff] at this
      simp [this, tmatch]
    rw [hall]
    exact ⟨fun h0 => absurd h0 hne, fun _ => ⟨cands, rfl, rfl⟩⟩
  | cons c cs ih =>
    intro addr cands h hne
    have hn := narrow_eq_filter cands (chOf c) h.heads
    have hs := filter_step h c cs
    have hfold : ∀ a, hexFold a (c :: cs) = hexFold (if isHex c then a <<< 4 + hexVal c else a) cs := by
      intro a
      simp only [hexFold, List.foldl_cons, Nat.shiftLeft_eq]
    unfold loop
    simp only [hn]
    rcases hF : cands.filter (fun k => k.rest.head? == chOf c) with _ | ⟨k, ks⟩
    · rw [hF] at hs
      simp only [List.map_nil, List.filter_nil] at hs
      have : cands.filter (fun k => tmatch k.rest (c :: cs)) = [] := List.map_eq_nil_iff.mp hs.symm
      rw [hF]
      exact ⟨fun _ => rfl, fun h1 => absurd this h1⟩
    · rw [hF]
      simp only []
      rw [← hF]
      have hinv := h.step (chOf c)
      have hne' : (cands.filter (fun k => k.rest.head? == chOf c)).map Cand.step ≠ [] := by
        rw [hF]; simp
      have := ih (if isHex c then addr <<< 4 + hexVal c else addr) _ hinv hne'
      rw [hs] at this
      constructor
      · intro h0
        apply this.1
        rw [h0]; rfl
      · intro h1
        have h1' : (cands.filter (fun k => tmatch k.rest (c :: cs))).map Cand.step ≠ [] := by
          simpa using h1
        obtain ⟨out, ho, hm⟩ := this.2 h1'
        refine ⟨out, ?_, ?_⟩
        · rw [ho, hfold]
        · rw [hm, List.map_map, step_id]

theorem tmatch_length : ∀ (t s : Str), tmatch t s = true → t.length = s.length
  | [], [], _ => rfl
  | [], _ :: _, h => by simp [tmatch] at h
  | _ :: _, [], h => by simp [tmatch] at h
  | t :: ts, c :: cs, h => by
    simp only [tmatch, Bool.and_eq_true] at h
    simp [tmatch_length ts cs h.2]

/-- what the proofs need to know about the candidate list of one class -/
structure CandsOK (k : Kind) (n : Nat) : Prop where
  sorted : (candidates [k.cls] n).Pairwise (fun a b => strLt a.rest b.rest = true)
  sound : ∀ c ∈ candidates [k.cls] n, c.rest.length = n ∧ c.rest ∈ k.cls.formats ∧ c.cls = k.cls
  complete : ∀ f ∈ k.cls.formats, f.length = n → ∃ c ∈ candidates [k.cls] n, c.rest = f

theorem cands_nil_mac (n : Nat) (h1 : n ≠ 17) (h2 : n ≠ 14) (h3 : n ≠ 12) : candidates [eui48] n = [] := by
  have a1 : ¬ 17 = n := by omega
  have a2 : ¬ 14 = n := by omega
  have a3 : ¬ 12 = n := by omega
  simp [candidates, collect, eui48, a1, a2, a3, sortCands]

theorem cands_nil_eui64 (n : Nat) (h1 : n ≠ 23) (h2 : n ≠ 19) (h3 : n ≠ 16) : candidates [eui64] n = [] := by
  have a1 : ¬ 23 = n := by omega
  have a2 : ¬ 19 = n := by omega
  have a3 : ¬ 16 = n := by omega
  simp [candidates, collect, eui64, a1, a2, a3, sortCands]

theorem candsOK_mac_17 : CandsOK .mac 17 := ⟨by decide, by decide, by decide⟩
theorem candsOK_mac_14 : CandsOK .mac 14 := ⟨by decide, by decide, by decide⟩
theorem candsOK_mac_12 : CandsOK .mac 12 := ⟨by decide, by decide, by decide⟩
theorem candsOK_eui64_23 : CandsOK .eui64 23 := ⟨by decide, by decide, by decide⟩
theorem candsOK_eui64_19 : CandsOK .eui64 19 := ⟨by decide, by decide, by decide⟩
theorem candsOK_eui64_16 : CandsOK .eui64 16 := ⟨by decide, by decide, by decide⟩

theorem candsOK (k : Kind) (n : Nat) : CandsOK k n := by
  cases k with
  | mac =>
    by_cases h1 : n = 17
    · subst h1; exact candsOK_mac_17
    by_cases h2 : n = 14
    · subst h2; exact candsOK_mac_14
    by_cases h3 : n = 12
    · subst h3; exact candsOK_mac_12
    have := cands_nil_mac n h1 h2 h3
    refine ⟨by simp [Kind.cls, this], by simp [Kind.cls, this], ?_⟩
    intro f hf hl
    simp [Kind.cls, eui48] at hf
    rcases hf with rfl | rfl | rfl | rfl <;> simp at hl <;> omega
  | eui64 =>
    by_cases h1 : n = 23
    · subst h1; exact candsOK_eui64_23
    by_cases h2 : n = 19
    · subst h2; exact candsOK_eui64_19
    by_cases h3 : n = 16
    · subst h3; exact candsOK_eui64_16
    have := cands_nil_eui64 n h1 h2 h3
    refine ⟨by simp [Kind.cls, this], by simp [Kind.cls, this], ?_⟩
    intro f hf hl
    simp [Kind.cls, eui64] at hf
    rcases hf with rfl | rfl | rfl | rfl <;> simp at hl <;> omega

theorem offset_cls (k : Kind) : offset k.cls.size = 0 := by cases k <;> decide

theorem loop_nil_cands (c : Char) (cs : Str) (a : Nat) : loop (c :: cs) a [] = .error .valueError := by
  simp [loop, narrow]

/-- the constructor in closed form: accepted iff some template of the class is instantiated,
and then the value is what the hex digits spell -/
theorem parseObj_eq (k : Kind) (s : Str) :
    parseObj k s = if k.cls.formats.any (fun t => tmatch t s) then .ok (hexFold 0 s) else .error .valueError := by
  have ok := candsOK k s.length
  unfold parseObj parse
  by_cases hs : s.length < 1
  · have : s = [] := by cases s <;> simp_all
    subst this
    have : k.cls.formats.any (fun t => tmatch t []) = false := by cases k <;> decide
    simp [this]
  simp only [hs, if_false]
  by_cases hC : candidates [k.cls] s.length = []
  · have hno : k.cls.formats.any (fun t => tmatch t s) = false := by
      rw [Bool.eq_false_iff]
      intro h
      obtain ⟨t, ht, hm⟩ := List.any_eq_true.mp h
      obtain ⟨c, hc, _⟩ := ok.complete t ht (tmatch_length t s hm)
      rw [hC] at hc; cases hc
    match s, hs with
    | c :: cs, _ => rw [hC, loop_nil_cands, hno]; rfl
  · have inv : Inv (candidates [k.cls] s.length) s.length :=
      ⟨ok.sorted, fun c hc => (ok.sound c hc).1⟩
    have sp := loop_spec s 0 _ inv hC
    by_cases hF : (candidates [k.cls] s.length).filter (fun c => tmatch c.rest s) = []
    · have hno : k.cls.formats.any (fun t => tmatch t s) = false := by
        rw [Bool.eq_false_iff]
        intro h
        obtain ⟨t, ht, hm⟩ := List.any_eq_true.mp h
        obtain ⟨c, hc, hr⟩ := ok.complete t ht (tmatch_length t s hm)
        have : c ∈ (candidates [k.cls] s.length).filter (fun c => tmatch c.rest s) :=
          List.mem_filter.mpr ⟨hc, by rw [hr]; exact hm⟩
        rw [hF] at this; cases this
      rw [sp.1 hF, hno]; rfl
    · obtain ⟨out, ho, hm⟩ := sp.2 hF
      rcases hFl : (candidates [k.cls] s.length).filter (fun c => tmatch c.rest s) with _ | ⟨c0, rest⟩
      · exact absurd hFl hF
      have hc0 : c0 ∈ (candidates [k.cls] s.length).filter (fun c => tmatch c.rest s) := by
        rw [hFl]; exact List.mem_cons_self
      have hc0' := List.mem_filter.mp hc0
      have hyes : k.cls.formats.any (fun t => tmatch t s) = true :=
        List.any_eq_true.mpr ⟨c0.rest, (ok.sound c0 hc0'.1).2.1, hc0'.2⟩
      rw [hFl] at hm
      match out, hm with
      | k0 :: ks, hm =>
        simp only [List.map_cons, List.cons.injEq, Cand.id, Prod.mk.injEq] at hm
        rw [ho, hyes]
        simp only [if_true]
        rw [hm.1.2, (ok.sound c0 hc0'.1).2.2, offset_cls]
        rfl
end Ccp.Mac
