import Ccp.Model.Tree
import Ccp.Spec.Indent
/-!
Helper lemmas for C02: the parent cache of the bootstrap loop is sound, and pass 1
(`linkByIndent`) computes `specParent`.  Core Lean only.
-/
namespace Ccp.Tree
open Ccp.Py

/-! `nearestShallower` really is "the largest `j < n` with …": -/

theorem nearestShallower_eq_some (infos : List Info) (k n j : Nat) :
    nearestShallower infos k n = some j ↔
      j < n ∧ (∃ l, infos[j]? = some l ∧ l.isCfg = true ∧ l.indent < k) ∧
      ∀ m l, j < m → m < n → infos[m]? = some l → ¬ (l.isCfg = true ∧ l.indent < k) := by
  induction n with
  | zero => simp [nearestShallower]
  | succ n ih =>
    unfold nearestShallower
    constructor
    · intro h
      split at h
      · rename_i l hl
        split at h
        · rename_i hc
          cases h
          exact ⟨Nat.lt_succ_self _, ⟨l, hl, hc⟩, fun m l' h1 h2 => by omega⟩
        · rename_i hc
          obtain ⟨h1, h2, h3⟩ := ih.mp h
          refine ⟨by omega, h2, fun m l' hm1 hm2 hm3 => ?_⟩
          by_cases hmn : m = n
          · subst hmn; rw [hl] at hm3; cases hm3; exact hc
          · exact h3 m l' hm1 (by omega) hm3
      · rename_i hl
        obtain ⟨h1, h2, h3⟩ := ih.mp h
        refine ⟨by omega, h2, fun m l' hm1 hm2 hm3 => ?_⟩
        by_cases hmn : m = n
        · subst hmn; rw [hl] at hm3; cases hm3
        · exact h3 m l' hm1 (by omega) hm3
    · rintro ⟨h1, ⟨l, hl, hc⟩, h3⟩
      by_cases hjn : j = n
      · subst hjn; simp [hl, hc]
      · have hrec : nearestShallower infos k n = some j :=
          ih.mpr ⟨by omega, ⟨l, hl, hc⟩, fun m l' a b c => h3 m l' a (by omega) c⟩
        split
        · rename_i l' hl'
          have := h3 n l' (by omega) (by omega) hl'
          simp [this, hrec]
        · exact hrec

theorem nearestShallower_eq_none (infos : List Info) (k n : Nat) :
    nearestShallower infos k n = none ↔
      ∀ m l, m < n → infos[m]? = some l → ¬ (l.isCfg = true ∧ l.indent < k) := by
  induction n with
  | zero => simp [nearestShallower]
  | succ n ih =>
    unfold nearestShallower
    constructor
    · intro h m l hm hl
      split at h
      · rename_i l' hl'
        split at h
        · cases h
        · rename_i hc
          by_cases hmn : m = n
          · subst hmn; rw [hl'] at hl; cases hl; exact hc
          · exact ih.mp h m l (by omega) hl
      · rename_i hl'
        by_cases hmn : m = n
        · subst hmn; rw [hl'] at hl; cases hl
        · exact ih.mp h m l (by omega) hl
    · intro h
      have hrec : nearestShallower infos k n = none :=
        ih.mpr (fun m l hm hl => h m l (by omega) hl)
      split
      · rename_i l' hl'
        have := h n l' (by omega) hl'
        simp [this, hrec]
      · exact hrec

/-! ## the parent cache -/

theorem lookup_cons (a b : Nat) (r : Cache) (k : Nat) :
    lookup ((a, b) :: r) k = if a = k then some b else lookup r k := rfl

theorem lookup_filter (c : Cache) (j k : Nat) :
    lookup (c.filter (fun kp => kp.1 < j)) k = if k < j then lookup c k else none := by
  induction c with
  | nil => simp [lookup]
  | cons a r ih =>
    obtain ⟨k', p⟩ := a
    by_cases h : k' < j <;> by_cases h2 : k' = k
    · subst h2; simp [List.filter, h, lookup]
    · simp [List.filter, h, lookup, ih, h2]
    · subst h2; simp [List.filter, h, ih]
    · simp [List.filter, h, lookup, ih, h2]

/-- the parent candidate the loop should settle on before the comment exception:
none for an unindented line, else the walk-back answer -/
def candSpec (revPre : List (Nat × Info)) (l : Info) : Option Nat :=
  if l.indent = 0 then none else walkBack revPre l.indent

/-- **the cache invariant**: every cached entry `k ↦ p` is the walk-back answer for indent `k`
over the processed lines, and its key lies in `(0, max_indent]` -/
def CacheInv (cache : Cache) (mx : Nat) (revPre : List (Nat × Info)) : Prop :=
  ∀ k p, lookup cache k = some p → walkBack revPre k = some p ∧ 0 < k ∧ k ≤ mx

/-- the invariant for the cache *seen as a cache for the prefix extended by line `i`* -/
def CacheInvNext (cache : Cache) (mx : Nat) (revPre : List (Nat × Info)) (i : Nat) (l : Info) : Prop :=
  ∀ k p, lookup cache k = some p →
    walkBack ((i, l) :: revPre) k = some p ∧ 0 < k ∧ k ≤ newMax mx l

theorem cacheInv_init : CacheInv St.init.cache St.init.mx St.init.revPre := by
  intro k p h; cases h

theorem maintain_parent (c : Cache) (mx : Nat) (rp : List (Nat × Info)) (l : Info)
    (h : CacheInv c mx rp) :
    ∀ p, (maintain c mx l).2 = some p → walkBack rp l.indent = some p := by
  intro p hp
  unfold maintain at hp
  split at hp
  · cases hp
  · exact (h _ _ hp).1

theorem maintain_next (c : Cache) (mx : Nat) (rp : List (Nat × Info)) (i : Nat) (l : Info)
    (h : CacheInv c mx rp) : CacheInvNext (maintain c mx l).1 mx rp i l := by
  intro k p hk
  unfold maintain at hk
  show (if l.indent < k && l.isCfg then some i else walkBack rp k) = some p ∧ _
  unfold newMax
  split at hk
  · rename_i hpr
    simp at hpr
    rw [lookup_filter] at hk
    split at hk
    · obtain ⟨h1, h2, h3⟩ := h _ _ hk
      have hk1 : ¬ (l.indent < k) := by omega
      have h0 : ¬ (l.indent = 0) := by omega
      simp [hk1, h0, h1, h2]; omega
    · cases hk
  · rename_i hpr
    obtain ⟨h1, h2, h3⟩ := h _ _ hk
    by_cases hc : l.isCfg
    · simp [hc] at hpr
      have hk1 : ¬ (l.indent < k) := by omega
      have h0 : ¬ (l.indent = 0) := by omega
      simp [hk1, h0, h1, h2]; omega
    · simp [hc, h1, h2]; omega

theorem build_parent (rp : List (Nat × Info)) (cp : Cache × Option Nat) (l : Info)
    (hp : ∀ p, cp.2 = some p → walkBack rp l.indent = some p) :
    (build rp cp l).2 = candSpec rp l := by
  unfold build candSpec
  split
  · rfl
  · cases h2 : cp.2 with
    | some p => simp [hp p h2]
    | none => cases hw : walkBack rp l.indent <;> simp

theorem build_next (rp : List (Nat × Info)) (cp : Cache × Option Nat) (mx i : Nat) (l : Info)
    (h : CacheInvNext cp.1 mx rp i l) : CacheInvNext (build rp cp l).1 mx rp i l := by
  unfold build
  split
  · exact h
  · rename_i hpos
    cases h2 : cp.2 with
    | some p => exact h
    | none =>
      cases hw : walkBack rp l.indent with
      | none => exact h
      | some q =>
        intro k p hk
        simp only at hk
        rw [lookup_cons] at hk
        split at hk
        · rename_i heq
          cases hk; subst heq
          show (if l.indent < l.indent && l.isCfg then some i else walkBack rp l.indent) = some q ∧ _
          unfold newMax
          simp [hw, hpos]; omega
        · exact h _ _ hk

/-- one loop iteration: the parent is the specified candidate passed through the comment
exception, and the invariant is preserved — for every state and every line -/
theorem step_correct (st : St) (i : Nat) (l : Info) (h : CacheInv st.cache st.mx st.revPre) :
    (step st i l).2 = attach st.revPre i l (candSpec st.revPre l) ∧
    CacheInv (step st i l).1.cache (step st i l).1.mx (step st i l).1.revPre := by
  constructor
  · show attach _ _ _ (build _ _ _).2 = _
    rw [build_parent _ _ _ (maintain_parent _ _ _ _ h)]
  · exact build_next _ _ _ _ _ (maintain_next _ _ _ _ _ h)

theorem step_revPre (st : St) (i : Nat) (l : Info) : (step st i l).1.revPre = (i, l) :: st.revPre := rfl

/-! ## from the loop state to positions in the list -/

/-- the processed lines `0 … n-1` of `infos`, newest first, with their indices -/
def revPreOf (infos : List Info) : Nat → List (Nat × Info)
  | 0 => []
  | n + 1 =>
    match infos[n]? with
    | some l => (n, l) :: revPreOf infos n
    | none => revPreOf infos n

theorem walkBack_revPreOf (infos : List Info) (k n : Nat) :
    walkBack (revPreOf infos n) k = nearestShallower infos k n := by
  induction n with
  | zero => rfl
  | succ n ih =>
    unfold revPreOf nearestShallower
    cases h : infos[n]? with
    | none => simpa using ih
    | some l =>
      simp only [walkBack, ih]
      by_cases h1 : l.isCfg = true <;> by_cases h2 : l.indent < k <;> simp [h1, h2]

theorem attach_spec (infos : List Info) (i : Nat) (l : Info) (hl : infos[i]? = some l) :
    attach (revPreOf infos i) i l (candSpec (revPreOf infos i) l) = specParent infos i := by
  unfold specParent candSpec
  rw [hl, walkBack_revPreOf]
  cases i with
  | zero =>
    simp [nearestShallower, attach, commentUnderDeeper]
  | succ j =>
    have hj : j < infos.length := by
      have := (List.getElem?_eq_some_iff.mp hl).1; omega
    have hprev : infos[j]? = some infos[j] := List.getElem?_eq_getElem hj
    simp only [revPreOf, hprev, commentUnderDeeper, hl]
    by_cases h0 : l.indent = 0
    · simp [h0, attach]
    · cases hn : nearestShallower infos l.indent (j + 1) with
      | none => simp [h0, attach]
      | some p =>
        by_cases hc : l.isCmt = true <;> by_cases hd : infos[j].indent > l.indent <;>
          simp [h0, attach, hc, hd]

theorem linkLoop_eq_spec (infos : List Info) :
    ∀ (ls : List Info) (i : Nat) (st : St), infos.drop i = ls → st.revPre = revPreOf infos i →
      CacheInv st.cache st.mx st.revPre →
      linkLoop st i ls = (List.range' i ls.length).map (specParent infos) := by
  intro ls
  induction ls with
  | nil => intros; rfl
  | cons l rest ih =>
    intro i st hdrop hrev hinv
    have hl : infos[i]? = some l := by
      have := congrArg List.head? hdrop
      simpa [List.head?_drop] using this
    have hrest : infos.drop (i + 1) = rest := by
      have := congrArg List.tail hdrop
      simpa [List.tail_drop] using this
    obtain ⟨hpar, hinv'⟩ := step_correct st i l hinv
    have hrev' : (step st i l).1.revPre = revPreOf infos (i + 1) := by
      rw [step_revPre, hrev]; simp [revPreOf, hl]
    show (step st i l).2 :: linkLoop (step st i l).1 (i + 1) rest = _
    rw [ih (i + 1) _ hrest hrev' hinv', hpar, hrev, attach_spec infos i l hl]
    simp [List.range'_succ]

theorem linkByIndent_eq_map (cfg : Cfg) (ls : List Str) :
    linkByIndent cfg ls = (List.range ls.length).map (specParent (ls.map (info cfg))) := by
  unfold linkByIndent
  rw [linkLoop_eq_spec (ls.map (info cfg)) _ 0 St.init (by simp) rfl cacheInv_init]
  simp [List.range_eq_range']

theorem info_delims (cfg cfg' : Cfg) (h : cfg.delims = cfg'.delims) : info cfg = info cfg' := by
  funext t
  simp [info, isConfigLine, isComment, h]

end Ccp.Tree
