import Ccp.Model.IPValX
import Ccp.Proofs.IPVal
import Ccp.Proofs.IPText
/-!
Helper lemmas for the operands at the edge of the value model (`Ccp.Model.IPValX`). Core Lean only.
-/
namespace Ccp.IPValX
open Ccp.Py Ccp.IPVal

instance {α : Type} [DecidableEq α] : DecidableEq (Except XErr α) := fun a b =>
  match a, b with
  | .ok x, .ok y => if h : x = y then isTrue (by rw [h]) else isFalse (by intro e; cases e; exact h rfl)
  | .error x, .error y => if h : x = y then isTrue (by rw [h]) else isFalse (by intro e; cases e; exact h rfl)
  | .ok _, .error _ => isFalse (by intro e; cases e)
  | .error _, .ok _ => isFalse (by intro e; cases e)

instance {α : Type} [DecidableEq α] : DecidableEq (Except SErr α) := fun a b =>
  match a, b with
  | .ok x, .ok y => if h : x = y then isTrue (by rw [h]) else isFalse (by intro e; cases e; exact h rfl)
  | .error x, .error y => if h : x = y then isTrue (by rw [h]) else isFalse (by intro e; cases e; exact h rfl)
  | .ok _, .error _ => isFalse (by intro e; cases e)
  | .error _, .ok _ => isFalse (by intro e; cases e)

/-- a list of items that are objects or networks (no empty object, nothing of another type) -/
def GoodItem : Item → Prop
  | .obj _ _ => True
  | .net _ _ => True
  | _ => False

/-- the `(family, network)` an object / network item stands for -/
def itemNet : Item → Nat × Net
  | .obj fam x => (fam, network x)
  | .net fam n => (fam, n)
  | _ => (0, (0, 0))

theorem ipNet_good (i : Item) (h : GoodItem i) : ipNet i = .ok (itemNet i) := by
  cases i <;> simp_all [GoodItem, ipNet, itemNet]

theorem ipNets_good : ∀ (items : List Item), (∀ i ∈ items, GoodItem i) → ipNets items = .ok (items.map itemNet)
  | [], _ => rfl
  | i :: is, h => by
    have h1 := ipNet_good i (h i (List.mem_cons_self ..))
    have h2 := ipNets_good is (fun j hj => h j (List.mem_cons_of_mem _ hj))
    simp only [ipNets, h1, h2, List.map_cons]
    rfl

/-- the first item that is not an object / network decides the exception -/
theorem ipNets_first_bad (pre : List Item) (b : Item) (post : List Item) (hp : ∀ i ∈ pre, GoodItem i)
    (e : XErr) (hb : ipNet b = .error e) : ipNets (pre ++ b :: post) = .error e := by
  induction pre with
  | nil => simp only [List.nil_append, ipNets, hb]; rfl
  | cons i is ih =>
    have h1 := ipNet_good i (hp i (List.mem_cons_self ..))
    have h2 := ih (fun j hj => hp j (List.mem_cons_of_mem _ hj))
    simp only [List.cons_append, ipNets, h1, h2]
    rfl

theorem sameVersion_const (fam : Nat) : ∀ (l : List (Nat × Net)), (∀ p ∈ l, p.1 = fam) → sameVersion l = true
  | [], _ => rfl
  | [_], _ => rfl
  | a :: b :: rest, h => by
    have ha := h a (List.mem_cons_self ..)
    have hb := h b (List.mem_cons_of_mem _ (List.mem_cons_self ..))
    simp only [sameVersion, ha, hb, beq_self_eq_true, Bool.true_and]
    exact sameVersion_const fam (b :: rest) (fun p hp => h p (List.mem_cons_of_mem _ hp))

theorem sameVersion_cons (p a : Nat × Net) (rest : List (Nat × Net)) :
    sameVersion (p :: a :: rest) = (p.1 == a.1 && sameVersion (a :: rest)) := rfl

theorem sameVersion_adjacent (pre : List (Nat × Net)) (a b : Nat × Net) (post : List (Nat × Net))
    (h : a.1 ≠ b.1) : sameVersion (pre ++ a :: b :: post) = false := by
  induction pre with
  | nil => simp [sameVersion, h]
  | cons p pre ih =>
    cases pre with
    | nil =>
      simp only [List.nil_append] at ih
      simp only [List.cons_append, List.nil_append, sameVersion_cons p a, ih, Bool.and_false]
    | cons q pre' =>
      simp only [List.cons_append] at ih ⊢
      rw [sameVersion_cons p q, ih, Bool.and_false]

/-! ## `str` arguments of the setters -/

/-- `int(str(k))` for every integer -/
theorem pyInt_intToDec (k : Int) : pyInt (intToDec k) = some k := by
  cases k with
  | ofNat n =>
    simp only [intToDec]
    rw [IPText.pyInt_digits _ (IPText.toDec_ne_nil n) (IPText.toDec_all n), IPText.ofDigits_toDec]
    rfl
  | negSucc n =>
    simp only [intToDec]
    unfold pyInt
    have hs : ∀ c ∈ '-' :: toDec (n + 1), isSpace c = false := by
      intro c hc
      rcases List.mem_cons.mp hc with rfl | hc
      · decide
      · exact IPText.isSpace_of_isDigit c (IPText.toDec_all _ c hc)
    rw [IPText.strip_noSpace _ hs]
    simp only [IPText.ofDigits_toDec, Option.map_some]
    rfl

end Ccp.IPValX
