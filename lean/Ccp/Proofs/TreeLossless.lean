import Ccp.Model.Tree
import Ccp.Spec.BlankKeep
/-!
Helper lemmas for C01 (and for the "no banner, no macro" part of C02): what the
banner / macro passes and the blank-line filter do to the line texts and to the sizes.
Core Lean only.
-/
namespace Ccp.Tree
open Ccp.Py

/-- the three lists of a tree have one entry per line -/
def T.WF (t : T) : Prop := t.parents.length = t.texts.length ∧ t.keep.length = t.texts.length

/-! ## passes 2 and 3 touch neither the texts nor the sizes -/

theorem reparent_texts_ll (t : T) (p c : Nat) : (reparent t p c).texts = t.texts := rfl
theorem setKeep_texts_ll (t : T) (i : Nat) : (setKeep t i).texts = t.texts := rfl

theorem reparent_wf (t : T) (p c : Nat) (h : t.WF) : (reparent t p c).WF := by
  simpa [T.WF, reparent] using h
theorem setKeep_wf (t : T) (i : Nat) (h : t.WF) : (setKeep t i).WF := by
  simpa [T.WF, setKeep] using h

theorem bannerWalk_texts (d : Char) (p : Nat) (body : List Str) :
    ∀ (idx : Nat) (t : T), (bannerWalk d p idx body t).texts = t.texts := by
  induction body with
  | nil => intros; rfl
  | cons txt rest ih =>
    intro idx t
    unfold bannerWalk
    split
    · rfl
    · rw [ih]; rfl

theorem bannerWalk_wf (d : Char) (p : Nat) (body : List Str) :
    ∀ (idx : Nat) (t : T), t.WF → (bannerWalk d p idx body t).WF := by
  induction body with
  | nil => intro _ t h; exact h
  | cons txt rest ih =>
    intro idx t h
    unfold bannerWalk
    split
    · exact reparent_wf _ _ _ h
    · exact ih _ _ (setKeep_wf _ _ (reparent_wf _ _ _ h))

theorem markBanner_texts (t : T) (p : Nat) (txt : Str) : (markBanner t p txt).texts = t.texts := by
  unfold markBanner
  split
  · rfl
  · split
    · rfl
    · rw [bannerWalk_texts]; rfl

theorem markBanner_wf (t : T) (p : Nat) (txt : Str) (h : t.WF) : (markBanner t p txt).WF := by
  unfold markBanner
  split
  · exact setKeep_wf _ _ h
  · split
    · exact setKeep_wf _ _ h
    · exact bannerWalk_wf _ _ _ _ _ (setKeep_wf _ _ h)

theorem markBannersFrom_texts (ls : List Str) :
    ∀ (i : Nat) (t : T), (markBannersFrom i ls t).texts = t.texts := by
  induction ls with
  | nil => intros; rfl
  | cons txt rest ih =>
    intro i t
    unfold markBannersFrom
    rw [ih]
    split
    · exact markBanner_texts _ _ _
    · rfl

theorem markBannersFrom_wf (ls : List Str) :
    ∀ (i : Nat) (t : T), t.WF → (markBannersFrom i ls t).WF := by
  induction ls with
  | nil => intro _ t h; exact h
  | cons txt rest ih =>
    intro i t h
    unfold markBannersFrom
    apply ih
    split
    · exact markBanner_wf _ _ _ h
    · exact h

theorem markBanners_texts (t : T) : (markBanners t).texts = t.texts := markBannersFrom_texts _ _ _
theorem markBanners_wf (t : T) (h : t.WF) : (markBanners t).WF := markBannersFrom_wf _ _ _ h

theorem macroWalk_texts (p : Nat) (body : List Str) :
    ∀ (idx : Nat) (t : T), (macroWalk p idx body t).texts = t.texts := by
  induction body with
  | nil => intros; rfl
  | cons txt rest ih =>
    intro idx t
    unfold macroWalk
    simp only
    split
    · rfl
    · rw [ih]; rfl

theorem macroWalk_wf (p : Nat) (body : List Str) :
    ∀ (idx : Nat) (t : T), t.WF → (macroWalk p idx body t).WF := by
  induction body with
  | nil => intro _ t h; exact h
  | cons txt rest ih =>
    intro idx t h
    unfold macroWalk
    simp only
    split
    · exact reparent_wf _ _ _ (setKeep_wf _ _ h)
    · exact ih _ _ (reparent_wf _ _ _ (setKeep_wf _ _ h))

theorem markMacrosFrom_texts (ls : List Str) :
    ∀ (i : Nat) (t : T), (markMacrosFrom i ls t).texts = t.texts := by
  induction ls with
  | nil => intros; rfl
  | cons txt rest ih =>
    intro i t
    unfold markMacrosFrom
    rw [ih]
    split
    · rw [macroWalk_texts]; rfl
    · rfl

theorem markMacrosFrom_wf (ls : List Str) :
    ∀ (i : Nat) (t : T), t.WF → (markMacrosFrom i ls t).WF := by
  induction ls with
  | nil => intro _ t h; exact h
  | cons txt rest ih =>
    intro i t h
    unfold markMacrosFrom
    apply ih
    split
    · exact macroWalk_wf _ _ _ _ (setKeep_wf _ _ h)
    · exact h

theorem markMacros_texts (cfg : Cfg) (t : T) : (markMacros cfg t).texts = t.texts := by
  unfold markMacros; split
  · exact markMacrosFrom_texts _ _ _
  · rfl

theorem markMacros_wf (cfg : Cfg) (t : T) (h : t.WF) : (markMacros cfg t).WF := by
  unfold markMacros; split
  · exact markMacrosFrom_wf _ _ _ h
  · exact h

/-! ## pass 1 yields one parent per line -/

theorem linkLoop_length_ll (ls : List Info) : ∀ (st : St) (i : Nat), (linkLoop st i ls).length = ls.length := by
  induction ls with
  | nil => intros; rfl
  | cons l rest ih => intro st i; simp [linkLoop, ih]

theorem linkByIndent_length_ll (cfg : Cfg) (ls : List Str) : (linkByIndent cfg ls).length = ls.length := by
  simp [linkByIndent, linkLoop_length_ll]

/-! ## passes 1–3 -/

theorem link_texts_ll (cfg : Cfg) (ls : List Str) : (link cfg ls).texts = ls := by
  unfold link; rw [markMacros_texts, markBanners_texts]

theorem link_wf (cfg : Cfg) (ls : List Str) : (link cfg ls).WF := by
  unfold link
  apply markMacros_wf; apply markBanners_wf
  simp [T.WF, linkByIndent_length_ll]

/-- without a banner start the banner pass changes nothing -/
theorem markBannersFrom_id (ls : List Str) (h : ∀ x ∈ ls, isBannerStart x = false) :
    ∀ (i : Nat) (t : T), markBannersFrom i ls t = t := by
  induction ls with
  | nil => intros; rfl
  | cons txt rest ih =>
    intro i t
    unfold markBannersFrom
    rw [h txt (List.mem_cons_self ..)]
    exact ih (fun x hx => h x (List.mem_cons_of_mem _ hx)) _ _

theorem markMacrosFrom_id (ls : List Str) (h : ∀ x ∈ ls, isMacroStart x = false) :
    ∀ (i : Nat) (t : T), markMacrosFrom i ls t = t := by
  induction ls with
  | nil => intros; rfl
  | cons txt rest ih =>
    intro i t
    unfold markMacrosFrom
    rw [h txt (List.mem_cons_self ..)]
    exact ih (fun x hx => h x (List.mem_cons_of_mem _ hx)) _ _

theorem link_plain (cfg : Cfg) (ls : List Str)
    (hb : ∀ x ∈ ls, isBannerStart x = false)
    (hm : cfg.ios = true → ∀ x ∈ ls, isMacroStart x = false) :
    link cfg ls = { texts := ls, parents := linkByIndent cfg ls, keep := ls.map (fun _ => false) } := by
  unfold link markBanners
  rw [markBannersFrom_id ls hb]
  unfold markMacros
  split
  · rename_i hios; exact markMacrosFrom_id ls (hm hios) _ _
  · rfl

/-! ## pass 4: the blank-line filter -/

/-- `keptTexts` as a recursion over the two lists -/
def keptAux : List Str → List Bool → List Str
  | [], _ => []
  | _, [] => []
  | s :: ss, k :: ks => if nonBlank s || k then s :: keptAux ss ks else keptAux ss ks

theorem keptTexts_eq (t : T) : keptTexts t = keptAux t.texts t.keep := by
  unfold keptTexts
  generalize t.texts = ss
  generalize t.keep = ks
  induction ss generalizing ks with
  | nil => simp [keptAux]
  | cons s ss ih =>
    cases ks with
    | nil => simp [keptAux]
    | cons k ks =>
      simp only [List.zip_cons_cons, List.filterMap_cons, keptAux, nonBlank, ih]
      by_cases h : (!(strip s).isEmpty || k) = true <;> simp [h]

theorem keptAux_sublist : ∀ (ss : List Str) (ks : List Bool), (keptAux ss ks).Sublist ss
  | [], _ => by simp [keptAux]
  | _ :: _, [] => by simp [keptAux]
  | s :: ss, k :: ks => by
    unfold keptAux
    split
    · exact (keptAux_sublist ss ks).cons_cons _
    · exact (keptAux_sublist ss ks).cons _

theorem keptAux_nonBlank : ∀ (ss : List Str) (ks : List Bool), ks.length = ss.length →
    (keptAux ss ks).filter nonBlank = ss.filter nonBlank
  | [], _, _ => by simp [keptAux]
  | _ :: _, [], h => by simp at h
  | s :: ss, k :: ks, h => by
    have ih := keptAux_nonBlank ss ks (by simpa using h)
    unfold keptAux
    by_cases hs : nonBlank s = true
    · simp [hs, ih]
    · cases k <;> simp [hs, ih]

theorem keptTexts_sublist (t : T) : (keptTexts t).Sublist t.texts := by
  rw [keptTexts_eq]; exact keptAux_sublist _ _

theorem keptTexts_nonBlank (t : T) (h : t.WF) : (keptTexts t).filter nonBlank = t.texts.filter nonBlank := by
  rw [keptTexts_eq]; exact keptAux_nonBlank _ _ h.2

/-! ## the whole bootstrap -/

theorem bootstrapFuel_noIgnore (cfg : Cfg) (h : cfg.ignoreBlank = false) (fuel : Nat) (ls : List Str) :
    bootstrapFuel cfg fuel ls = link cfg ls := by
  cases fuel <;> simp [bootstrapFuel, h]

/-- the result of a bootstrap is always "passes 1–3 of its own texts" -/
theorem bootstrapFuel_is_link (cfg : Cfg) : ∀ (fuel : Nat) (ls : List Str),
    bootstrapFuel cfg fuel ls = link cfg (bootstrapFuel cfg fuel ls).texts := by
  intro fuel
  induction fuel with
  | zero => intro ls; simp [bootstrapFuel, link_texts_ll]
  | succ fuel ih =>
    intro ls
    unfold bootstrapFuel
    simp only
    split
    · split
      · exact ih _
      · simp [link_texts_ll]
    · simp [link_texts_ll]

theorem bootstrapFuel_wf (cfg : Cfg) (fuel : Nat) (ls : List Str) : (bootstrapFuel cfg fuel ls).WF := by
  rw [bootstrapFuel_is_link]; exact link_wf _ _

theorem bootstrapFuel_sublist (cfg : Cfg) : ∀ (fuel : Nat) (ls : List Str),
    (bootstrapFuel cfg fuel ls).texts.Sublist ls := by
  intro fuel
  induction fuel with
  | zero => intro ls; simp [bootstrapFuel, link_texts_ll]
  | succ fuel ih =>
    intro ls
    unfold bootstrapFuel
    simp only
    split
    · split
      · refine (ih _).trans ?_
        have := keptTexts_sublist (link cfg ls)
        rwa [link_texts_ll] at this
      · simp [link_texts_ll]
    · simp [link_texts_ll]

theorem bootstrapFuel_nonBlank (cfg : Cfg) : ∀ (fuel : Nat) (ls : List Str),
    (bootstrapFuel cfg fuel ls).texts.filter nonBlank = ls.filter nonBlank := by
  intro fuel
  induction fuel with
  | zero => intro ls; simp [bootstrapFuel, link_texts_ll]
  | succ fuel ih =>
    intro ls
    unfold bootstrapFuel
    simp only
    split
    · split
      · rw [ih, keptTexts_nonBlank _ (link_wf _ _), link_texts_ll]
      · simp [link_texts_ll]
    · simp [link_texts_ll]

/-- `ls.length` rounds are enough: every extra round strictly shortens the list, so the
filter drops nothing from the result -/
theorem bootstrapFuel_fixed (cfg : Cfg) (hi : cfg.ignoreBlank = true) : ∀ (fuel : Nat) (ls : List Str),
    ls.length ≤ fuel →
    (keptTexts (link cfg (bootstrapFuel cfg fuel ls).texts)).length = (bootstrapFuel cfg fuel ls).texts.length := by
  intro fuel
  induction fuel with
  | zero =>
    intro ls h
    have : ls = [] := List.eq_nil_of_length_eq_zero (by omega)
    subst this
    have := (keptTexts_sublist (link cfg [])).length_le
    simp [bootstrapFuel, link_texts_ll] at this ⊢
    exact this
  | succ fuel ih =>
    intro ls h
    unfold bootstrapFuel
    simp only [hi, if_true]
    split
    · rename_i hne
      apply ih
      have := (keptTexts_sublist (link cfg ls)).length_le
      rw [link_texts_ll] at this
      simp at hne
      omega
    · rename_i heq
      simp at heq
      simp [link_texts_ll, heq]

theorem keptTexts_fixed_of_length (cfg : Cfg) (ls : List Str)
    (h : (keptTexts (link cfg ls)).length = ls.length) : keptTexts (link cfg ls) = ls := by
  have hs := keptTexts_sublist (link cfg ls)
  rw [link_texts_ll] at hs
  exact hs.eq_of_length h

theorem bootstrap_fixed (cfg : Cfg) (hi : cfg.ignoreBlank = true) (ls : List Str) :
    keptTexts (link cfg (bootstrap cfg ls).texts) = (bootstrap cfg ls).texts :=
  keptTexts_fixed_of_length _ _ (bootstrapFuel_fixed cfg hi _ _ (Nat.le_refl _))

/-- the second bootstrap (`commit()`) reproduces the first -/
theorem parse_eq_bootstrap (cfg : Cfg) (ls : List Str) : parse cfg ls = bootstrap cfg ls := by
  unfold parse
  cases hi : cfg.ignoreBlank with
  | false =>
    unfold bootstrap
    rw [bootstrapFuel_noIgnore cfg hi, bootstrapFuel_noIgnore cfg hi, link_texts_ll]
  | true =>
    have hfix := bootstrap_fixed cfg hi ls
    have hlink : bootstrap cfg ls = link cfg (bootstrap cfg ls).texts := bootstrapFuel_is_link _ _ _
    generalize bootstrap cfg ls = r at hfix hlink
    unfold bootstrap
    cases hn : r.texts.length with
    | zero => simp [bootstrapFuel]; exact hlink.symm
    | succ n =>
      unfold bootstrapFuel
      simp only [hi, if_true, hfix, bne_self_eq_false]
      exact hlink.symm

end Ccp.Tree
