import Ccp.Py.Basic
import Ccp.Wire
import Ccp.Drv.All
