import Ccp.Drv.All
/-! Line-protocol driver: one request per line on stdin, one answer per line on stdout. -/

partial def loop (h : IO.FS.Stream) (out : IO.FS.Stream) : IO Unit := do
  let line ← h.getLine
  if line.isEmpty then return ()
  let line := String.ofList (line.toList.filter (· != (Char.ofNat 10)))
  out.putStrLn (Ccp.Drv.dispatch (Ccp.Wire.fields line))
  loop h out

def main : IO Unit := do
  loop (← IO.getStdin) (← IO.getStdout)
