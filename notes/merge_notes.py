"""three-way merge of notes/design_notes.json by property key: usage merge_notes.py <branch>"""
import json, subprocess, sys
br = sys.argv[1]
def show(rev):
    return json.loads(subprocess.run(['git', '-C', '/verif', 'show', rev + ':notes/design_notes.json'], capture_output=True, text=True).stdout)
base_rev = subprocess.run(['git', '-C', '/verif', 'merge-base', 'HEAD', br], capture_output=True, text=True).stdout.strip()
base, ours, theirs = show(base_rev), show('HEAD'), show(br)
out = ours
for k in sorted(set(ours['properties']) | set(theirs['properties'])):
    b = base['properties'].get(k, ''); o = ours['properties'].get(k, b); t = theirs['properties'].get(k, b)
    if t == b:
        continue
    if o == b:
        out['properties'][k] = t
    elif t.startswith(b):
        out['properties'][k] = o.rstrip() + ' ' + t[len(b):].strip(); print('design_notes: appended branch tail for', k)
    elif o.startswith(b):
        out['properties'][k] = t.rstrip() + ' ' + o[len(b):].strip(); print('design_notes: branch text + main tail for', k)
    else:
        out['properties'][k] = t.rstrip() + ' [main, merged by hand later:] ' + o; print('design_notes: MANUAL CHECK', k)
json.dump(out, open('/verif/notes/design_notes.json', 'w'), indent=1, ensure_ascii=False)
