#!/bin/bash
# usage: keep_seeded.sh <seed-id> <check-prop> [<check-prop>…]
# Confirms a seeded change produced by an independent agent in /tmp/seed/<id> (+ /tmp/seed/<id>.out) and stores it under /verif/seeded/<id>/.
set -u
id=$1; shift
V=${VERIF_WT:-/verif}   # worktree of /verif the checks run in (a scratch one, so that /verif itself is left alone)
src=/tmp/seed/$id; out=/tmp/seed/$id.out; dst=/verif/seeded/$id
mkdir -p $dst
(cd $out && PYTHONPATH=/repo /venv/bin/python demo.py >/dev/null 2>&1); d0=$?
(cd $out && PYTHONPATH=$src /venv/bin/python demo.py >/dev/null 2>&1); d1=$?
echo "demo: unchanged=$d0 seeded=$d1"
(cd $src && PYTHONPATH=$src /venv/bin/python -m pytest -q -p no:cacheprovider --timeout=900 --continue-on-collection-errors --junitxml=/tmp/seed/$id.junit.xml >/dev/null 2>&1)
tests=$(python3 - <<PY
import json,xml.etree.ElementTree as ET
base=set(json.load(open('/root/.vp/BASELINE.json'))['stable_pass'])
ok=set()
for tc in ET.parse('/tmp/seed/$id.junit.xml').getroot().iter('testcase'):
    if not any(c.tag in('failure','error','skipped') for c in tc):
        ok.add(tc.get('classname')+'::'+tc.get('name'))
print(len(base-ok))
PY
)
echo "baseline tests missing with the change: $tests"
results=""
for p in "$@"; do
  line=$(cd $V && CCP2_REPO=$src /venv/bin/python harness/check.py $p 2>/dev/null | grep -v KNOWN | grep VIOLATION | head -1); rc=$?
  echo "$p: ${line:-no violation reported}"
  results="$results$p=${line:+caught}${line:-missed};"
  if [ -n "$line" ]; then rp=$(echo "$line" | sed 's/.*replay=\([^ ]*\).*/\1/'); cp "$rp" $dst/replay-$p.json 2>/dev/null; fi
done
git -C $src diff > $dst/patch.diff
cp $out/demo.py $dst/demo.py
python3 - <<PY
import json
m=json.load(open('$out/meta.json'))
m['confirmed_by_coordinator']={'demo_exit_unchanged':$d0,'demo_exit_seeded':$d1,'baseline_tests_missing_with_change':$tests,
  'how':'demo.py run with PYTHONPATH=/repo and PYTHONPATH=<scratch worktree>; full pytest suite in the scratch worktree compared with BASELINE.json stable_pass; checks run with CCP2_REPO=<scratch worktree> (equivalent to git apply in /repo, used because builders were running against /repo)',
  'checks':'$results'}
json.dump(m,open('$dst/meta.json','w'),indent=1)
PY
cat $dst/meta.json | tail -8
