/-! Feasibility spike: `ConfigList.bootstrap` parent cache = nearest shallower config line.
    Mirrors _maintain_bootstrap_parent_cache / _build_bootstrap_parent_child. -/
namespace Spike

structure L where
  indent : Nat
  isCfg : Bool
deriving Repr, DecidableEq

/-- spec: nearest preceding config line with indent < k; `revPre` = processed lines, newest first -/
def walkBackR : List (Nat × L) → Nat → Option Nat
  | [], _ => none
  | (i, l) :: rest, k => if l.indent < k && l.isCfg then some i else walkBackR rest k

abbrev Cache := List (Nat × Nat)

def lookup : Cache → Nat → Option Nat
  | [], _ => none
  | (k', p) :: r, k => if k' = k then some p else lookup r k

theorem lookup_cons (a b : Nat) (r : Cache) (k : Nat) :
    lookup ((a, b) :: r) k = if a = k then some b else lookup r k := rfl

theorem lookup_filter (c : Cache) (j k : Nat) :
    lookup (c.filter (fun kp => kp.1 < j)) k = if k < j then lookup c k else none := by
  induction c with
  | nil => simp [lookup]
  | cons a r ih =>
    obtain ⟨k', p⟩ := a
    by_cases h : k' < j <;> by_cases h2 : k' = k
    · subst h2; simp [List.filter, h, lookup]
    · simp [List.filter, h, lookup, ih, h2]
    · subst h2; simp [List.filter, h, lookup, ih]
    · simp [List.filter, h, lookup, ih, h2]

/-- _maintain_bootstrap_parent_cache -/
def maintain (cache : Cache) (mx : Nat) (l : L) : Cache × Option Nat :=
  if l.isCfg && l.indent < mx then (cache.filter (fun kp => kp.1 < l.indent), none)
  else (cache, lookup cache l.indent)

/-- _build_bootstrap_parent_child (the parent it settles on, and the cache) -/
def build (revPre : List (Nat × L)) (cp : Cache × Option Nat) (l : L) : Cache × Option Nat :=
  if l.indent = 0 then (cp.1, none) else
  match cp.2 with
  | some p => (cp.1, some p)
  | none =>
    match walkBackR revPre l.indent with
    | some p => ((l.indent, p) :: cp.1, some p)
    | none => (cp.1, none)

def newMax (mx : Nat) (l : L) : Nat :=
  if l.indent = 0 && l.isCfg then 0 else max mx l.indent

structure St where
  cache : Cache
  mx : Nat
  revPre : List (Nat × L)

def step (st : St) (i : Nat) (l : L) : St × Option Nat :=
  let r := build st.revPre (maintain st.cache st.mx l) l
  ({ cache := r.1, mx := newMax st.mx l, revPre := (i, l) :: st.revPre }, r.2)

def specParent (revPre : List (Nat × L)) (l : L) : Option Nat :=
  if l.indent = 0 then none else walkBackR revPre l.indent

/-- every cached entry is the true answer for its indent, and keys are in (0, mx] -/
def Inv (cache : Cache) (mx : Nat) (revPre : List (Nat × L)) : Prop :=
  ∀ k p, lookup cache k = some p → walkBackR revPre k = some p ∧ 0 < k ∧ k ≤ mx

/-- Inv for the cache *as a cache for the extended prefix* -/
def InvNext (cache : Cache) (mx : Nat) (revPre : List (Nat × L)) (i : Nat) (l : L) : Prop :=
  ∀ k p, lookup cache k = some p →
    walkBackR ((i, l) :: revPre) k = some p ∧ 0 < k ∧ k ≤ newMax mx l

theorem maintain_parent (c : Cache) (mx : Nat) (rp : List (Nat × L)) (l : L) (h : Inv c mx rp) :
    ∀ p, (maintain c mx l).2 = some p → walkBackR rp l.indent = some p := by
  intro p hp
  unfold maintain at hp
  split at hp
  · cases hp
  · exact (h _ _ hp).1

theorem maintain_next (c : Cache) (mx : Nat) (rp : List (Nat × L)) (i : Nat) (l : L)
    (h : Inv c mx rp) : InvNext (maintain c mx l).1 mx rp i l := by
  intro k p hk
  unfold maintain at hk
  show (if l.indent < k && l.isCfg then some i else walkBackR rp k) = some p ∧ _
  unfold newMax
  split at hk
  · rename_i hpr
    simp at hpr
    rw [lookup_filter] at hk
    split at hk
    · obtain ⟨h1, h2, h3⟩ := h _ _ hk
      have hk1 : ¬ (l.indent < k) := by omega
      have h0 : ¬ (l.indent = 0) := by omega
      simp [hk1, h0, h1, h2]; omega
    · cases hk
  · rename_i hpr
    obtain ⟨h1, h2, h3⟩ := h _ _ hk
    by_cases hc : l.isCfg
    · simp [hc] at hpr
      have hk1 : ¬ (l.indent < k) := by omega
      have h0 : ¬ (l.indent = 0) := by omega
      simp [hk1, h0, h1, h2]; omega
    · simp [hc, h1, h2]; omega

theorem build_parent (rp : List (Nat × L)) (cp : Cache × Option Nat) (l : L)
    (hp : ∀ p, cp.2 = some p → walkBackR rp l.indent = some p) :
    (build rp cp l).2 = specParent rp l := by
  unfold build specParent
  split
  · rfl
  · cases h2 : cp.2 with
    | some p => simp [hp p h2]
    | none => cases hw : walkBackR rp l.indent <;> simp

theorem build_next (rp : List (Nat × L)) (cp : Cache × Option Nat) (mx i : Nat) (l : L)
    (h : InvNext cp.1 mx rp i l) : InvNext (build rp cp l).1 mx rp i l := by
  unfold build
  split
  · exact h
  · rename_i hpos
    cases h2 : cp.2 with
    | some p => exact h
    | none =>
      cases hw : walkBackR rp l.indent with
      | none => exact h
      | some q =>
        intro k p hk
        simp only at hk
        rw [lookup_cons] at hk
        split at hk
        · rename_i heq
          cases hk; subst heq
          show (if l.indent < l.indent && l.isCfg then some i else walkBackR rp l.indent) = some q ∧ _
          unfold newMax
          simp [hw, hpos]; omega
        · exact h _ _ hk

theorem step_correct (st : St) (i : Nat) (l : L) (h : Inv st.cache st.mx st.revPre) :
    (step st i l).2 = specParent st.revPre l ∧
    Inv (step st i l).1.cache (step st i l).1.mx (step st i l).1.revPre := by
  constructor
  · exact build_parent _ _ _ (maintain_parent _ _ _ _ h)
  · exact build_next _ _ _ _ _ (maintain_next _ _ _ _ _ h)

theorem inv_init : Inv [] 0 [] := by intro k p h; cases h

#print axioms step_correct
end Spike
