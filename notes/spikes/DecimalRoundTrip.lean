namespace Spike2

/-- Python `str(n)` for naturals, as a list of chars (most significant first). -/
def digitChar (d : Nat) : Char := Nat.digitChar d

def toDecRev (n : Nat) : List Char :=
  if h : n < 10 then [digitChar n] else digitChar (n % 10) :: toDecRev (n / 10)
decreasing_by omega

theorem toDecRev_lt (n : Nat) (h : n < 10) : toDecRev n = [digitChar n] := by
  rw [toDecRev]; simp [h]
theorem toDecRev_ge (n : Nat) (h : ¬ n < 10) :
    toDecRev n = digitChar (n % 10) :: toDecRev (n / 10) := by
  rw [toDecRev]; simp [h]

def toDec (n : Nat) : List Char := (toDecRev n).reverse

def digitVal (c : Char) : Option Nat :=
  if 48 ≤ c.toNat ∧ c.toNat ≤ 57 then some (c.toNat - 48) else none

/-- Python `int(s)` on a non-empty all-digit string (no sign / blanks handled here). -/
def ofDecAux : List Char → Nat → Option Nat
  | [], acc => some acc
  | c :: cs, acc => match digitVal c with
    | some d => ofDecAux cs (acc * 10 + d)
    | none => none

def ofDec (s : List Char) : Option Nat := if s = [] then none else ofDecAux s 0

theorem digitVal_digitChar_fin : ∀ d : Fin 10, digitVal (digitChar d.val) = some d.val := by
  decide

theorem digitVal_digitChar (d : Nat) (h : d < 10) : digitVal (digitChar d) = some d :=
  digitVal_digitChar_fin ⟨d, h⟩

theorem ofDecAux_append (xs ys : List Char) (acc : Nat) :
    ofDecAux (xs ++ ys) acc = (ofDecAux xs acc).bind (fun a => ofDecAux ys a) := by
  induction xs generalizing acc with
  | nil => simp [ofDecAux]
  | cons c cs ih =>
    simp only [List.cons_append, ofDecAux]
    cases digitVal c with
    | none => simp
    | some d => simp [ih]

theorem ofDecAux_toDec (n : Nat) : ofDecAux (toDec n) 0 = some n := by
  induction n using Nat.strongRecOn with
  | _ n ih =>
    unfold toDec
    by_cases h : n < 10
    · simp [toDecRev_lt n h, ofDecAux, digitVal_digitChar n h]
    · have hlt : n / 10 < n := by omega
      have := ih (n / 10) hlt
      unfold toDec at this
      rw [toDecRev_ge n h]
      simp only [List.reverse_cons, ofDecAux_append, this, Option.bind_some]
      simp [ofDecAux, digitVal_digitChar (n % 10) (by omega)]
      omega

theorem toDec_ne_nil (n : Nat) : toDec n ≠ [] := by
  unfold toDec
  by_cases h : n < 10
  · simp [toDecRev_lt n h]
  · simp [toDecRev_ge n h]

theorem ofDec_toDec (n : Nat) : ofDec (toDec n) = some n := by
  unfold ofDec; simp [toDec_ne_nil, ofDecAux_toDec]

#print axioms ofDec_toDec
end Spike2
