/-! Feasibility spike: find_object_branches growth loop = depth-first chain enumeration -/
namespace Spike4

variable (children : Nat → List Nat) (m : Nat → Nat → Bool)

/-- a branch under construction: matched line numbers so far (newest last), or dead -/
inductive Br where
  | live (xs : List Nat) (last : Nat)   -- xs ++ [last]
  | dead (xs : List Nat) (pad : Nat)    -- xs followed by `pad` Nones
deriving Repr

def kids (p : Nat) (r : Nat) : List Nat := (children p).filter (m r)

/-- one iteration of the `for idx, childspec` loop (idx > 0) -/
def grow (bs : List Br) (r : Nat) : List Br :=
  bs.flatMap fun b => match b with
    | .live xs p =>
      if kids children m p r = [] then [.dead (xs ++ [p]) 1]
      else (kids children m p r).map fun k => .live (xs ++ [p]) k
    | .dead xs n => [.dead xs (n + 1)]

def complete : Br → Option (List Nat)
  | .live xs p => some (xs ++ [p])
  | .dead _ _ => none

/-- spec: all chains below `p` for the remaining regexes, depth first -/
def chainsFrom (p : Nat) : List Nat → List (List Nat)
  | [] => [[]]
  | r :: rs => (kids children m p r).flatMap fun k => (chainsFrom k rs).map (k :: ·)

/-- completions of one branch over the remaining regexes -/
def completions (b : Br) (rs : List Nat) : List (List Nat) :=
  match b with
  | .live xs p => (chainsFrom children m p rs).map fun t => xs ++ [p] ++ t
  | .dead _ _ => []

theorem grow_dead_completions (xs : List Nat) (n : Nat) (rs : List Nat) :
    ((rs.foldl (grow children m) [Br.dead xs n]).filterMap complete) = [] := by
  induction rs generalizing n with
  | nil => simp [complete]
  | cons r rs ih => simp only [List.foldl, grow, List.flatMap_cons, List.flatMap_nil, List.append_nil]; exact ih _

theorem foldl_grow_append (bs cs : List Br) (rs : List Nat) :
    rs.foldl (grow children m) (bs ++ cs) =
      rs.foldl (grow children m) bs ++ rs.foldl (grow children m) cs := by
  induction rs generalizing bs cs with
  | nil => rfl
  | cons r rs ih => simp only [List.foldl, grow, List.flatMap_append]; exact ih _ _

theorem foldl_grow_nil (rs : List Nat) : rs.foldl (grow children m) [] = [] := by
  induction rs with
  | nil => rfl
  | cons r rs ih => simpa [List.foldl, grow] using ih

theorem grow_completions (bs : List Br) (rs : List Nat) :
    (rs.foldl (grow children m) bs).filterMap complete =
      bs.flatMap (fun b => completions children m b rs) := by
  induction rs generalizing bs with
  | nil =>
    induction bs with
    | nil => rfl
    | cons b bs ih =>
      cases b <;> simp_all [complete, completions, chainsFrom, List.filterMap_cons]
  | cons r rs ih =>
    induction bs with
    | nil =>
      have : grow children m [] r = [] := rfl
      simp only [List.foldl, this, foldl_grow_nil, List.filterMap_nil, List.flatMap_nil]
    | cons b bs ihb =>
      have : b :: bs = [b] ++ bs := rfl
      rw [this, foldl_grow_append, List.filterMap_append, List.flatMap_append, ihb]
      congr 1
      simp only [List.foldl, List.flatMap_cons, List.flatMap_nil, List.append_nil]
      cases b with
      | dead xs n =>
        simp only [grow, List.flatMap_cons, List.flatMap_nil, List.append_nil, completions]
        exact grow_dead_completions children m xs (n + 1) rs
      | live xs p =>
        simp only [grow, List.flatMap_cons, List.flatMap_nil, List.append_nil, completions,
          chainsFrom]
        split
        · rename_i hk
          rw [hk, grow_dead_completions]; simp
        · rw [ih]
          simp [List.flatMap_map, List.map_flatMap, completions, List.append_assoc, Function.comp_def]

#print axioms grow_completions
end Spike4
