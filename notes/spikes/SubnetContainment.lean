namespace Spike3

def net (a h : Nat) : Nat := a / 2^h * 2^h
def top (a h : Nat) : Nat := net a h + 2^h - 1

def containsImpl (y p x q : Nat) : Bool :=
  decide (q ≤ p) && decide (net y p ≤ net x q) && decide (top x q ≤ top y p)

theorem lt_net_add (x h : Nat) : x < x / 2^h * 2^h + 2^h := by
  have hQ : 0 < 2^h := Nat.two_pow_pos h
  have h1 := Nat.div_add_mod x (2^h)
  have hm := Nat.mod_lt x hQ
  rw [Nat.mul_comm] at h1; omega

theorem net_le (x h : Nat) : x / 2^h * 2^h ≤ x := Nat.div_mul_le_self x (2^h)

/-- aligned blocks: if q ≤ p then (a/P*P) is a multiple of Q -/
theorem net_dvd (a p q : Nat) (hqp : q ≤ p) : ∃ k, a / 2^p * 2^p = k * 2^q := by
  refine ⟨a / 2^p * 2^(p - q), ?_⟩
  rw [Nat.mul_assoc, ← Nat.pow_add, Nat.sub_add_cancel hqp]

theorem contains_core (y p x q : Nat) :
    ((q ≤ p ∧ y / 2^p * 2^p ≤ x / 2^q * 2^q) ∧
      x / 2^q * 2^q + 2^q - 1 ≤ y / 2^p * 2^p + 2^p - 1) ↔ (q ≤ p ∧ x / 2^p = y / 2^p) := by
  have hP : 0 < 2^p := Nat.two_pow_pos p
  have hQ : 0 < 2^q := Nat.two_pow_pos q
  have hx1 := net_le x q
  have hx2 := lt_net_add x q
  constructor
  · rintro ⟨⟨hqp, h1⟩, h2⟩
    refine ⟨hqp, ?_⟩
    have hlo : y / 2^p * 2^p ≤ x := by omega
    have hhi : x < y / 2^p * 2^p + 2^p := by omega
    apply Nat.div_eq_of_lt_le
    · exact hlo
    · rw [Nat.add_mul, Nat.one_mul]; exact hhi
  · rintro ⟨hqp, heq⟩
    have hlo : y / 2^p * 2^p ≤ x := by rw [← heq]; exact net_le x p
    have hhi : x < y / 2^p * 2^p + 2^p := by rw [← heq]; exact lt_net_add x p
    obtain ⟨k, hk⟩ := net_dvd y p q hqp
    -- the upper end of y's block is also a multiple of Q
    obtain ⟨m, hm⟩ : ∃ m, y / 2^p * 2^p + 2^p = m * 2^q := by
      refine ⟨k + 2^(p - q), ?_⟩
      rw [Nat.add_mul, ← hk, ← Nat.pow_add, Nat.sub_add_cancel hqp]
    refine ⟨⟨hqp, ?_⟩, ?_⟩
    · -- k*Q ≤ x  →  k ≤ x/Q  →  k*Q ≤ x/Q*Q
      rw [hk] at hlo ⊢
      have : k ≤ x / 2^q := (Nat.le_div_iff_mul_le hQ).mpr hlo
      exact Nat.mul_le_mul_right _ this
    · -- x < m*Q → x/Q < m → x/Q*Q + Q ≤ m*Q
      rw [hm] at hhi
      have hlt : x / 2^q < m := (Nat.div_lt_iff_lt_mul hQ).mpr hhi
      have : (x / 2^q + 1) * 2^q ≤ m * 2^q := Nat.mul_le_mul_right _ hlt
      rw [Nat.add_mul, Nat.one_mul] at this
      omega

theorem contains_iff (y p x q : Nat) :
    containsImpl y p x q = true ↔ (q ≤ p ∧ x / 2^p = y / 2^p) := by
  rw [← contains_core]
  unfold containsImpl top net
  simp only [Bool.and_eq_true, decide_eq_true_eq]

#print axioms contains_iff
end Spike3
