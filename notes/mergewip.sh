#!/bin/bash
# usage: mergewip.sh <worktree-id> <prop> [<prop>...]
set -u
id=$1; shift
cd /verif
cp known_findings.json /tmp/kf_main.json
git show wip-$id:known_findings.json > /tmp/kf_theirs.json
git show $(git merge-base HEAD wip-$id):known_findings.json > /tmp/kf_base.json
if [ -n "$(git status --porcelain)" ]; then git add -A; git commit -qm "WIP before merging $id"; fi
git merge --no-edit -X theirs wip-$id 2>&1 | tail -3
if ! git merge-base --is-ancestor wip-$id HEAD; then echo "MERGE DID NOT HAPPEN"; exit 1; fi
if git status --short | grep -q '^UU\|^AA'; then echo "CONFLICTS"; git status --short | grep '^UU\|^AA'; exit 1; fi
python3 - <<'PY'
import json
a=json.load(open('/tmp/kf_main.json')); b=json.load(open('/tmp/kf_theirs.json'))
base={f['id']:f for f in json.load(open('/tmp/kf_base.json'))['findings']}
ids=[f['id'] for f in a['findings']]
for f in b['findings']:
    if f['id'] not in ids: a['findings'].append(f); ids.append(f['id'])
    else:
        k=ids.index(f['id'])
        if a['findings'][k]!=f and base.get(f['id'])!=f: print('known_findings: taking branch version of',f['id']); a['findings'][k]=f
json.dump(a,open('/verif/known_findings.json','w'),indent=1)
print('known findings:',len(ids))
PY
# extractors of harness/translate.py must survive the merge
python3 - <<'PY'
import re,subprocess
cur=set(re.findall(r'emit\("(\w+)"', open('/verif/harness/translate.py').read()))
for rev in ('HEAD^1','HEAD^2'):
    try:
        old=set(re.findall(r'emit\("(\w+)"', subprocess.run(['git','-C','/verif','show',rev+':harness/translate.py'],capture_output=True,text=True).stdout))
    except Exception: continue
    if old-cur: print('TRANSLATE.PY LOST EXTRACTORS:', rev, old-cur)
PY
/venv/bin/python harness/translate.py > /dev/null
/venv/bin/python harness/manifest_gen.py | tail -1
(cd lean && lake build 2>&1 | grep -v "^✔" | tail -5)
for p in "$@"; do
  /venv/bin/python harness/check.py $p | cut -c1-200 | tail -4; echo "$p exit=${PIPESTATUS[0]}"
  python3 -c "
import json; e=json.load(open('/verif/evidence/$p.json')); c=e['coverage']; print('$p', 'obl', c['obligations'], 'dis', c['discharged'], c['proof_problems'], 'evals', c['evaluations'], 'disagree', c['correspondence_disagreements'], 'wall', e['wall_s'])"
done
git worktree remove --force /tmp/vw/$id 2>/dev/null; git branch -D wip-$id | tail -1
git add -A; git commit -qm "Merge $id ($*); regenerate glue and manifest"; git log --oneline | head -1
