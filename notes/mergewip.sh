#!/bin/bash
# usage: mergewip.sh <worktree-id> <prop> [<prop>...]
set -u
id=$1; shift
cd /verif
cp known_findings.json /tmp/kf_main.json
git show wip-$id:known_findings.json > /tmp/kf_theirs.json
git show $(git merge-base HEAD wip-$id):known_findings.json > /tmp/kf_base.json
if [ -n "$(git status --porcelain)" ]; then git add -A; git commit -qm "WIP before merging $id"; fi
# no "-X theirs": it silently dropped the other builder's additions to a shared Props file once (C03S / C02B).
# Props files are append-only (merge=union in .gitattributes); generated files are taken from main and regenerated below.
git merge --no-commit --no-ff wip-$id 2>&1 | tail -3
for f in $(git diff --name-only --diff-filter=U); do
  case "$f" in
    MANIFEST.json|evidence/*|lean/Ccp.lean|lean/Ccp/Drv/All.lean|lean/Ccp/Gen/*|DESIGN.md|known_findings.json|harness/fingerprints.json)
      git checkout --ours -- "$f"; git add "$f"; echo "generated file $f: kept main's, regenerated below";;
    notes/design_notes.json)
      python3 /verif/notes/merge_notes.py wip-$id && git add "$f";;
  esac
done
if [ -n "$(git diff --name-only --diff-filter=U)" ]; then echo "CONFLICTS (resolve by hand, then git commit and rerun the rest of this script by hand):"; git diff --name-only --diff-filter=U; exit 1; fi
git commit -qm "Merge branch 'wip-$id'"
if ! git merge-base --is-ancestor wip-$id HEAD; then echo "MERGE DID NOT HAPPEN"; exit 1; fi
python3 - <<'PY'
import json
a=json.load(open('/tmp/kf_main.json')); b=json.load(open('/tmp/kf_theirs.json'))
base={f['id']:f for f in json.load(open('/tmp/kf_base.json'))['findings']}
ids=[f['id'] for f in a['findings']]
for f in b['findings']:
    if f['id'] not in ids: a['findings'].append(f); ids.append(f['id'])
    else:
        k=ids.index(f['id'])
        if a['findings'][k]!=f and base.get(f['id'])!=f: print('known_findings: taking branch version of',f['id']); a['findings'][k]=f
json.dump(a,open('/verif/known_findings.json','w'),indent=1)
print('known findings:',len(ids))
PY
# extractors of harness/translate.py must survive the merge
python3 - <<'PY'
import re,subprocess
cur=set(re.findall(r'emit\("(\w+)"', open('/verif/harness/translate.py').read()))
for rev in ('HEAD^1','HEAD^2'):
    try:
        old=set(re.findall(r'emit\("(\w+)"', subprocess.run(['git','-C','/verif','show',rev+':harness/translate.py'],capture_output=True,text=True).stdout))
    except Exception: continue
    if old-cur: print('TRANSLATE.PY LOST EXTRACTORS:', rev, old-cur)
PY
/venv/bin/python harness/translate.py > /dev/null
/venv/bin/python harness/manifest_gen.py | tail -1
(cd lean && lake build 2>&1 | grep -v "^✔" | tail -5)
for p in "$@"; do
  /venv/bin/python harness/check.py $p | cut -c1-200 | tail -4; echo "$p exit=${PIPESTATUS[0]}"
  python3 -c "
import json; e=json.load(open('/verif/evidence/$p.json')); c=e['coverage']; print('$p', 'obl', c['obligations'], 'dis', c['discharged'], c['proof_problems'], 'evals', c['evaluations'], 'disagree', c['correspondence_disagreements'], 'wall', e['wall_s'])"
done
git worktree remove --force /tmp/vw/$id 2>/dev/null; git branch -D wip-$id | tail -1
git add -A; git commit -qm "Merge $id ($*); regenerate glue and manifest"; git log --oneline | head -1
